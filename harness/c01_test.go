package harness

import (
	"fmt"
	"sort"
	"strings"
	"testing"

	corev1 "k8s.io/api/core/v1"
	metav1 "k8s.io/apimachinery/pkg/apis/meta/v1"
	"pgregory.net/rapid"
	"sigs.k8s.io/controller-runtime/pkg/client"

	v1 "sigs.k8s.io/karpenter/pkg/apis/v1"
	"sigs.k8s.io/karpenter/pkg/cloudprovider"
	pscheduling "sigs.k8s.io/karpenter/pkg/controllers/provisioning/scheduling"
	"sigs.k8s.io/karpenter/pkg/scheduling"

	"verif/harness/ev"
	"verif/harness/gen"
	"verif/harness/ref"
	"verif/harness/sim"
)

// ---------------------------------------------------------------------------------------------------------------------
// the placement oracle (shared by C01, C04, C06, C19)
// ---------------------------------------------------------------------------------------------------------------------

// known ephemeral taints Karpenter documents as ignored on managed nodes that are not initialized yet
func isEphemeralTaint(t corev1.Taint) bool {
	switch t.Key {
	case corev1.TaintNodeNotReady, corev1.TaintNodeUnreachable, "node.cloudprovider.kubernetes.io/uninitialized", v1.UnregisteredTaintKey:
		return true
	}
	return strings.HasPrefix(t.Key, "readiness.k8s.io/")
}

// existingNodeView builds the node Kubernetes will see once an in-flight node finished starting, following the
// documented rules: labels/taints from the NodeClaim until registered, startup + ephemeral taints ignored and NodeClaim
// status filling zero-valued node status until initialized.
func (b *builtWorld) existingNodeView(bn *sim.BuiltNode) (*corev1.Node, corev1.ResourceList) {
	w := b.W
	var node *corev1.Node
	var nc *v1.NodeClaim
	w.Quiet(func() {
		if bn.Node != nil {
			n := &corev1.Node{}
			if err := w.Client.Get(w.Ctx, client.ObjectKeyFromObject(bn.Node), n); err == nil {
				node = n
			}
		}
		if bn.NodeClaim != nil {
			c := &v1.NodeClaim{}
			if err := w.Client.Get(w.Ctx, client.ObjectKeyFromObject(bn.NodeClaim), c); err == nil {
				nc = c
			}
		}
	})
	managed := nc != nil
	registered := !managed || (node != nil && node.Labels[v1.NodeRegisteredLabelKey] == "true")
	initialized := !managed || (node != nil && node.Labels[v1.NodeInitializedLabelKey] == "true")
	view := &corev1.Node{ObjectMeta: metav1.ObjectMeta{Name: bn.Spec.Name, Labels: map[string]string{}}}
	if node != nil && registered {
		for k, v := range node.Labels {
			view.Labels[k] = v
		}
		view.Spec.Taints = append([]corev1.Taint{}, node.Spec.Taints...)
	} else {
		for k, v := range nc.Labels {
			view.Labels[k] = v
		}
		view.Labels[corev1.LabelHostname] = bn.Spec.Name
		view.Spec.Taints = append([]corev1.Taint{}, nc.Spec.Taints...)
	}
	if managed && !initialized {
		var kept []corev1.Taint
		for _, t := range view.Spec.Taints {
			startup := false
			for _, st := range nc.Spec.StartupTaints {
				startup = startup || st.MatchTaint(&t)
			}
			if !startup && !isEphemeralTaint(t) {
				kept = append(kept, t)
			}
		}
		view.Spec.Taints = kept
	}
	var alloc corev1.ResourceList
	switch {
	case initialized:
		alloc = node.Status.Allocatable
	case node != nil:
		alloc = corev1.ResourceList{}
		for k, v := range node.Status.Allocatable {
			alloc[k] = v
		}
		for k, v := range nc.Status.Allocatable {
			if cur, ok := alloc[k]; !ok || cur.IsZero() {
				alloc[k] = v
			}
		}
	default:
		alloc = nc.Status.Allocatable
	}
	return view, alloc
}

func terminal(p *corev1.Pod) bool {
	return p.Status.Phase == corev1.PodSucceeded || p.Status.Phase == corev1.PodFailed
}

// residentsOf lists the non-terminal pods bound to the node and the daemons Kubernetes will still start there.
func (b *builtWorld) residentsOf(nodeName string, view *corev1.Node) (residents, expected []*corev1.Pod) {
	var pods corev1.PodList
	b.W.Quiet(func() { _ = b.W.Client.List(b.W.Ctx, &pods) })
	running := map[string]bool{}
	for i := range pods.Items {
		p := &pods.Items[i]
		if p.Spec.NodeName != nodeName || terminal(p) {
			continue
		}
		residents = append(residents, p)
		for _, o := range p.OwnerReferences {
			if o.Kind == "DaemonSet" {
				running[o.Name] = true
			}
		}
	}
	for _, ds := range b.DaemonSets {
		if !running[ds.Name] && daemonRunsOn(ds, view) {
			expected = append(expected, daemonTemplatePod(ds))
		}
	}
	return residents, expected
}

func (b *builtWorld) originals(pods []*corev1.Pod) []*corev1.Pod {
	out := make([]*corev1.Pod, 0, len(pods))
	for _, p := range pods {
		if o, ok := b.Originals[p.UID]; ok {
			out = append(out, o)
		} else {
			out = append(out, p)
		}
	}
	return out
}

func (b *builtWorld) nodeByStateName(name string) *sim.BuiltNode {
	for _, bn := range b.Nodes {
		if bn.Spec.Name == name || (bn.NodeClaim != nil && bn.NodeClaim.Name == name) {
			return bn
		}
	}
	return nil
}

func (b *builtWorld) itSpec(name string) (sim.ITSpec, bool) {
	for _, it := range b.S.Catalog {
		if it.Name == name {
			return it, true
		}
	}
	return sim.ITSpec{}, false
}

// poolPrims lists the NodePool's requirements (and template labels) per key.
func (b *builtWorld) poolPrims(pool string) map[string][]ref.Prim {
	np := b.Pools[pool]
	if np == nil {
		return nil
	}
	out := map[string][]ref.Prim{}
	for _, r := range np.Spec.Template.Spec.Requirements {
		out[r.Key] = append(out[r.Key], ref.Prim{Op: string(r.Operator), Values: r.Values})
	}
	for k, v := range np.Spec.Template.Labels {
		out[k] = append(out[k], ref.Prim{Op: "In", Values: []string{v}})
	}
	return out
}

// claimPrims adds every expression the pods sharing a NodeClaim carry to the pool's own: the NodeClaim's requirement on
// a key is their conjunction, which is where the representation loses "label must be present".
func claimPrims(pool map[string][]ref.Prim, pods []*corev1.Pod) map[string][]ref.Prim {
	out := map[string][]ref.Prim{}
	for k, v := range pool {
		out[k] = append(out[k], v...)
	}
	for _, p := range pods {
		for _, term := range ref.PodTerms(p) {
			for k, prims := range term {
				out[k] = append(out[k], prims...)
			}
		}
	}
	return out
}

// termChoices lists, for every way of picking one (required x preferred) term per pod, the pool's expressions plus the
// picked terms (at most limit combinations).
func termChoices(pool map[string][]ref.Prim, pods []*corev1.Pod, limit int) []map[string][]ref.Prim {
	out := []map[string][]ref.Prim{{}}
	for k, v := range pool {
		out[0][k] = append([]ref.Prim{}, v...)
	}
	for _, p := range pods {
		var next []map[string][]ref.Prim
		for _, base := range out {
			for _, term := range ref.PodTerms(p) {
				m := map[string][]ref.Prim{}
				for k, v := range base {
					m[k] = append([]ref.Prim{}, v...)
				}
				for k, v := range term {
					m[k] = append(m[k], v...)
				}
				next = append(next, m)
				if len(next) >= limit {
					break
				}
			}
			if len(next) >= limit {
				break
			}
		}
		out = next
	}
	return out
}

// customCombos enumerates the label values the NodeClaim may end up with for user-defined (not well-known) keys.
func customCombos(reqs scheduling.Requirements) []map[string]string {
	combos := []map[string]string{{}}
	keys := make([]string, 0, len(reqs))
	for k := range reqs {
		keys = append(keys, k)
	}
	sort.Strings(keys)
	for _, k := range keys {
		if v1.WellKnownLabels.Has(k) || v1.RestrictedLabels.Has(k) || k == v1.NodeRegisteredLabelKey || k == v1.NodeInitializedLabelKey || strings.HasPrefix(k, "karpenter.test.sh/") {
			continue
		}
		r := reqs[k]
		var vals []string
		switch r.Operator() {
		case corev1.NodeSelectorOpIn:
			vals = r.Values()
			sort.Strings(vals)
		case corev1.NodeSelectorOpDoesNotExist:
			continue // label stays absent
		default:
			seen := map[string]bool{}
			for i := 0; i < 3; i++ {
				if v := r.Any(); v != "" && !seen[v] {
					seen[v] = true
					vals = append(vals, v)
				}
			}
		}
		if len(vals) == 0 {
			continue
		}
		var next []map[string]string
		for _, c := range combos {
			for _, v := range vals {
				m := map[string]string{k: v}
				for ck, cv := range c {
					m[ck] = cv
				}
				next = append(next, m)
			}
		}
		if len(next) > 24 {
			next = next[:24]
		}
		combos = next
	}
	return combos
}

type launchChoice struct {
	of sim.OfferingSpec
	os string
}

// launchable lists the (offering, os) pairs of a type that a conforming provider may use for these requirements.
func launchable(it sim.ITSpec, reqs scheduling.Requirements) []launchChoice {
	has := func(k, v string) bool { return !reqs.Has(k) || reqs.Get(k).Has(v) }
	absentOK := func(k string) bool {
		if !reqs.Has(k) {
			return true
		}
		op := reqs.Get(k).Operator()
		return op == corev1.NodeSelectorOpNotIn || op == corev1.NodeSelectorOpDoesNotExist
	}
	if !has(corev1.LabelInstanceTypeStable, it.Name) || !has(corev1.LabelArchStable, it.Arch) {
		return nil
	}
	if (it.Family != "" && !has(sim.LabelFamily, it.Family)) || (it.Family == "" && !absentOK(sim.LabelFamily)) {
		return nil
	}
	if (it.Gen != "" && !has(sim.LabelGen, it.Gen)) || (it.Gen == "" && !absentOK(sim.LabelGen)) {
		return nil
	}
	var out []launchChoice
	for _, of := range it.Offerings {
		if !of.Available || !has(corev1.LabelTopologyZone, of.Zone) || !has(v1.CapacityTypeLabelKey, of.CapacityType) {
			continue
		}
		if of.CapacityType == v1.CapacityTypeReserved {
			if !has(cloudprovider.ReservationIDLabel, of.ReservationID) {
				continue
			}
		} else if !absentOK(cloudprovider.ReservationIDLabel) {
			continue
		}
		for _, os := range it.OS {
			if has(corev1.LabelOSStable, os) {
				out = append(out, launchChoice{of, os})
			}
		}
	}
	return out
}

// newNodeView is the node a launch choice produces for a scheduling NodeClaim.
func newNodeView(nc *pscheduling.NodeClaim, it sim.ITSpec, ch launchChoice, custom map[string]string) *corev1.Node {
	labels := sim.NodeLabels(sim.LaunchOption{Type: it, Offering: ch.of, OS: ch.os})
	for k, v := range nc.Labels {
		labels[k] = v
	}
	for k, v := range custom {
		labels[k] = v
	}
	labels[v1.NodePoolLabelKey] = nc.NodePoolName
	labels[v1.NodeRegisteredLabelKey] = "true"
	labels[v1.NodeInitializedLabelKey] = "true"
	labels[corev1.LabelHostname] = "new-node"
	return &corev1.Node{ObjectMeta: metav1.ObjectMeta{Name: "new-node", Labels: labels}, Spec: corev1.NodeSpec{Taints: append([]corev1.Taint{}, nc.Spec.Taints...)}}
}

// mentionsKey: the pod's nodeSelector or required node affinity has an expression on the key.
func mentionsKey(p *corev1.Pod, key string) bool {
	if _, ok := p.Spec.NodeSelector[key]; ok {
		return true
	}
	if a := p.Spec.Affinity; a != nil && a.NodeAffinity != nil && a.NodeAffinity.RequiredDuringSchedulingIgnoredDuringExecution != nil {
		for _, t := range a.NodeAffinity.RequiredDuringSchedulingIgnoredDuringExecution.NodeSelectorTerms {
			for _, e := range t.MatchExpressions {
				if e.Key == key {
					return true
				}
			}
		}
	}
	return false
}

type placementStats struct {
	existingPlacements, newClaims, placedPods, strandedTypes, judgedTypes, missingDaemonCases int
	classes                                                                                   map[string]bool
}

// checkNewNodeClaim judges one NodeClaim of a scheduling result. worldPods are pods assumed gone (consolidation candidates).
func (b *builtWorld) checkNewNodeClaim(nc *pscheduling.NodeClaim, c *ev.Ctx, st *placementStats, where string) {
	placed := b.originals(nc.Pods)
	combos := customCombos(nc.Requirements)
	launchableTypes := 0
	for _, opt := range nc.InstanceTypeOptions {
		it, ok := b.itSpec(opt.Name)
		if !ok {
			c.Violate(where+":unknown-instance-type", "NodeClaim lists instance type %s that the provider does not offer", opt.Name)
			continue
		}
		choices := launchable(it, nc.Requirements)
		if len(choices) == 0 {
			st.strandedTypes++
			continue
		}
		launchableTypes++
		st.judgedTypes++
		var firstReject *ref.Reject
		var firstChoice launchChoice
		admitted := false
		for _, ch := range choices {
			alloc := it.Allocatable(ch.of)
			var rej *ref.Reject
			for _, custom := range combos {
				node := newNodeView(nc, it, ch, custom)
				var residents []*corev1.Pod
				for _, ds := range b.DaemonSets {
					if daemonRunsOn(ds, node) {
						residents = append(residents, daemonTemplatePod(ds))
					}
				}
				if len(residents) > 0 {
					st.classes["daemon_overhead"] = true
				}
				if rej = (ref.NodeCase{Node: node, Allocatable: alloc, Residents: residents, Placed: placed, PoolPrims: b.poolPrims(nc.NodePoolName)}).Admissible(); rej != nil {
					break
				}
			}
			if rej == nil {
				admitted = true
				break
			}
			if firstReject == nil {
				firstReject, firstChoice = rej, ch
			}
		}
		if !admitted {
			// would some choice be admitted if an emptied / complement requirement were satisfied by an absent label?
			rule := firstReject.Rule
			// the NodeClaim's requirement on a key is the conjunction of the pool's expressions and of ONE term per
			// co-located pod (whichever OR-ed / preferred term was in effect): try the union of all terms first, then
			// every choice of one term per pod
			primSets := []map[string][]ref.Prim{claimPrims(b.poolPrims(nc.NodePoolName), placed)}
			primSets = append(primSets, termChoices(b.poolPrims(nc.NodePoolName), placed, 300)...)
		lossy:
			for _, prims := range primSets {
				for _, ch := range choices {
					ok := true
					for _, custom := range combos {
						node := newNodeView(nc, it, ch, custom)
						var residents []*corev1.Pod
						for _, ds := range b.DaemonSets {
							if daemonRunsOn(ds, node) {
								residents = append(residents, daemonTemplatePod(ds))
							}
						}
						if (ref.NodeCase{Node: node, Allocatable: it.Allocatable(ch.of), Residents: residents, Placed: placed, PoolPrims: prims, PresenceLossy: true}).Admissible() != nil {
							ok = false
							break
						}
					}
					if ok {
						rule = "affinity:presence-lost"
						break lossy
					}
				}
			}
			// resources: would the pods fit without the daemons that only run there because a pod induced a label the
			// pool itself does not define? (Karpenter computes daemon overhead against the pool template only)
			if rule == "resources" {
				poolKeys := b.poolPrims(nc.NodePoolName)
				fits := false
				for _, ch := range choices {
					ok := true
					for _, custom := range combos {
						node := newNodeView(nc, it, ch, custom)
						var residents []*corev1.Pod
						for _, ds := range b.DaemonSets {
							if !daemonRunsOn(ds, node) {
								continue
							}
							induced := false
							for k := range custom {
								if _, defined := poolKeys[k]; !defined && mentionsKey(daemonTemplatePod(ds), k) {
									induced = true
								}
							}
							if !induced {
								residents = append(residents, daemonTemplatePod(ds))
							}
						}
						if (ref.NodeCase{Node: node, Allocatable: it.Allocatable(ch.of), Residents: residents, Placed: placed, PoolPrims: b.poolPrims(nc.NodePoolName)}).Admissible() != nil {
							ok = false
							break
						}
					}
					if ok {
						fits = true
						break
					}
				}
				if fits {
					rule = "resources:daemon-enabled-by-pod-induced-label"
				}
			}
			c.Violate(where+":"+rule, "NodeClaim of pool %s with pods %s may be launched as %s but no available compatible offering admits them; e.g. %s/%s/%s: %s; requirements: %s",
				nc.NodePoolName, shortPods(placed), it.Name, firstChoice.of.Zone, firstChoice.of.CapacityType, firstChoice.os, firstReject, nc.Requirements)
		}
	}
	if launchableTypes == 0 && len(nc.InstanceTypeOptions) > 0 {
		c.Violate(where+":no-launchable-type", "NodeClaim of pool %s with pods %s: none of its %d instance types has an available offering compatible with %s", nc.NodePoolName, shortPods(placed), len(nc.InstanceTypeOptions), nc.Requirements)
	}
	if len(nc.InstanceTypeOptions) == 0 {
		c.Violate(where+":no-instance-types", "NodeClaim of pool %s with pods %s has no instance type options", nc.NodePoolName, shortPods(placed))
	}
}

// checkExistingNode judges the pods a scheduling result placed on one existing node.
func (b *builtWorld) checkExistingNode(en *pscheduling.ExistingNode, c *ev.Ctx, st *placementStats, where string) {
	if len(en.Pods) == 0 {
		return
	}
	bn := b.nodeByStateName(en.Name())
	if bn == nil {
		c.Violate(where+":unknown-node", "pods %s placed on node %s that does not exist in the world", shortPods(en.Pods), en.Name())
		return
	}
	st.existingPlacements++
	view, alloc := b.existingNodeView(bn)
	residents, expected := b.residentsOf(bn.Spec.Name, view)
	missing := len(expected)
	if missing > 0 {
		st.missingDaemonCases++
	}
	placed := b.originals(en.Pods)
	// a pod that is being moved (its node is going away) does not stay resident on its old node
	placedUID := map[string]bool{}
	for _, p := range placed {
		placedUID[string(p.UID)] = true
	}
	var keep []*corev1.Pod
	for _, r := range residents {
		if !placedUID[string(r.UID)] {
			keep = append(keep, r)
		}
	}
	rej := (ref.NodeCase{Node: view, Allocatable: alloc, Residents: keep, Placed: placed, Expected: expected}).Admissible()
	if rej != nil {
		sig := where + ":" + rej.Rule
		if rej.Rule == "resources" && missing > 0 {
			// would it fit without the daemons that are not running yet? then the root cause is the daemon reservation
			if (ref.NodeCase{Node: view, Allocatable: alloc, Residents: keep, Placed: placed}).Admissible() == nil {
				sig = where + ":resources:missing-daemon-not-reserved"
			}
		}
		c.Violate(sig, "pods %s placed on %s node %s (stage %q): %s", shortPods(placed), map[bool]string{true: "managed", false: "unmanaged"}[bn.NodeClaim != nil], bn.Spec.Name, bn.Spec.Stage, rej)
	}
}

func (b *builtWorld) checkResults(res pscheduling.Results, c *ev.Ctx, where string) *placementStats {
	st := &placementStats{classes: map[string]bool{}}
	for _, en := range res.ExistingNodes {
		b.checkExistingNode(en, c, st, where+"existing")
		st.placedPods += len(en.Pods)
	}
	for _, nc := range res.NewNodeClaims {
		st.newClaims++
		st.placedPods += len(nc.Pods)
		b.checkNewNodeClaim(nc, c, st, where+"new")
	}
	return st
}

// constraintClasses names the constraint kinds active on a pod (for the non-triviality rule).
func constraintClasses(p *corev1.Pod, into map[string]bool) {
	if len(p.Spec.NodeSelector) > 0 {
		into["nodeSelector"] = true
	}
	if a := p.Spec.Affinity; a != nil {
		if a.NodeAffinity != nil && a.NodeAffinity.RequiredDuringSchedulingIgnoredDuringExecution != nil {
			into["requiredAffinity"] = true
			if len(a.NodeAffinity.RequiredDuringSchedulingIgnoredDuringExecution.NodeSelectorTerms) > 1 {
				into["orTerms"] = true
			}
		}
		if a.NodeAffinity != nil && len(a.NodeAffinity.PreferredDuringSchedulingIgnoredDuringExecution) > 0 {
			into["preferred"] = true
		}
		if a.PodAffinity != nil || a.PodAntiAffinity != nil {
			into["interPod"] = true
		}
	}
	if len(p.Spec.TopologySpreadConstraints) > 0 {
		into["spread"] = true
	}
	if len(p.Spec.Tolerations) > 0 {
		into["tolerations"] = true
	}
	for _, ct := range p.Spec.Containers {
		for _, port := range ct.Ports {
			if port.HostPort != 0 {
				into["hostPort"] = true
			}
		}
	}
	if len(p.Spec.InitContainers) > 0 || p.Spec.Overhead != nil {
		into["initOrOverhead"] = true
	}
}

// ---------------------------------------------------------------------------------------------------------------------
// C01
// ---------------------------------------------------------------------------------------------------------------------

func drawC01(t *rapid.T) *gen.SchedWorld { return gen.World(t, gen.DefaultKnobs()) }

func execC01(s *gen.SchedWorld, c *ev.Ctx) {
	b := build(s, c)
	res, err := b.Provisioner.Schedule(b.W.Ctx)
	if err != nil {
		c.Class("schedule_error")
		c.Logf("schedule error: %v", err)
		return
	}
	st := b.checkResults(res, c, "")
	classes := map[string]bool{}
	for _, en := range res.ExistingNodes {
		for _, p := range b.originals(en.Pods) {
			constraintClasses(p, classes)
		}
	}
	for _, nc := range res.NewNodeClaims {
		for _, p := range b.originals(nc.Pods) {
			constraintClasses(p, classes)
		}
	}
	for k := range classes {
		c.Class("placed:" + k)
	}
	for k := range st.classes {
		c.Class(k)
	}
	c.ClassIf(st.existingPlacements > 0, "existing_placement")
	c.ClassIf(st.newClaims > 0, "new_claim")
	c.ClassIf(len(res.PodErrors) > 0, "pod_errors")
	c.ClassIf(st.strandedTypes > 0, "stranded_types")
	c.ClassIf(st.missingDaemonCases > 0, "missing_daemon_on_existing")
	c.Add("judged_launch_types", st.judgedTypes)
	c.Add("placed_pods", st.placedPods)
	c.NTIf(st.placedPods > 0 && (len(classes) >= 2 || len(res.PodErrors) > 0))
	c.Sample(map[string]any{"types": len(s.Catalog), "pools": len(s.Pools), "nodes": len(s.Nodes), "pending": len(s.Pending), "daemonsets": len(s.DaemonSets),
		"placed_existing": st.existingPlacements, "new_claims": st.newClaims, "errors": len(res.PodErrors), "constraints": fmt.Sprint(keysOf(classes))})
}

func keysOf(m map[string]bool) []string {
	out := make([]string, 0, len(m))
	for k := range m {
		out = append(out, k)
	}
	sort.Strings(out)
	return out
}

var propC01 = ev.Prop[gen.SchedWorld]{
	ID: "C01", Test: "TestC01",
	Rule: "rapid draws a scheduler world (1-7 instance types with 1-5 offerings incl. unavailable / overrides, 1-3 NodePools with requirements over 8 operators / taints / labels / minValues / limits, 0-4 existing nodes in every lifecycle stage with bound + daemon pods, 0-2 DaemonSets, 1-9 pending pods with selectors, OR-ed required terms, preferences, tolerations, host ports, init containers, some inter-pod constraints) and both policies x parallelism 1-8; the real Provisioner.Schedule runs; " +
		"oracle: every placed pod's ORIGINAL spec is admitted (k8s nodeaffinity + taint helpers, host-port rule, summed requests incl. not-yet-running daemons <= allocatable) on its existing node, and for every instance type a new NodeClaim may launch as, by some available offering compatible with its requirements, for every value user-defined labels may take; " +
		"non-trivial = >=1 placement and (>=2 constraint classes among placed pods or >=1 rejected pod)",
	Assumptions: []string{"the fake API server applies no defaulting/admission; generated objects are explicit", "CSI volume limits / volume zones are exercised by TestC01v when registered", "DRA disabled (C17 covers it)"},
	Draw:        drawC01, Exec: execC01,
	ReplayTries: 10,
}

func TestC01(t *testing.T) { ev.Run(t, propC01) }
