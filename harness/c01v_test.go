package harness

import (
	"fmt"
	"sort"
	"testing"

	corev1 "k8s.io/api/core/v1"
	storagev1 "k8s.io/api/storage/v1"
	"k8s.io/apimachinery/pkg/api/resource"
	metav1 "k8s.io/apimachinery/pkg/apis/meta/v1"
	"k8s.io/apimachinery/pkg/types"
	"k8s.io/component-helpers/scheduling/corev1/nodeaffinity"
	"pgregory.net/rapid"

	v1 "sigs.k8s.io/karpenter/pkg/apis/v1"
	"sigs.k8s.io/karpenter/pkg/controllers/dynamicresources/deviceallocation"
	"sigs.k8s.io/karpenter/pkg/controllers/provisioning"
	pscheduling "sigs.k8s.io/karpenter/pkg/controllers/provisioning/scheduling"
	"sigs.k8s.io/karpenter/pkg/state/virtualpods"

	"verif/harness/ev"
	"verif/harness/sim"
)

// C01v: the volume clauses of C01 - "volume limits and volume zones".  Generated StorageClasses (allowed topologies),
// PersistentVolumes (zonal node affinity, OR-ed terms), bound and unbound PersistentVolumeClaims, CSINode attach limits
// on existing nodes, running pods that already use volumes, and pending pods with 0-2 volumes (shared claims included);
// the real Provisioner.Schedule runs and every placement is judged the way kube-scheduler's VolumeZone / VolumeBinding /
// NodeVolumeLimits plugins would: the node (or EVERY zone a NodeClaim can still be launched in) satisfies the node
// affinity of every bound volume and an allowed topology of every unbound claim's class, and on an existing node the
// number of distinct claims per CSI driver stays within the CSINode limit.

var c01vZones = []string{"z1", "z2", "z3"}

type c01vNode struct {
	Type   string         `json:"type"`
	Zone   string         `json:"zone"`
	Limits map[string]int `json:"limits,omitempty"` // CSINode allocatable count per driver
	Claims []int          `json:"claims,omitempty"` // claims used by a pod already running there
}

type c01vClass struct {
	Name        string     `json:"name"`
	Provisioner string     `json:"provisioner"`
	Topologies  [][]string `json:"topologies,omitempty"` // OR-ed terms, each a zone list
}

type c01vClaim struct {
	// Bound: backed by a PV (driver, zonal node affinity as OR-ed terms); otherwise unbound with a class
	Bound  bool       `json:"bound,omitempty"`
	Driver string     `json:"driver,omitempty"`
	Terms  [][]string `json:"terms,omitempty"`
	Class  string     `json:"class,omitempty"`
}

type c01vPod struct {
	CPU     string `json:"cpu"`
	Claims  []int  `json:"claims,omitempty"`
	Zone    string `json:"zone,omitempty"`
	Scratch bool   `json:"scratch,omitempty"` // also mounts an emptyDir
}

type c01vScenario struct {
	Unavailable []string    `json:"unavailable,omitempty"` // type@zone
	Classes     []c01vClass `json:"classes"`
	Claims      []c01vClaim `json:"claims"`
	Nodes       []c01vNode  `json:"nodes,omitempty"`
	Pods        []c01vPod   `json:"pods"`
}

var c01vTypes = []struct {
	name, cpu string
	price     float64
}{{"small", "2", 0.5}, {"medium", "4", 1.0}, {"large", "8", 2.0}}

func c01vZoneTerms(t *rapid.T, l string) [][]string {
	n := rapid.SampledFrom([]int{1, 1, 1, 2}).Draw(t, l+"_nTerms")
	var out [][]string
	for i := 0; i < n; i++ {
		var zs []string
		for _, z := range c01vZones {
			if dpct(t, 40, fmt.Sprintf("%s_t%d_%s", l, i, z)) {
				zs = append(zs, z)
			}
		}
		if len(zs) == 0 {
			zs = []string{rapid.SampledFrom(c01vZones).Draw(t, fmt.Sprintf("%s_t%d_one", l, i))}
		}
		out = append(out, zs)
	}
	return out
}

func drawC01v(t *rapid.T) *c01vScenario {
	s := &c01vScenario{}
	for _, ty := range c01vTypes {
		for _, z := range c01vZones {
			if dpct(t, 12, "unavailable") {
				s.Unavailable = append(s.Unavailable, ty.name+"@"+z)
			}
		}
	}
	s.Classes = []c01vClass{{Name: "sc-any", Provisioner: "csi.sim"}, {Name: "sc-other", Provisioner: "csi.other"}, {Name: "sc-intree", Provisioner: "kubernetes.io/aws-ebs"}}
	for i := 0; i < rapid.IntRange(1, 2).Draw(t, "zonalClasses"); i++ {
		s.Classes = append(s.Classes, c01vClass{Name: fmt.Sprintf("sc-zonal-%d", i), Provisioner: rapid.SampledFrom([]string{"csi.sim", "csi.sim", "csi.other"}).Draw(t, "zonalProvisioner"), Topologies: c01vZoneTerms(t, fmt.Sprintf("class%d", i))})
	}
	for i := 0; i < rapid.IntRange(2, 7).Draw(t, "claims"); i++ {
		l := fmt.Sprintf("claim%d", i)
		cl := c01vClaim{}
		if dpct(t, 55, l+"_bound") {
			cl.Bound = true
			cl.Driver = rapid.SampledFrom([]string{"csi.sim", "csi.sim", "csi.sim", "csi.other", "ebs.csi.aws.com", ""}).Draw(t, l+"_driver")
			if dpct(t, 80, l+"_zonal") {
				cl.Terms = c01vZoneTerms(t, l)
			}
		} else {
			cl.Class = s.Classes[rapid.IntRange(0, len(s.Classes)-1).Draw(t, l+"_class")].Name
		}
		s.Claims = append(s.Claims, cl)
	}
	for i := 0; i < rapid.IntRange(0, 3).Draw(t, "nodes"); i++ {
		l := fmt.Sprintf("node%d", i)
		n := c01vNode{Type: rapid.SampledFrom([]string{"small", "medium", "large"}).Draw(t, l+"_type"), Zone: rapid.SampledFrom(c01vZones).Draw(t, l+"_zone")}
		if dpct(t, 75, l+"_limits") {
			n.Limits = map[string]int{"csi.sim": rapid.IntRange(1, 3).Draw(t, l+"_limit")}
			if dpct(t, 40, l+"_limitOther") {
				n.Limits["csi.other"] = rapid.IntRange(1, 2).Draw(t, l+"_limitOtherV")
			}
			if dpct(t, 30, l+"_limitEBS") {
				n.Limits["ebs.csi.aws.com"] = rapid.IntRange(1, 2).Draw(t, l+"_limitEBSV")
			}
		}
		for j := 0; j < rapid.IntRange(0, 2).Draw(t, l+"_running"); j++ {
			n.Claims = append(n.Claims, rapid.IntRange(0, len(s.Claims)-1).Draw(t, fmt.Sprintf("%s_runningClaim%d", l, j)))
		}
		s.Nodes = append(s.Nodes, n)
	}
	for i := 0; i < rapid.IntRange(1, 7).Draw(t, "pods"); i++ {
		l := fmt.Sprintf("pod%d", i)
		p := c01vPod{CPU: rapid.SampledFrom([]string{"100m", "250m", "500m", "1", "3"}).Draw(t, l+"_cpu"), Scratch: dpct(t, 20, l+"_scratch")}
		for j := 0; j < rapid.SampledFrom([]int{0, 1, 1, 1, 2, 2}).Draw(t, l+"_nClaims"); j++ {
			ci := rapid.IntRange(0, len(s.Claims)-1).Draw(t, fmt.Sprintf("%s_claim%d", l, j))
			dup := false
			for _, e := range p.Claims {
				dup = dup || e == ci
			}
			if !dup {
				p.Claims = append(p.Claims, ci)
			}
		}
		if dpct(t, 20, l+"_zoned") {
			p.Zone = rapid.SampledFrom(c01vZones).Draw(t, l+"_zone")
		}
		s.Pods = append(s.Pods, p)
	}
	return s
}

func c01vSelector(terms [][]string) *corev1.NodeSelector {
	ns := &corev1.NodeSelector{}
	for _, zs := range terms {
		ns.NodeSelectorTerms = append(ns.NodeSelectorTerms, corev1.NodeSelectorTerm{MatchExpressions: []corev1.NodeSelectorRequirement{{Key: corev1.LabelTopologyZone, Operator: corev1.NodeSelectorOpIn, Values: zs}}})
	}
	return ns
}

// c01vDriver: the CSI driver kube-scheduler's NodeVolumeLimits accounts the claim to ("" = not a CSI volume).
func (s *c01vScenario) driverOf(ci int) string {
	cl := s.Claims[ci]
	name := cl.Driver
	if !cl.Bound {
		for _, sc := range s.Classes {
			if sc.Name == cl.Class {
				name = sc.Provisioner
			}
		}
	}
	if name == "kubernetes.io/aws-ebs" {
		return "ebs.csi.aws.com" // CSI migration
	}
	return name
}

// zoneAllowed: a node in the zone can use the claim (bound: the PV's node affinity; unbound: an allowed topology of its class).
func (s *c01vScenario) zoneAllowed(ci int, zone string) bool {
	cl := s.Claims[ci]
	terms := cl.Terms
	if !cl.Bound {
		for _, sc := range s.Classes {
			if sc.Name == cl.Class {
				terms = sc.Topologies
			}
		}
	}
	if len(terms) == 0 {
		return true
	}
	node := &corev1.Node{ObjectMeta: metav1.ObjectMeta{Labels: map[string]string{corev1.LabelTopologyZone: zone}}}
	ok, err := nodeaffinity.NewLazyErrorNodeSelector(c01vSelector(terms)).Match(node)
	return err == nil && ok
}

func execC01v(s *c01vScenario, c *ev.Ctx) {
	w := sim.New(sim.Options{})
	w.ApplyNodeClass()
	unavailable := map[string]bool{}
	for _, u := range s.Unavailable {
		unavailable[u] = true
	}
	var catalog []sim.ITSpec
	for _, ty := range c01vTypes {
		it := sim.ITSpec{Name: ty.name, Arch: "amd64", OS: []string{"linux"}, Family: "f", Gen: "1", Capacity: map[string]string{"cpu": ty.cpu, "memory": "32Gi", "pods": "20"}}
		for _, z := range c01vZones {
			it.Offerings = append(it.Offerings, sim.OfferingSpec{Zone: z, CapacityType: "on-demand", Price: ty.price, Available: !unavailable[ty.name+"@"+z]})
		}
		catalog = append(catalog, it)
	}
	w.Provider.Default = catalog
	np := &v1.NodePool{ObjectMeta: metav1.ObjectMeta{Name: "np", UID: "pool-uid-np"}}
	np.Spec.Template.Spec.ExpireAfter = v1.MustParseNillableDuration("Never")
	pool := w.ApplyPool(np)
	wffc := storagev1.VolumeBindingWaitForFirstConsumer
	for _, sc := range s.Classes {
		obj := &storagev1.StorageClass{ObjectMeta: metav1.ObjectMeta{Name: sc.Name}, Provisioner: sc.Provisioner, VolumeBindingMode: &wffc}
		for _, zs := range sc.Topologies {
			obj.AllowedTopologies = append(obj.AllowedTopologies, corev1.TopologySelectorTerm{MatchLabelExpressions: []corev1.TopologySelectorLabelRequirement{{Key: corev1.LabelTopologyZone, Values: zs}}})
		}
		w.Apply(obj)
	}
	for i, cl := range s.Claims {
		pvc := &corev1.PersistentVolumeClaim{ObjectMeta: metav1.ObjectMeta{Name: fmt.Sprintf("pvc-%d", i), Namespace: "default"}}
		if cl.Bound {
			pv := &corev1.PersistentVolume{ObjectMeta: metav1.ObjectMeta{Name: fmt.Sprintf("pv-%d", i)}}
			if cl.Driver != "" {
				pv.Spec.CSI = &corev1.CSIPersistentVolumeSource{Driver: cl.Driver, VolumeHandle: fmt.Sprintf("vol-%d", i)}
			} else {
				pv.Spec.NFS = &corev1.NFSVolumeSource{Server: "nfs", Path: "/"}
			}
			if len(cl.Terms) > 0 {
				pv.Spec.NodeAffinity = &corev1.VolumeNodeAffinity{Required: c01vSelector(cl.Terms)}
			}
			w.Apply(pv)
			pvc.Spec.VolumeName = pv.Name
			pvc.Annotations = map[string]string{"pv.kubernetes.io/bind-completed": "yes"}
			pvc.Status.Phase = corev1.ClaimBound
		} else {
			pvc.Spec.StorageClassName = ptrTo(cl.Class)
			pvc.Status.Phase = corev1.ClaimPending
		}
		w.Apply(pvc)
	}
	volumesOf := func(claims []int, scratch bool) []corev1.Volume {
		var out []corev1.Volume
		for j, ci := range claims {
			out = append(out, corev1.Volume{Name: fmt.Sprintf("v%d", j), VolumeSource: corev1.VolumeSource{PersistentVolumeClaim: &corev1.PersistentVolumeClaimVolumeSource{ClaimName: fmt.Sprintf("pvc-%d", ci)}}})
		}
		if scratch {
			out = append(out, corev1.Volume{Name: "scratch", VolumeSource: corev1.VolumeSource{EmptyDir: &corev1.EmptyDirVolumeSource{}}})
		}
		return out
	}
	// existing nodes; a running pod's volumes are only kept if the world stays consistent (zone and attach limit hold)
	type nodeTruth struct {
		spec    c01vNode
		name    string
		running map[string]map[int]bool // driver -> claims in use
	}
	var nodes []*nodeTruth
	byProvider := map[string]*nodeTruth{}
	for i, n := range s.Nodes {
		name := fmt.Sprintf("node-%d", i)
		bn := w.ApplyNode(sim.NodeSpec{Name: name, Pool: "np", TypeName: n.Type, Zone: n.Zone, CT: "on-demand", Stage: sim.StageInitialized, AgeSeconds: 600}, pool)
		if bn == nil || bn.Node == nil {
			c.Class("node_not_built")
			continue
		}
		nt := &nodeTruth{spec: n, name: name, running: map[string]map[int]bool{}}
		if len(n.Limits) > 0 {
			csi := &storagev1.CSINode{ObjectMeta: metav1.ObjectMeta{Name: name}}
			for _, d := range sortedKeys(n.Limits) {
				csi.Spec.Drivers = append(csi.Spec.Drivers, storagev1.CSINodeDriver{Name: d, NodeID: name, Allocatable: &storagev1.VolumeNodeResources{Count: ptrTo(int32(n.Limits[d]))}})
			}
			w.Apply(csi)
		}
		for j, ci := range n.Claims {
			d := s.driverOf(ci)
			if !s.zoneAllowed(ci, n.Zone) {
				c.Count("running_volume_dropped_wrong_zone")
				continue
			}
			if lim, ok := n.Limits[d]; ok && d != "" && !nt.running[d][ci] && len(nt.running[d]) >= lim {
				c.Count("running_volume_dropped_over_limit")
				continue
			}
			if d != "" {
				if nt.running[d] == nil {
					nt.running[d] = map[int]bool{}
				}
				nt.running[d][ci] = true
			}
			rp := &corev1.Pod{ObjectMeta: metav1.ObjectMeta{Name: fmt.Sprintf("running-%d-%d", i, j), Namespace: "default", UID: types.UID(fmt.Sprintf("running-uid-%d-%d", i, j)), Labels: map[string]string{"app": "r"}},
				Spec: corev1.PodSpec{Containers: []corev1.Container{{Name: "c", Image: "img", Resources: corev1.ResourceRequirements{Requests: corev1.ResourceList{corev1.ResourceCPU: resource.MustParse("100m")}}}}, Volumes: volumesOf([]int{ci}, false)}}
			w.Apply(sim.Bound(rp, name))
		}
		nodes = append(nodes, nt)
		byProvider[bn.Node.Spec.ProviderID] = nt
	}
	podSpec := map[string]c01vPod{}
	for i, ps := range s.Pods {
		p := &corev1.Pod{ObjectMeta: metav1.ObjectMeta{Name: fmt.Sprintf("pending-%02d", i), Namespace: "default", UID: types.UID(fmt.Sprintf("pending-uid-%02d", i)), Labels: map[string]string{"app": "a"}},
			Spec: corev1.PodSpec{Containers: []corev1.Container{{Name: "c", Image: "img", Resources: corev1.ResourceRequirements{Requests: corev1.ResourceList{corev1.ResourceCPU: resource.MustParse(ps.CPU), corev1.ResourceMemory: resource.MustParse("128Mi")}}}}, Volumes: volumesOf(ps.Claims, ps.Scratch)}}
		if ps.Zone != "" {
			p.Spec.NodeSelector = map[string]string{corev1.LabelTopologyZone: ps.Zone}
		}
		podSpec[p.Name] = ps
		w.Apply(sim.Unschedulable(p))
	}
	w.Sync()
	prov := provisioning.NewProvisioner(w.Client, w.Recorder, w.Provider, w.Cluster, w.Clock, deviceallocation.NewController(w.Client), virtualpods.NewVirtualPodCache(w.Client))
	var res pscheduling.Results
	var err error
	w.Quiet(func() { res, err = prov.Schedule(w.Ctx) })
	if err != nil {
		c.Class("schedule_error")
		c.Logf("schedule error: %v", err)
		return
	}
	placedWithVolumes, zonalJudged, limitJudged := 0, 0, 0
	describe := func(ci int) string {
		cl := s.Claims[ci]
		if cl.Bound {
			return fmt.Sprintf("pvc-%d (bound, driver %q, PV node affinity zones %v)", ci, cl.Driver, cl.Terms)
		}
		return fmt.Sprintf("pvc-%d (unbound, class %s)", ci, cl.Class)
	}
	for _, en := range res.ExistingNodes {
		nt := byProvider[en.ProviderID()]
		if nt == nil || len(en.Pods) == 0 {
			continue
		}
		use := map[string]map[int]bool{}
		for d, m := range nt.running {
			use[d] = map[int]bool{}
			for ci := range m {
				use[d][ci] = true
			}
		}
		names := []string{}
		for _, p := range en.Pods {
			ps := podSpec[p.Name]
			names = append(names, p.Name)
			for _, ci := range ps.Claims {
				placedWithVolumes++
				zonalJudged++
				if !s.zoneAllowed(ci, nt.spec.Zone) {
					c.Violate("existing:volume-zone", "pod %s is placed on node %s in zone %s, which cannot use its volume %s", p.Name, nt.name, nt.spec.Zone, describe(ci))
				}
				if d := s.driverOf(ci); d != "" {
					if use[d] == nil {
						use[d] = map[int]bool{}
					}
					use[d][ci] = true
				}
			}
		}
		for _, d := range sortedKeys(use) {
			if lim, ok := nt.spec.Limits[d]; ok {
				limitJudged++
				if len(use[d]) > lim {
					c.Violate("existing:volume-limit", "node %s can attach %d volumes of driver %s, but %d distinct claims would be in use after placing %v (already running: %d)", nt.name, lim, d, len(use[d]), names, len(nt.running[d]))
				}
			}
		}
	}
	for i, nc := range res.NewNodeClaims {
		// the zones the claim can still be launched in: an available offering of a remaining instance type that its
		// zone requirement admits
		zones := map[string]bool{}
		zr := nc.Requirements.Get(corev1.LabelTopologyZone)
		for _, it := range nc.InstanceTypeOptions {
			for _, z := range c01vZones {
				if !unavailable[it.Name+"@"+z] && zr.Has(z) {
					zones[z] = true
				}
			}
		}
		zl := make([]string, 0, len(zones))
		for z := range zones {
			zl = append(zl, z)
		}
		sort.Strings(zl)
		for _, p := range nc.Pods {
			ps := podSpec[p.Name]
			for _, ci := range ps.Claims {
				placedWithVolumes++
				zonalJudged++
				for _, z := range zl {
					if !s.zoneAllowed(ci, z) {
						c.Violate("new:volume-zone", "pod %s is placed on new NodeClaim #%d, which can be launched in zone %s (of %v), where its volume %s cannot be used", p.Name, i, z, zl, describe(ci))
						break
					}
				}
			}
		}
	}
	c.ClassIf(placedWithVolumes > 0, "pod_with_volume_placed")
	c.ClassIf(limitJudged > 0, "attach_limit_judged")
	c.ClassIf(len(res.PodErrors) > 0, "pod_errors")
	c.ClassIf(len(res.NewNodeClaims) > 0, "new_claim")
	c.NTIf(placedWithVolumes > 0 && (limitJudged > 0 || len(res.NewNodeClaims) > 0))
	c.Sample(map[string]any{"claims": len(s.Claims), "nodes": len(nodes), "pods": len(s.Pods), "placed_volumes": placedWithVolumes, "errors": len(res.PodErrors), "new_claims": len(res.NewNodeClaims)})
}

var propC01v = ev.Prop[c01vScenario]{
	ID: "C01", Test: "TestC01v", Level: "exploration",
	Rule: "rapid draws StorageClasses (WaitForFirstConsumer; CSI, another CSI driver, an in-tree provisioner; 1-2 with allowed topologies of 1-2 OR-ed zone terms), 2-7 PersistentVolumeClaims (bound to a PV with CSI / non-CSI source and zonal node affinity of 1-2 OR-ed terms, or unbound with a class), 0-3 existing nodes with CSINode attach limits (1-3 per driver) and running pods already using claims, three instance types with drawn unavailable zones, 1-7 pending pods with 0-2 volumes (claims shared between pods, emptyDir) some pinned to a zone; the real Provisioner.Schedule runs; " +
		"oracle (kube-scheduler's VolumeZone / VolumeBinding / NodeVolumeLimits rules, evaluated with the k8s nodeaffinity helper): a pod on an existing node: the node's zone satisfies the node affinity of each bound volume and an allowed topology of each unbound claim's class, and per CSI driver (in-tree names migrated) the distinct claims of running + placed pods stay within the CSINode limit; a pod on a new NodeClaim: the same zone rule for EVERY zone the claim can still be launched in (available offering of a remaining instance type admitted by its zone requirement); " +
		"non-trivial = a pod with a volume was placed and an attach limit was judged or a NodeClaim was opened",
	Assumptions: []string{"attach limits of not-yet-existing nodes are unknown to Karpenter and not judged", "one NodePool, on-demand offerings only", "running pods whose generated volumes would contradict their node's zone or limit are created without that volume (counted)"},
	Draw:        drawC01v, Exec: execC01v, ReplayTries: 5,
}

func TestC01v(t *testing.T) { ev.Run(t, propC01v) }
