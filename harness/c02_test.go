package harness

import (
	"fmt"
	"k8s.io/apimachinery/pkg/api/resource"
	"os"
	"sort"
	"strings"
	"testing"

	corev1 "k8s.io/api/core/v1"
	metav1 "k8s.io/apimachinery/pkg/apis/meta/v1"
	"k8s.io/apimachinery/pkg/labels"
	"k8s.io/apimachinery/pkg/types"
	"pgregory.net/rapid"

	v1 "sigs.k8s.io/karpenter/pkg/apis/v1"
	pscheduling "sigs.k8s.io/karpenter/pkg/controllers/provisioning/scheduling"

	"verif/harness/ev"
	"verif/harness/gen"
	"verif/harness/ref"
	"verif/harness/sim"
)

// C02: inter-pod constraints hold in the simulated end state.
//
// The batch is made of "deployments" (replicas of one template) that carry required / preferred pod (anti-)affinity and
// DoNotSchedule / ScheduleAnyway topology spread over hostname, zone and a user-defined rack key; the cluster holds
// bound pods (some with their own required anti-affinity) on nodes with and without the topology labels.  One real
// scheduling pass runs; the oracle judges the END STATE (every pod with the set of domains its node may end up in).

type c02Scenario struct {
	World *gen.SchedWorld `json:"world"`
	// Deploy: pending pod name -> deployment index (replicas of one template)
	Deploy map[string]int `json:"deploy"`
	// Namespaces: extra namespaces (name -> labels) that pods and (anti-)affinity terms may refer to
	Namespaces map[string]map[string]string `json:"namespaces,omitempty"`
}

var c02Keys = []string{corev1.LabelHostname, corev1.LabelTopologyZone, corev1.LabelTopologyZone, sim.LabelRack}

func c02Selector(t *rapid.T, l string, self map[string]string) *metav1.LabelSelector {
	switch rapid.IntRange(0, 9).Draw(t, l+"_selKind") {
	case 0, 1, 2, 3, 4:
		return &metav1.LabelSelector{MatchLabels: map[string]string{"app": self["app"]}}
	case 5:
		return &metav1.LabelSelector{MatchLabels: map[string]string{"app": self["app"], "dep": self["dep"]}}
	case 6:
		return &metav1.LabelSelector{MatchExpressions: []metav1.LabelSelectorRequirement{{Key: "app", Operator: metav1.LabelSelectorOpIn, Values: []string{self["app"], rapid.SampledFrom([]string{"web", "db", "cache"}).Draw(t, l+"_selOther")}}}}
	default:
		return &metav1.LabelSelector{MatchLabels: map[string]string{"app": rapid.SampledFrom([]string{"web", "db", "cache"}).Draw(t, l+"_selApp")}}
	}
}

// c02Constrain adds one inter-pod constraint to the template.
func c02Constrain(t *rapid.T, p *corev1.Pod, l string) {
	key := rapid.SampledFrom(c02Keys).Draw(t, l+"_key")
	sel := c02Selector(t, l, p.Labels)
	term := corev1.PodAffinityTerm{LabelSelector: sel, TopologyKey: key}
	if p.Spec.Affinity == nil {
		p.Spec.Affinity = &corev1.Affinity{}
	}
	a := p.Spec.Affinity
	switch rapid.SampledFrom([]string{"anti", "anti", "affinity", "affinity", "spread", "spread", "spread", "antiSoft", "affinitySoft", "spreadSoft"}).Draw(t, l+"_kind") {
	case "anti":
		if a.PodAntiAffinity == nil {
			a.PodAntiAffinity = &corev1.PodAntiAffinity{}
		}
		a.PodAntiAffinity.RequiredDuringSchedulingIgnoredDuringExecution = append(a.PodAntiAffinity.RequiredDuringSchedulingIgnoredDuringExecution, term)
	case "antiSoft":
		if a.PodAntiAffinity == nil {
			a.PodAntiAffinity = &corev1.PodAntiAffinity{}
		}
		a.PodAntiAffinity.PreferredDuringSchedulingIgnoredDuringExecution = append(a.PodAntiAffinity.PreferredDuringSchedulingIgnoredDuringExecution, corev1.WeightedPodAffinityTerm{Weight: 10, PodAffinityTerm: term})
	case "affinity":
		if a.PodAffinity == nil {
			a.PodAffinity = &corev1.PodAffinity{}
		}
		a.PodAffinity.RequiredDuringSchedulingIgnoredDuringExecution = append(a.PodAffinity.RequiredDuringSchedulingIgnoredDuringExecution, term)
	case "affinitySoft":
		if a.PodAffinity == nil {
			a.PodAffinity = &corev1.PodAffinity{}
		}
		a.PodAffinity.PreferredDuringSchedulingIgnoredDuringExecution = append(a.PodAffinity.PreferredDuringSchedulingIgnoredDuringExecution, corev1.WeightedPodAffinityTerm{Weight: 10, PodAffinityTerm: term})
	case "spread", "spreadSoft":
		tsc := corev1.TopologySpreadConstraint{MaxSkew: int32(rapid.SampledFrom([]int{1, 1, 2, 3}).Draw(t, l+"_skew")), TopologyKey: key, WhenUnsatisfiable: corev1.DoNotSchedule, LabelSelector: sel}
		if rapid.IntRange(0, 3).Draw(t, l+"_soft") == 3 {
			tsc.WhenUnsatisfiable = corev1.ScheduleAnyway
		}
		if rapid.IntRange(0, 5).Draw(t, l+"_minDomains") == 5 {
			md := int32(rapid.IntRange(2, 3).Draw(t, l+"_minDomainsV"))
			tsc.MinDomains = &md
		}
		if tsc.LabelSelector != nil && dpct(t, 15, l+"_matchLabelKeys") {
			// per-deployment spreading through matchLabelKeys (every generated pod carries a "dep" label)
			tsc.MatchLabelKeys = []string{"dep"}
		}
		switch rapid.IntRange(0, 7).Draw(t, l+"_policies") {
		case 6:
			pol := corev1.NodeInclusionPolicyIgnore
			tsc.NodeAffinityPolicy = &pol
		case 7:
			pol := corev1.NodeInclusionPolicyHonor
			tsc.NodeTaintsPolicy = &pol
		}
		p.Spec.TopologySpreadConstraints = append(p.Spec.TopologySpreadConstraints, tsc)
	}
	if a.NodeAffinity == nil && a.PodAffinity == nil && a.PodAntiAffinity == nil {
		p.Spec.Affinity = nil
	}
}

func drawC02(t *rapid.T) *c02Scenario {
	k := gen.DefaultKnobs()
	k.InterPod = 0.0001 // enables anti-affinity on bound pods; the batch is generated here
	k.EasyPods, k.FriendlyPools, k.NoLimits, k.NoMinValues, k.MoreInitialized = true, true, true, true, true
	k.MaxNodes, k.MaxPending, k.MaxPools = 5, 1, 2
	w := gen.World(t, k)
	w.Pending = nil
	// some pools can give their nodes a rack label
	for i, np := range w.Pools {
		switch rapid.IntRange(0, 3).Draw(t, fmt.Sprintf("pool%d_rack", i)) {
		case 2:
			np.Spec.Template.Spec.Requirements = append(np.Spec.Template.Spec.Requirements, v1.NodeSelectorRequirementWithMinValues{Key: sim.LabelRack, Operator: corev1.NodeSelectorOpIn, Values: []string{"r1", "r2"}})
		case 3:
			if np.Spec.Template.Labels == nil {
				np.Spec.Template.Labels = map[string]string{}
			}
			np.Spec.Template.Labels[sim.LabelRack] = rapid.SampledFrom([]string{"r1", "r2", "r3"}).Draw(t, fmt.Sprintf("pool%d_rackV", i))
		}
	}
	s := &c02Scenario{World: w, Deploy: map[string]int{}}
	nd := rapid.IntRange(1, 4).Draw(t, "nDeployments")
	idx := 0
	for d := 0; d < nd; d++ {
		l := fmt.Sprintf("dep%d", d)
		tmpl := gen.PendingPod(t, 50+d, k)
		tmpl.Spec.Affinity = nil
		tmpl.Spec.TopologySpreadConstraints = nil
		tmpl.Labels["dep"] = l
		if rapid.IntRange(0, 3).Draw(t, l+"_zonePinned") == 3 {
			tmpl.Spec.NodeSelector = map[string]string{corev1.LabelTopologyZone: rapid.SampledFrom(gen.Zones).Draw(t, l+"_zone")}
		} else if rapid.IntRange(0, 5).Draw(t, l+"_zoneSubset") == 5 {
			tmpl.Spec.Affinity = &corev1.Affinity{NodeAffinity: &corev1.NodeAffinity{RequiredDuringSchedulingIgnoredDuringExecution: &corev1.NodeSelector{NodeSelectorTerms: []corev1.NodeSelectorTerm{{MatchExpressions: []corev1.NodeSelectorRequirement{
				{Key: corev1.LabelTopologyZone, Operator: corev1.NodeSelectorOpIn, Values: []string{gen.Zones[0], gen.Zones[rapid.IntRange(1, 2).Draw(t, l+"_zone2")]}}}}}}}}
		} else {
			tmpl.Spec.NodeSelector = nil
			zoneExpr := func(vals ...string) []corev1.NodeSelectorRequirement {
				return []corev1.NodeSelectorRequirement{{Key: corev1.LabelTopologyZone, Operator: corev1.NodeSelectorOpIn, Values: vals}}
			}
			switch {
			case dpct(t, 14, l+"_zonePreferred"):
				// only prefers a zone: the preference must not narrow the domains its spread constraints are judged over
				z := rapid.SampledFrom(gen.Zones).Draw(t, l+"_prefZone")
				tmpl.Spec.Affinity = &corev1.Affinity{NodeAffinity: &corev1.NodeAffinity{PreferredDuringSchedulingIgnoredDuringExecution: []corev1.PreferredSchedulingTerm{
					{Weight: 10, Preference: corev1.NodeSelectorTerm{MatchExpressions: zoneExpr(z)}}}}}
			case dpct(t, 10, l+"_zoneOrTerms"):
				// required node affinity with two OR-ed terms (Karpenter tries them in order and drops the first on failure)
				z := rapid.IntRange(0, 2).Draw(t, l+"_orZone")
				tmpl.Spec.Affinity = &corev1.Affinity{NodeAffinity: &corev1.NodeAffinity{RequiredDuringSchedulingIgnoredDuringExecution: &corev1.NodeSelector{NodeSelectorTerms: []corev1.NodeSelectorTerm{
					{MatchExpressions: zoneExpr(gen.Zones[z])}, {MatchExpressions: zoneExpr(gen.Zones[(z+1)%3], gen.Zones[(z+2)%3])}}}}}
			}
		}
		// ... or pinned by a label that is not a topology key of the batch (capacity type, NodePool, architecture): nodes
		// that do not match take no part in the pod's spreads under nodeAffinityPolicy Honor, whatever runs on them
		if tmpl.Spec.NodeSelector == nil && dpct(t, 22, l+"_labelPinned") {
			switch rapid.IntRange(0, 2).Draw(t, l+"_pinKind") {
			case 0:
				tmpl.Spec.NodeSelector = map[string]string{v1.CapacityTypeLabelKey: rapid.SampledFrom([]string{v1.CapacityTypeOnDemand, v1.CapacityTypeSpot}).Draw(t, l+"_pinCT")}
			case 1:
				tmpl.Spec.NodeSelector = map[string]string{v1.NodePoolLabelKey: w.Pools[rapid.IntRange(0, len(w.Pools)-1).Draw(t, l+"_pinPool")].Name}
			default:
				tmpl.Spec.NodeSelector = map[string]string{corev1.LabelArchStable: rapid.SampledFrom([]string{"amd64", "arm64"}).Draw(t, l+"_pinArch")}
			}
		}
		nc := rapid.IntRange(1, 2).Draw(t, l+"_nConstraints")
		if rapid.IntRange(0, 9).Draw(t, l+"_unconstrained") == 9 {
			nc = 0
		}
		for j := 0; j < nc; j++ {
			c02Constrain(t, tmpl, fmt.Sprintf("%s_c%d", l, j))
		}
		replicas := rapid.IntRange(1, 4).Draw(t, l+"_replicas")
		for r := 0; r < replicas; r++ {
			p := tmpl.DeepCopy()
			p.Name = fmt.Sprintf("%s-%d", l, r)
			p.UID = types.UID(fmt.Sprintf("%s-uid-%d", l, r))
			p.CreationTimestamp = metav1.NewTime(sim.Epoch.Add(-gen.Seconds(rapid.IntRange(1, 3).Draw(t, fmt.Sprintf("%s_age%d", l, r)))))
			w.Pending = append(w.Pending, p)
			s.Deploy[p.Name] = d
			idx++
		}
	}
	// a second namespace: some deployments and running pods live there, and (anti-)affinity terms look at listed
	// namespaces, at namespaces picked by a namespaceSelector, or (by default) at the pod's own namespace only
	if dpct(t, 25, "twoNamespaces") {
		s.Namespaces = map[string]map[string]string{"other": {"team": "x", "kubernetes.io/metadata.name": "other"}}
		scope := func(term *corev1.PodAffinityTerm, l string) {
			switch rapid.IntRange(0, 7).Draw(t, l) {
			case 4:
				// both: the union of the listed and the selected namespaces
				term.Namespaces = []string{"default"}
				term.NamespaceSelector = &metav1.LabelSelector{MatchLabels: map[string]string{"team": "x"}}
			case 0:
				term.Namespaces = []string{"other"}
			case 1:
				term.Namespaces = []string{"default", "other"}
			case 2:
				term.NamespaceSelector = &metav1.LabelSelector{MatchLabels: map[string]string{"team": "x"}}
			case 3:
				term.NamespaceSelector = &metav1.LabelSelector{}
			}
		}
		scopeAll := func(p *corev1.Pod, l string) {
			a := p.Spec.Affinity
			if a == nil {
				return
			}
			if a.PodAffinity != nil {
				for i := range a.PodAffinity.RequiredDuringSchedulingIgnoredDuringExecution {
					scope(&a.PodAffinity.RequiredDuringSchedulingIgnoredDuringExecution[i], fmt.Sprintf("%s_aff%d", l, i))
				}
				for i := range a.PodAffinity.PreferredDuringSchedulingIgnoredDuringExecution {
					scope(&a.PodAffinity.PreferredDuringSchedulingIgnoredDuringExecution[i].PodAffinityTerm, fmt.Sprintf("%s_affSoft%d", l, i))
				}
			}
			if a.PodAntiAffinity != nil {
				for i := range a.PodAntiAffinity.RequiredDuringSchedulingIgnoredDuringExecution {
					scope(&a.PodAntiAffinity.RequiredDuringSchedulingIgnoredDuringExecution[i], fmt.Sprintf("%s_anti%d", l, i))
				}
				for i := range a.PodAntiAffinity.PreferredDuringSchedulingIgnoredDuringExecution {
					scope(&a.PodAntiAffinity.PreferredDuringSchedulingIgnoredDuringExecution[i].PodAffinityTerm, fmt.Sprintf("%s_antiSoft%d", l, i))
				}
			}
		}
		// one decision per deployment, applied to the first replica and copied to the others
		first := map[int]*corev1.Pod{}
		for _, p := range w.Pending {
			d := s.Deploy[p.Name]
			if f, ok := first[d]; ok {
				p.Namespace = f.Namespace
				p.Spec.Affinity = f.Spec.Affinity.DeepCopy()
				continue
			}
			if dpct(t, 40, fmt.Sprintf("dep%d_otherNamespace", d)) {
				p.Namespace = "other"
			}
			scopeAll(p, fmt.Sprintf("dep%d_scope", d))
			first[d] = p
		}
		for i, p := range w.Bound {
			if dpct(t, 40, fmt.Sprintf("bound%d_otherNamespace", i)) {
				p.Namespace = "other"
			}
			scopeAll(p, fmt.Sprintf("bound%d_scope", i))
		}
	}
	// profile: a workload spread over zones with nodeTaintsPolicy Honor in a cluster where some nodes carry a taint it
	// does not tolerate; whatever runs on those nodes (often pods the spread selects, several per node) must not count
	excludedProfile := dpct(t, 30, "excludedNodesProfile")
	if excludedProfile {
		honor := corev1.NodeInclusionPolicyHonor
		app := w.Pending[0].Labels["app"]
		for _, p := range w.Pending {
			if s.Deploy[p.Name] != 0 {
				continue
			}
			p.Spec.Tolerations = nil
			p.Spec.NodeSelector = nil
			p.Spec.Affinity = nil
			p.Spec.TopologySpreadConstraints = []corev1.TopologySpreadConstraint{{MaxSkew: 1, TopologyKey: corev1.LabelTopologyZone, WhenUnsatisfiable: corev1.DoNotSchedule,
				LabelSelector: &metav1.LabelSelector{MatchLabels: map[string]string{"app": app}}, NodeTaintsPolicy: &honor}}
		}
		tainted := map[string]bool{}
		for i := range w.Nodes {
			if dpct(t, 45, fmt.Sprintf("node%d_dedicated", i)) {
				w.Nodes[i].ExtraTaints = append(w.Nodes[i].ExtraTaints, corev1.Taint{Key: "dedicated", Value: "x", Effect: corev1.TaintEffectNoSchedule})
				tainted[w.Nodes[i].Name] = true
			}
		}
		// an untainted twin of the first tainted node: its zone stays a domain the workload can use
		for i := range w.Nodes {
			if tainted[w.Nodes[i].Name] && w.Nodes[i].Stage == sim.StageInitialized && !w.Nodes[i].Marked && !w.Nodes[i].ClaimDeleting {
				twin := w.Nodes[i]
				twin.Name = "node-twin"
				twin.ExtraTaints = nil
				twin.NotReady, twin.Cordoned = false, false
				w.Nodes = append(w.Nodes, twin)
				break
			}
		}
		// at least four replicas
		n0 := 0
		for _, p := range w.Pending {
			if s.Deploy[p.Name] == 0 {
				n0++
			}
		}
		for r := n0; r < 4; r++ {
			p := w.Pending[0].DeepCopy()
			p.Name = fmt.Sprintf("dep0-%d", r)
			p.UID = types.UID(fmt.Sprintf("dep0-uid-%d", r))
			w.Pending = append(w.Pending, p)
			s.Deploy[p.Name] = 0
		}
		for i, p := range w.Bound {
			pc := 30
			if tainted[p.Spec.NodeName] {
				pc = 75
			}
			if dpct(t, pc, fmt.Sprintf("bound%d_selected", i)) {
				p.Labels["app"] = app
				p.Spec.Affinity = nil
			}
		}
		// a tainted node often runs several (small) pods of the workload
		extra := 0
		for _, n := range w.Nodes {
			if !tainted[n.Name] || n.Stage != sim.StageInitialized {
				continue
			}
			for j := 0; j < rapid.IntRange(0, 3).Draw(t, "extraSelected_"+n.Name); j++ {
				extra++
				ep := &corev1.Pod{ObjectMeta: metav1.ObjectMeta{Name: fmt.Sprintf("bound-x%d", extra), Namespace: "default", UID: types.UID(fmt.Sprintf("bound-uid-x%d", extra)), Labels: map[string]string{"app": app}},
					Spec: corev1.PodSpec{Containers: []corev1.Container{{Name: "c", Image: "img", Resources: corev1.ResourceRequirements{Requests: corev1.ResourceList{corev1.ResourceCPU: resource.MustParse("50m")}}}},
						Tolerations: []corev1.Toleration{{Operator: corev1.TolerationOpExists}}}}
				w.Bound = append(w.Bound, sim.Bound(ep, n.Name))
			}
		}
	}
	// bound pods: a few carry labels the batch selects; BoundPod already draws anti-affinity occasionally
	for i, p := range w.Bound {
		if rapid.IntRange(0, 3).Draw(t, fmt.Sprintf("bound%d_dep", i)) == 3 {
			p.Labels["dep"] = fmt.Sprintf("dep%d", rapid.IntRange(0, nd-1).Draw(t, fmt.Sprintf("bound%d_depV", i)))
		}
		// neighbours on one node often belong to one workload
		if i > 0 && w.Bound[i-1].Spec.NodeName == p.Spec.NodeName && dpct(t, 50, fmt.Sprintf("bound%d_sameApp", i)) {
			p.Labels["app"] = w.Bound[i-1].Labels["app"]
			if d, ok := w.Bound[i-1].Labels["dep"]; ok {
				p.Labels["dep"] = d
			}
		}
	}
	return s
}

// ---- end-state model -------------------------------------------------------------------------------------------------

type c02Where struct {
	kind   string // "node" | "claim"
	name   string
	labels map[string]string      // node: the labels Kubernetes sees (NodeClaim labels until registered)
	nc     *pscheduling.NodeClaim // claim
	taints []corev1.Taint
	// rawTaints: the taints the Node object carries right now (incl. ephemeral ones of a node that is still starting);
	// nil = same as taints
	rawTaints []corev1.Taint
	zones     map[string]bool // claim: zones an available compatible offering can launch in
}

type c02Pod struct {
	pod    *corev1.Pod
	where  *c02Where
	placed bool // placed by this pass
}

// domains: the values of the topology key the pod's node may end up with (empty: the node will not carry the key).
func (w *c02Where) domains(key string) map[string]bool {
	out := map[string]bool{}
	if w.kind == "node" {
		if v, ok := w.labels[key]; ok {
			out[v] = true
		} else if key == corev1.LabelHostname {
			out[w.name] = true
		}
		return out
	}
	switch key {
	case corev1.LabelHostname:
		out["<new:"+w.name+">"] = true
	case corev1.LabelTopologyZone:
		for z := range w.zones {
			out[z] = true
		}
	default:
		if w.nc.Requirements.Has(key) {
			r := w.nc.Requirements.Get(key)
			if r.Operator() == corev1.NodeSelectorOpIn {
				for _, v := range r.Values() {
					out[v] = true
				}
			}
		}
	}
	return out
}

// c02TermMatches: the (anti-)affinity term of owner selects q: q lives in one of the term's namespaces (the listed ones
// plus those its namespaceSelector selects; the owner's own namespace when neither is given) and carries the labels.
func (s *c02Scenario) c02TermMatches(term corev1.PodAffinityTerm, owner, q *corev1.Pod) bool {
	if len(term.Namespaces) == 0 && term.NamespaceSelector == nil {
		return c02Matches(term.LabelSelector, owner.Namespace, q)
	}
	in := false
	for _, n := range term.Namespaces {
		in = in || n == q.Namespace
	}
	if !in && term.NamespaceSelector != nil {
		if sel, err := metav1.LabelSelectorAsSelector(term.NamespaceSelector); err == nil {
			nsLabels, known := s.Namespaces[q.Namespace]
			if q.Namespace == "default" {
				nsLabels, known = map[string]string{"kubernetes.io/metadata.name": "default"}, true
			}
			in = known && sel.Matches(labels.Set(nsLabels))
		}
	}
	return in && c02Matches(term.LabelSelector, q.Namespace, q)
}

func c02Matches(sel *metav1.LabelSelector, ns string, q *corev1.Pod) bool {
	if sel == nil || q.Namespace != ns {
		return false
	}
	s, err := metav1.LabelSelectorAsSelector(sel)
	return err == nil && s.Matches(labels.Set(q.Labels))
}

func intersects(a, b map[string]bool) (string, bool) {
	keys := make([]string, 0, len(a))
	for k := range a {
		keys = append(keys, k)
	}
	sort.Strings(keys)
	for _, k := range keys {
		if b[k] {
			return k, true
		}
	}
	return "", false
}

func shortKey(k string) string {
	switch k {
	case corev1.LabelHostname:
		return "hostname"
	case corev1.LabelTopologyZone:
		return "zone"
	case sim.LabelRack:
		return "rack"
	}
	return k
}

// podAdmitsDomain: the pod's own nodeSelector / required node affinity expressions on the key admit the value.
func podAdmitsDomain(p *corev1.Pod, key, value string) bool {
	probe := &corev1.Pod{Spec: corev1.PodSpec{}}
	if v, ok := p.Spec.NodeSelector[key]; ok {
		probe.Spec.NodeSelector = map[string]string{key: v}
	}
	if p.Spec.Affinity != nil && p.Spec.Affinity.NodeAffinity != nil && p.Spec.Affinity.NodeAffinity.RequiredDuringSchedulingIgnoredDuringExecution != nil {
		ns := &corev1.NodeSelector{}
		for _, term := range p.Spec.Affinity.NodeAffinity.RequiredDuringSchedulingIgnoredDuringExecution.NodeSelectorTerms {
			nt := corev1.NodeSelectorTerm{}
			for _, e := range term.MatchExpressions {
				if e.Key == key {
					nt.MatchExpressions = append(nt.MatchExpressions, e)
				}
			}
			if len(nt.MatchExpressions) == 0 {
				ns = nil // a term without expressions on the key admits every value
				break
			}
			ns.NodeSelectorTerms = append(ns.NodeSelectorTerms, nt)
		}
		if ns != nil {
			probe.Spec.Affinity = &corev1.Affinity{NodeAffinity: &corev1.NodeAffinity{RequiredDuringSchedulingIgnoredDuringExecution: ns}}
		}
	}
	return ref.MatchesNodeAffinity(probe, &corev1.Node{ObjectMeta: metav1.ObjectMeta{Labels: map[string]string{key: value}}})
}

// orTermsOn: the pod's required node affinity has several OR-ed terms, at least one of which constrains the key
// (any key when key is empty).
func orTermsOn(p *corev1.Pod, key string) bool {
	if p.Spec.Affinity == nil || p.Spec.Affinity.NodeAffinity == nil || p.Spec.Affinity.NodeAffinity.RequiredDuringSchedulingIgnoredDuringExecution == nil {
		return false
	}
	terms := p.Spec.Affinity.NodeAffinity.RequiredDuringSchedulingIgnoredDuringExecution.NodeSelectorTerms
	if len(terms) < 2 {
		return false
	}
	if key == "" {
		return true
	}
	for _, term := range terms {
		for _, e := range term.MatchExpressions {
			if e.Key == key {
				return true
			}
		}
	}
	return false
}

// ownConstraintsOn counts the required inter-pod constraints the pod itself carries over the key. With two or more, the
// domains Karpenter picks for them can have an empty intersection, which its requirement algebra reads as "label must be
// absent" (the presence-loss defect recorded under C12). Unless preferences are ignored, Karpenter first treats preferred
// terms and ScheduleAnyway spreads as required too (soft).
func ownConstraintsOn(p *corev1.Pod, key string, soft bool) int {
	n := 0
	if a := p.Spec.Affinity; a != nil {
		if a.PodAffinity != nil {
			for _, t := range a.PodAffinity.RequiredDuringSchedulingIgnoredDuringExecution {
				if t.TopologyKey == key {
					n++
				}
			}
			for _, t := range a.PodAffinity.PreferredDuringSchedulingIgnoredDuringExecution {
				if soft && t.PodAffinityTerm.TopologyKey == key {
					n++
				}
			}
		}
		if a.PodAntiAffinity != nil {
			for _, t := range a.PodAntiAffinity.RequiredDuringSchedulingIgnoredDuringExecution {
				if t.TopologyKey == key {
					n++
				}
			}
			for _, t := range a.PodAntiAffinity.PreferredDuringSchedulingIgnoredDuringExecution {
				if soft && t.PodAffinityTerm.TopologyKey == key {
					n++
				}
			}
		}
	}
	for _, t := range p.Spec.TopologySpreadConstraints {
		if t.TopologyKey == key && (t.WhenUnsatisfiable == corev1.DoNotSchedule || soft) {
			n++
		}
	}
	return n
}

func execC02(s *c02Scenario, c *ev.Ctx) {
	b := build(s.World, c)
	w := b.W
	w.Apply(&corev1.Namespace{ObjectMeta: metav1.ObjectMeta{Name: "default", Labels: map[string]string{"kubernetes.io/metadata.name": "default"}}})
	for _, n := range sortedKeys(s.Namespaces) {
		w.Apply(&corev1.Namespace{ObjectMeta: metav1.ObjectMeta{Name: n, Labels: s.Namespaces[n]}})
	}
	c.ClassIf(len(s.Namespaces) > 0, "two_namespaces")
	res, err := b.Provisioner.Schedule(w.Ctx)
	if err != nil {
		c.Class("schedule_error")
		return
	}
	// ---- where every pod is in the end state
	batch := map[types.UID]bool{}
	var pods []*c02Pod
	// relaxedToleration: deployments one of whose replicas was placed only after relaxation added the PreferNoSchedule
	// toleration (the placed copy carries more tolerations than the pod that was submitted)
	relaxedToleration := map[int]bool{}
	noteRelaxed := func(placed []*corev1.Pod) {
		for _, rp := range placed {
			if orig := b.Originals[rp.UID]; orig != nil && len(rp.Spec.Tolerations) > len(orig.Spec.Tolerations) {
				if d, ok := s.Deploy[orig.Name]; ok {
					relaxedToleration[d] = true
				}
			}
		}
	}
	for _, en := range res.ExistingNodes {
		noteRelaxed(en.Pods)
	}
	for _, nc := range res.NewNodeClaims {
		noteRelaxed(nc.Pods)
	}
	for _, en := range res.ExistingNodes {
		if len(en.Pods) == 0 {
			continue
		}
		bn := b.nodeByStateName(en.Name())
		if bn == nil {
			continue
		}
		view, _ := b.existingNodeView(bn)
		wh := &c02Where{kind: "node", name: bn.Spec.Name, labels: view.Labels, taints: view.Spec.Taints}
		for _, p := range b.originals(en.Pods) {
			batch[p.UID] = true
			pods = append(pods, &c02Pod{pod: p, where: wh, placed: true})
		}
	}
	for i, nc := range res.NewNodeClaims {
		wh := &c02Where{kind: "claim", name: fmt.Sprintf("%d", i), nc: nc, taints: nc.Spec.Taints, zones: map[string]bool{}}
		for _, opt := range nc.InstanceTypeOptions {
			if it, ok := b.itSpec(opt.Name); ok {
				for _, ch := range launchable(it, nc.Requirements) {
					wh.zones[ch.of.Zone] = true
				}
			}
		}
		for _, p := range b.originals(nc.Pods) {
			batch[p.UID] = true
			pods = append(pods, &c02Pod{pod: p, where: wh, placed: true})
		}
	}
	for p := range res.PodErrors {
		batch[p.UID] = true
	}
	nodeLabels := map[string]*corev1.Node{}
	for _, n := range w.ListNodes() {
		n := n
		nodeLabels[n.Name] = &n
	}
	for _, p := range w.ListPods() {
		p := p
		if p.Spec.NodeName == "" || batch[p.UID] || terminal(&p) || p.DeletionTimestamp != nil {
			continue
		}
		n := nodeLabels[p.Spec.NodeName]
		if n == nil {
			continue
		}
		// the node as it will be once it has settled (the same view that decides which domains are eligible): a node that
		// is still starting carries ephemeral taints that say nothing about where the workload ends up
		labels, taints := n.Labels, n.Spec.Taints
		if bn := b.Nodes[n.Name]; bn != nil && bn.Node != nil {
			view, _ := b.existingNodeView(bn)
			labels, taints = view.Labels, view.Spec.Taints
		}
		pods = append(pods, &c02Pod{pod: &p, where: &c02Where{kind: "node", name: n.Name, labels: labels, taints: taints, rawTaints: n.Spec.Taints}})
	}
	sort.Slice(pods, func(i, j int) bool { return pods[i].pod.Name < pods[j].pod.Name })

	// constraintsOn: the pod's own required constraints over the key plus the required anti-affinity terms of other pods
	// that select it (Karpenter enforces those on the newcomer too)
	constraintsOn := func(p *c02Pod, key string) int {
		n := ownConstraintsOn(p.pod, key, !s.World.Options.IgnorePreferences)
		var all []*corev1.Pod
		all = append(all, s.World.Pending...)
		all = append(all, s.World.Bound...)
		for _, q := range all {
			if q.UID == p.pod.UID || q.Spec.Affinity == nil || q.Spec.Affinity.PodAntiAffinity == nil {
				continue
			}
			for _, t := range q.Spec.Affinity.PodAntiAffinity.RequiredDuringSchedulingIgnoredDuringExecution {
				if t.TopologyKey == key && s.c02TermMatches(t, q, p.pod) {
					n++
				}
			}
		}
		return n
	}
	// lostOnSameNode: another pod placed on the same NodeClaim / node carries two constraints over the key; the empty
	// intersection of their domains already turned the node's requirement into "label absent" (presence loss), which
	// every later constraint over the key is then "compatible" with
	lostOnSameNode := func(p *c02Pod, key string) bool {
		for _, q := range pods {
			if q != p && q.placed && q.where == p.where && constraintsOn(q, key) >= 2 {
				return true
			}
		}
		return false
	}
	// softTaintPool: a pool carries a PreferNoSchedule taint, so relaxation adds a toleration to pods that failed once
	softTaintPool := false
	for _, np := range s.World.Pools {
		for _, t := range np.Spec.Template.Spec.Taints {
			softTaintPool = softTaintPool || t.Effect == corev1.TaintEffectPreferNoSchedule
		}
	}
	governedPlaced := map[string]int{} // constraint id -> placed pods it governs
	constraintID := func(kind, key string, sel *metav1.LabelSelector) string {
		return kind + "|" + key + "|" + metav1.FormatLabelSelector(sel)
	}
	// termID: (anti-)affinity terms are the same constraint only if they also look at the same namespaces
	termID := func(kind string, term corev1.PodAffinityTerm, owner *corev1.Pod) string {
		ns := "ns=" + owner.Namespace
		if len(term.Namespaces) > 0 || term.NamespaceSelector != nil {
			l := append([]string{}, term.Namespaces...)
			sort.Strings(l)
			ns = "ns=" + strings.Join(l, ",") + "/" + metav1.FormatLabelSelector(term.NamespaceSelector)
		}
		return constraintID(kind, term.TopologyKey, term.LabelSelector) + "|" + ns
	}
	describe := func(p *c02Pod, key string) string {
		d := p.where.domains(key)
		ks := make([]string, 0, len(d))
		for k := range d {
			ks = append(ks, k)
		}
		sort.Strings(ks)
		return fmt.Sprintf("%s on %s %s (%s in %v)", p.pod.Name, p.where.kind, p.where.name, shortKey(key), ks)
	}

	// ---- required anti-affinity, both directions
	for _, a := range pods {
		if a.pod.Spec.Affinity == nil || a.pod.Spec.Affinity.PodAntiAffinity == nil {
			continue
		}
		for _, term := range a.pod.Spec.Affinity.PodAntiAffinity.RequiredDuringSchedulingIgnoredDuringExecution {
			if a.placed {
				governedPlaced[termID("anti", term, a.pod)]++
			}
			da := a.where.domains(term.TopologyKey)
			for _, q := range pods {
				if q == a || (!a.placed && !q.placed) || !s.c02TermMatches(term, a.pod, q.pod) {
					continue
				}
				if q.placed && !a.placed {
					governedPlaced[termID("anti", term, a.pod)]++
				}
				if d, ok := intersects(da, q.where.domains(term.TopologyKey)); ok {
					undet := len(da) > 1 || len(q.where.domains(term.TopologyKey)) > 1
					sig := fmt.Sprintf("anti-affinity:%s:owner-%s:match-%s", shortKey(term.TopologyKey), map[bool]string{true: "placed", false: "running"}[a.placed], map[bool]string{true: "placed", false: "running"}[q.placed])
					if undet {
						sig += ":domain-undetermined"
					}
					c.Violate(sig, "required anti-affinity of %s (selector %s) is violated by %s: both may be in %s=%s", describe(a, term.TopologyKey), metav1.FormatLabelSelector(term.LabelSelector), describe(q, term.TopologyKey), shortKey(term.TopologyKey), d)
				}
			}
		}
	}

	// ---- required affinity
	starters := map[string][]*c02Pod{} // constraint -> self-selecting placed pods alone in a determined domain
	for _, p := range pods {
		if !p.placed || p.pod.Spec.Affinity == nil || p.pod.Spec.Affinity.PodAffinity == nil {
			continue
		}
		for _, term := range p.pod.Spec.Affinity.PodAffinity.RequiredDuringSchedulingIgnoredDuringExecution {
			key := term.TopologyKey
			governedPlaced[termID("affinity", term, p.pod)]++
			dp := p.where.domains(key)
			self := s.c02TermMatches(term, p.pod, p.pod)
			if len(dp) == 0 {
				sig := "affinity:" + shortKey(key) + ":node-without-topology-key"
				if constraintsOn(p, key) >= 2 || lostOnSameNode(p, key) {
					sig = "node-without-topology-key:presence-lost"
				}
				c.Violate(sig, "%s has a required pod affinity over %s but its node will not carry that label", describe(p, key), key)
				continue
			}
			ds := make([]string, 0, len(dp))
			for d := range dp {
				ds = append(ds, d)
			}
			sort.Strings(ds)
			for _, d := range ds {
				found := false
				for _, q := range pods {
					if q == p || !s.c02TermMatches(term, p.pod, q.pod) {
						continue
					}
					dq := q.where.domains(key)
					if q.where == p.where || (len(dq) == 1 && dq[d]) {
						found = true
						break
					}
				}
				if found {
					continue
				}
				if !self {
					sig := "affinity:" + shortKey(key) + ":no-match-in-domain"
					if len(dp) > 1 {
						sig += ":domain-undetermined"
					}
					c.Violate(sig, "%s requires a pod matching %s in its %s domain, but none is guaranteed in %s", describe(p, key), metav1.FormatLabelSelector(term.LabelSelector), shortKey(key), d)
					continue
				}
				// self-matching: it may start a domain only when no match exists in any domain it can use. Order-free
				// readings: (i) a RUNNING match sits in another domain the pod admits; (ii) - judged below - two placed
				// pods each started their own domain although each admits the other's
				runningElsewhere := false
				for _, q := range pods {
					if q == p || q.placed || !s.c02TermMatches(term, p.pod, q.pod) {
						continue
					}
					dq := q.where.domains(key)
					if len(dq) != 1 {
						continue
					}
					var e string
					for e = range dq {
					}
					if dp[e] || !podAdmitsDomain(p.pod, key, e) {
						continue
					}
					runningElsewhere = true
					bsig := fmt.Sprintf("affinity:%s:bootstrapped-although-match-exists:running-match", shortKey(key))
					if orTermsOn(p.pod, key) {
						// Karpenter judges the pod by one OR-ed node-affinity term at a time: after it dropped the term that
						// admits the match's domain, it no longer sees the match
						bsig = "node-affinity-or-terms:judged-by-one-term:affinity-bootstrap"
					}
					c.Violate(bsig,
						"%s (self-matching required affinity %s) starts domain %s although %s is in a domain it can use", describe(p, key), metav1.FormatLabelSelector(term.LabelSelector), d, describe(q, key))
					break
				}
				if !runningElsewhere && len(dp) == 1 {
					id := termID("affinity", term, p.pod)
					starters[id] = append(starters[id], p)
				}
			}
		}
	}
	ids := make([]string, 0, len(starters))
	for id := range starters {
		ids = append(ids, id)
	}
	sort.Strings(ids)
	for _, id := range ids {
		key := strings.SplitN(id, "|", 3)[1]
		ps := starters[id]
	pairs:
		for i := 0; i < len(ps); i++ {
			for j := i + 1; j < len(ps); j++ {
				var di, dj string
				for di = range ps[i].where.domains(key) {
				}
				for dj = range ps[j].where.domains(key) {
				}
				if di != dj && podAdmitsDomain(ps[i].pod, key, dj) && podAdmitsDomain(ps[j].pod, key, di) {
					tsig := fmt.Sprintf("affinity:%s:bootstrapped-although-match-exists:two-starters", shortKey(key))
					if orTermsOn(ps[i].pod, key) || orTermsOn(ps[j].pod, key) {
						tsig = "node-affinity-or-terms:judged-by-one-term:affinity-bootstrap"
					}
					c.Violate(tsig,
						"%s and %s both select themselves through the same required affinity, are alone in their %s domains and each admits the other's domain: whichever was placed second started a domain although a match existed", describe(ps[i], key), describe(ps[j], key), shortKey(key))
					break pairs
				}
			}
		}
	}

	// ---- DoNotSchedule topology spread, for homogeneous groups (every batch pod the selector matches is a replica
	// of the deployment carrying the constraint)
	for _, p := range pods {
		if !p.placed {
			continue
		}
		for _, tsc := range p.pod.Spec.TopologySpreadConstraints {
			if tsc.WhenUnsatisfiable != corev1.DoNotSchedule {
				continue
			}
			key := tsc.TopologyKey
			// matchLabelKeys: the selector is AND-ed with key In [the incoming pod's value] for every listed key the pod carries
			if len(tsc.MatchLabelKeys) > 0 {
				tsc.LabelSelector = tsc.LabelSelector.DeepCopy()
				for _, k := range tsc.MatchLabelKeys {
					if v, ok := p.pod.Labels[k]; ok {
						tsc.LabelSelector.MatchExpressions = append(tsc.LabelSelector.MatchExpressions, metav1.LabelSelectorRequirement{Key: k, Operator: metav1.LabelSelectorOpIn, Values: []string{v}})
					}
				}
				c.Class("spread_with_match_label_keys")
			}
			governedPlaced[constraintID("spread", key, tsc.LabelSelector)]++
			if !c02Matches(tsc.LabelSelector, p.pod.Namespace, p.pod) {
				c.Class("spread_not_self_matching")
				continue
			}
			homogeneous := true
			for _, q := range pods {
				if dq0, ok := s.Deploy[q.pod.Name]; q.placed && c02Matches(tsc.LabelSelector, p.pod.Namespace, q.pod) && (!ok || dq0 != s.Deploy[p.pod.Name]) {
					homogeneous = false
				}
			}
			if !homogeneous {
				c.Class("spread_group_not_homogeneous")
				continue
			}
			dp := p.where.domains(key)
			if len(dp) != 1 {
				if len(dp) == 0 {
					sig := "spread:" + shortKey(key) + ":node-without-topology-key"
					if constraintsOn(p, key) >= 2 || lostOnSameNode(p, key) {
						sig = "node-without-topology-key:presence-lost"
					}
					c.Violate(sig, "%s carries a DoNotSchedule spread over %s but its node will not carry that label", describe(p, key), key)
				} else {
					c.Class("spread_domain_undetermined")
				}
				continue
			}
			var d string
			for d = range dp {
			}
			honorAffinity := tsc.NodeAffinityPolicy == nil || *tsc.NodeAffinityPolicy == corev1.NodeInclusionPolicyHonor
			honorTaints := tsc.NodeTaintsPolicy != nil && *tsc.NodeTaintsPolicy == corev1.NodeInclusionPolicyHonor
			// NodeClaims that hold a replica of this deployment certainly pass the replicas' own affinity and tolerations;
			// other NodeClaims are judged by their taints (their labels are not settled yet: only "possible")
			ownClaims := map[string]bool{}
			for _, q := range pods {
				if dq0, ok := s.Deploy[q.pod.Name]; q.placed && ok && q.where.kind == "claim" && dq0 == s.Deploy[p.pod.Name] {
					ownClaims[q.where.name] = true
				}
			}
			includedWith := func(wh *c02Where, taints []corev1.Taint) bool {
				if wh.kind == "claim" {
					if ownClaims[wh.name] {
						return true
					}
					if honorTaints {
						if _, bad := ref.UntoleratedTaint(p.pod, taints); bad {
							return false
						}
					}
					return !honorAffinity || (len(p.pod.Spec.NodeSelector) == 0 && (p.pod.Spec.Affinity == nil || p.pod.Spec.Affinity.NodeAffinity == nil))
				}
				node := &corev1.Node{ObjectMeta: metav1.ObjectMeta{Name: wh.name, Labels: wh.labels}}
				if honorAffinity && !ref.MatchesNodeAffinity(p.pod, node) {
					return false
				}
				if honorTaints {
					if _, bad := ref.UntoleratedTaint(p.pod, taints); bad {
						return false
					}
				}
				return true
			}
			// a node that is still starting carries ephemeral taints: whether it takes part under nodeTaintsPolicy Honor
			// depends on when one looks (Karpenter counts with the Node's current taints, places with the settled ones).
			// included = certainly takes part (now and once settled); possible = takes part in one of the two views
			included := func(wh *c02Where) bool {
				if !includedWith(wh, wh.taints) {
					return false
				}
				return wh.rawTaints == nil || includedWith(wh, wh.rawTaints)
			}
			possible := func(wh *c02Where) bool {
				return includedWith(wh, wh.taints) || (wh.rawTaints != nil && includedWith(wh, wh.rawTaints))
			}
			count := map[string]int{}    // lower bound per domain: pods whose domain is determined
			floating := map[string]int{} // pods that may still land in the domain
			eligible := map[string]bool{}
			for _, q := range pods {
				if !included(q.where) {
					if possible(q.where) && c02Matches(tsc.LabelSelector, p.pod.Namespace, q.pod) {
						for e := range q.where.domains(key) {
							floating[e]++ // may or may not count
						}
					}
					continue
				}
				dq := q.where.domains(key)
				if len(dq) == 1 && q.where.kind == "claim" {
					for e := range dq {
						eligible[e] = true
					}
				}
				if !c02Matches(tsc.LabelSelector, p.pod.Namespace, q.pod) {
					continue
				}
				if len(dq) == 1 {
					for e := range dq {
						count[e]++
					}
				} else {
					for e := range dq {
						floating[e]++
					}
				}
			}
			// domains that certainly take part: those of ACTIVE existing nodes (Karpenter deliberately ignores nodes that
			// are going away) that pass the inclusion policies
			for _, bn := range b.Nodes {
				if bn.Node == nil || bn.Spec.ClaimDeleting || bn.Spec.NodeDeleting || bn.Spec.Marked {
					continue
				}
				view, _ := b.existingNodeView(bn)
				wh := &c02Where{kind: "node", name: bn.Spec.Name, labels: view.Labels, taints: view.Spec.Taints, rawTaints: bn.Node.Spec.Taints}
				if v, ok := view.Labels[key]; ok && included(wh) && bn.Node.Labels[key] == v {
					eligible[v] = true
				}
			}
			eligible[d] = true // the pod's own domain takes part by definition
			upperMin := -1
			for e := range eligible {
				if !podAdmitsDomain(p.pod, key, e) && honorAffinity {
					continue
				}
				if v := count[e] + floating[e]; upperMin < 0 || v < upperMin {
					upperMin = v
				}
			}
			if upperMin < 0 {
				upperMin = 0
			}
			// minDomains: with fewer eligible domains than minDomains the global minimum counts as 0. Under
			// nodeAffinityPolicy Honor the eligible domains are among those the pod's own node affinity admits; if even
			// the whole universe of values admits fewer than minDomains, the minimum is certainly 0
			if tsc.MinDomains != nil && honorAffinity && key != corev1.LabelHostname {
				universe := gen.Zones
				if key == sim.LabelRack {
					universe = []string{"r1", "r2", "r3"}
				}
				admitted := 0
				for _, v := range universe {
					if podAdmitsDomain(p.pod, key, v) {
						admitted++
					}
				}
				if admitted < int(*tsc.MinDomains) {
					upperMin = 0
					c.Class("spread_min_domains_forces_zero")
				}
			}
			if key == corev1.LabelHostname {
				c.Class("spread_hostname")
			}
			if os.Getenv("VERIF_DBG") != "" && honorTaints {
				fmt.Printf("C02DBG %s key=%s d=%s count=%v floating=%v eligible=%v upperMin=%d\n", p.pod.Name, shortKey(key), d, count, floating, eligible, upperMin)
			}
			if skew := count[d] - upperMin; skew > int(tsc.MaxSkew) {
				sig := "spread:" + shortKey(key) + ":max-skew-exceeded"
				if orTermsOn(p.pod, "") && honorAffinity {
					// Karpenter computes the spread minimum over the domains of the one OR-ed node-affinity term it is
					// trying, kube-scheduler over the nodes that match any of them; and when relaxation drops a term
					// (whatever key it is about) the node filter changes, the spread group is re-created under a new hash
					// and has forgotten the replicas placed earlier in the pass
					sig = "node-affinity-or-terms:judged-by-one-term:spread"
				}
				if honorTaints && softTaintPool && relaxedToleration[s.Deploy[p.pod.Name]] {
					// (fixed in 99b842d76) relaxation changed the pod's tolerations, which were part of the group identity
					// when taints are honored: the re-created group forgot the replicas placed earlier in the pass
					sig = "spread:max-skew-exceeded:group-recreated-after-relaxation"
				}
				c.Violate(sig, "%s: %d matching pods end up in %s=%s while another eligible domain holds at most %d (maxSkew %d, selector %s)", describe(p, key), count[d], shortKey(key), d, upperMin, tsc.MaxSkew, metav1.FormatLabelSelector(tsc.LabelSelector))
			}
		}
	}

	// ---- shape
	placed := 0
	for _, p := range pods {
		if p.placed {
			placed++
		}
	}
	shared := false
	for id, n := range governedPlaced {
		if n >= 2 {
			shared = true
			c.Class("shared:" + strings.SplitN(id, "|", 3)[0] + ":" + shortKey(strings.SplitN(id, "|", 3)[1]))
		}
	}
	rejected := false
	for p, e := range res.PodErrors {
		if strings.Contains(e.Error(), "topology") || strings.Contains(e.Error(), "affinity") {
			rejected = true
			_ = p
		}
	}
	c.ClassIf(rejected, "pod_rejected_by_topology")
	c.Add("placed", placed)
	c.Add("errors", len(res.PodErrors))
	c.NTIf(shared || (rejected && placed > 0))
	c.Sample(map[string]any{"pending": len(s.World.Pending), "placed": placed, "errors": len(res.PodErrors), "newClaims": len(res.NewNodeClaims)})
}

var propC02 = ev.Prop[c02Scenario]{
	ID: "C02", Test: "TestC02",
	Rule: "rapid draws a scheduler world (0-5 nodes with / without zone and rack labels, bound pods some of which carry required anti-affinity, 1-2 pools some of which can label nodes with a rack) and a batch of 1-4 deployments x 1-4 replicas whose template carries 0-2 of {required / preferred pod anti-affinity, required / preferred pod affinity, DoNotSchedule / ScheduleAnyway spread with maxSkew 1-3, minDomains, node inclusion policies} over hostname / zone / rack with self-, deployment-, set- or foreign selectors, optionally pinned to a zone or a zone subset, preferring a zone, or with two OR-ed required zone terms; in a quarter of the worlds a second namespace holds some deployments and running pods and (anti-)affinity terms carry namespaces / namespaceSelector; one REAL Provisioner.Schedule pass runs; " +
		"oracle on the END STATE, where every pod has the set of domains its node may end up with (node label; for a NodeClaim the zones an available compatible offering of its instance types can launch in, its own hostname, the values of its requirement for user keys): (1) for every required anti-affinity term of any pod (placed or running) and every other pod it selects, the two domain sets are disjoint; (2) every placed pod with a required affinity term has, for EVERY domain it may end up in, a selected pod on the same node or with exactly that domain, or it selects itself and no running pod / lower-numbered replica it selects sits in another domain its own node requirements admit; (3) for a DoNotSchedule self-selecting spread whose selector only matches replicas of the same deployment in the batch: pods certainly in the domain minus an upper bound of the minimum over certainly eligible domains <= maxSkew; " +
		"non-trivial = at least two placed pods are governed by one shared constraint, or one was rejected by a topology constraint while another was placed",
	Assumptions: []string{"the commit-order trace hook (H1) of the design is not used: the spread and bootstrap rules are applied in their order-free, lenient readings (they can miss a violation, never raise a false alarm)", "one or two namespaces; (anti-)affinity terms look at listed namespaces, a namespaceSelector, both, or the pod's own namespace; spread constraints count the pod's own namespace only", "minDomains is judged only where it certainly applies: under nodeAffinityPolicy Honor, when the pod's own affinity admits fewer values of the key than minDomains (the minimum then counts as 0)"},
	Draw:        drawC02, Exec: execC02, ReplayTries: 40,
}

func TestC02(t *testing.T) { ev.Run(t, propC02) }
