package harness

import (
	"fmt"
	"testing"

	metav1 "k8s.io/apimachinery/pkg/apis/meta/v1"
	"pgregory.net/rapid"

	v1 "sigs.k8s.io/karpenter/pkg/apis/v1"
	"sigs.k8s.io/karpenter/pkg/controllers/state"

	"verif/harness/ev"
)

// C03a: state.NodePoolState driven by logical reconcilers that follow the real call protocols of the static
// provisioning / static drift / deprovisioning controllers and the NodeClaim informer, interleaved at method granularity.

type c03Op struct {
	Kind string `json:"kind"` // start | step | informer | finalize | userDelete | rollback
	R    int    `json:"r"`    // reconciler index
	Run  string `json:"run,omitempty"`
	Pool int    `json:"pool"`
	Idx  int    `json:"idx"`
	OK   bool   `json:"ok"`
}

type c03Pool struct {
	Limit    int `json:"limit"` // 0 = no node limit
	Replicas int `json:"replicas"`
	Budget   int `json:"budget"`
	Initial  int `json:"initial"`
}

type c03aScenario struct {
	Pools []c03Pool `json:"pools"`
	Ops   []c03Op   `json:"ops"`
}

func drawC03a(t *rapid.T) *c03aScenario {
	s := &c03aScenario{}
	np := rapid.IntRange(1, 2).Draw(t, "pools")
	for i := 0; i < np; i++ {
		p := c03Pool{Replicas: rapid.IntRange(0, 4).Draw(t, "replicas"), Budget: rapid.IntRange(1, 3).Draw(t, "budget")}
		if rapid.IntRange(0, 4).Draw(t, "hasLimit") > 0 {
			p.Limit = rapid.IntRange(1, 5).Draw(t, "limit")
		}
		max := 4
		if p.Limit > 0 && p.Limit < max {
			max = p.Limit
		}
		p.Initial = rapid.IntRange(0, max).Draw(t, "initial")
		s.Pools = append(s.Pools, p)
	}
	minOps := rapid.IntRange(4, 45).Draw(t, "minOps")
	s.Ops = rapid.SliceOfN(rapid.Custom(func(t *rapid.T) c03Op {
		op := c03Op{R: rapid.IntRange(0, 2).Draw(t, "r"), Pool: rapid.IntRange(0, np-1).Draw(t, "pool"), Idx: rapid.IntRange(0, 7).Draw(t, "idx"), OK: rapid.IntRange(0, 4).Draw(t, "ok") > 0}
		switch k := rapid.IntRange(0, 19).Draw(t, "kind"); {
		case k < 4:
			op.Kind = "start"
			op.Run = rapid.SampledFrom([]string{"prov", "prov", "drift", "drift", "deprov"}).Draw(t, "run")
		case k < 13:
			op.Kind = "step"
		case k < 16:
			op.Kind = "informer"
		case k < 18:
			op.Kind = "finalize"
		case k < 19:
			op.Kind = rapid.SampledFrom([]string{"userDelete", "queueDelete", "queueDelete"}).Draw(t, "del")
		default:
			op.Kind = "rollback"
		}
		return op
	}), minOps, 70).Draw(t, "ops")
	return s
}

type c03Claim struct {
	name    string
	pool    int
	api     string // present | deleting | gone
	drifted bool
	marked  bool   // cluster.MarkForDeletion issued by the disruption queue and not rolled back
	cleaned bool   // the informer delivered the deletion
	seen    string // last API state the informer delivered
}

type c03Recon struct {
	kind    string
	pool    int
	stage   int
	running int
	pending int
	granted int64
	workers []int    // prov: per worker 0=create pending, 1=release pending, 2=done
	cands   []string // drift candidates (granted prefix)
	ci      int      // drift: current command
	cstage  int      // drift: 0=markDisrupted 1=create 2=release 3=MarkForDeletion
	toDel   []string // deprov candidates
	created bool     // drift: the current command's replacement was created
}

type c03World struct {
	st       *state.NodePoolState
	pools    []c03Pool
	claims   map[string]*c03Claim
	order    []string
	seq      int
	mActive  []map[string]bool
	mDelete  []map[string]bool
	mPending []map[string]bool
	reserved []int64 // model truth: grants not yet released
	recons   [3]*c03Recon
	c        *ev.Ctx
}

func poolName(i int) string { return fmt.Sprintf("static-%d", i) }

func (w *c03World) nc(name string, pool int) *v1.NodeClaim {
	return &v1.NodeClaim{ObjectMeta: metav1.ObjectMeta{Name: name, Labels: map[string]string{v1.NodePoolLabelKey: poolName(pool)}}}
}

func (w *c03World) newClaim(pool int) *c03Claim {
	w.seq++
	cl := &c03Claim{name: fmt.Sprintf("nc-%d-%d", pool, w.seq), pool: pool, api: "present"}
	w.claims[cl.name] = cl
	w.order = append(w.order, cl.name)
	return cl
}

// model transitions mirror the documented meaning of each call (three disjoint sets per pool)
func (w *c03World) modelMark(pool int, name, set string) {
	delete(w.mActive[pool], name)
	delete(w.mDelete[pool], name)
	delete(w.mPending[pool], name)
	switch set {
	case "active":
		w.mActive[pool][name] = true
	case "deleting":
		w.mDelete[pool][name] = true
	case "pending":
		w.mPending[pool][name] = true
	}
}

func (w *c03World) updateNodeClaim(cl *c03Claim, deleting bool) {
	w.st.UpdateNodeClaim(w.nc(cl.name, cl.pool), deleting)
	if deleting {
		w.modelMark(cl.pool, cl.name, "deleting")
	} else {
		w.modelMark(cl.pool, cl.name, "active")
	}
}

func (w *c03World) sortedClaims(pool int, pred func(*c03Claim) bool) []string {
	var out []string
	for _, n := range w.order {
		if cl := w.claims[n]; cl.pool == pool && pred(cl) {
			out = append(out, n)
		}
	}
	return out
}

func (w *c03World) limit(pool int) int64 {
	if w.pools[pool].Limit == 0 {
		return int64(^uint64(0) >> 1)
	}
	return int64(w.pools[pool].Limit)
}

func (w *c03World) start(r int, run string, pool int) {
	if w.recons[r] != nil {
		return
	}
	// controller-runtime never runs two reconciles of one controller for the same NodePool at once, and the disruption
	// controller (static drift) is a singleton
	for _, other := range w.recons {
		if other != nil && other.kind == run && (other.pool == pool || run == "drift") {
			return
		}
	}
	w.recons[r] = &c03Recon{kind: run, pool: pool}
}

func (w *c03World) step(r int, idx int, ok bool) {
	rc := w.recons[r]
	if rc == nil {
		return
	}
	p := w.pools[rc.pool]
	pn := poolName(rc.pool)
	done := func() { w.recons[r] = nil }
	switch rc.kind {
	case "prov":
		switch rc.stage {
		case 0:
			a, _, pd := w.st.GetNodeCount(pn)
			rc.running, rc.pending = a, pd
			if a+pd >= p.Replicas {
				done()
				return
			}
			rc.stage = 1
		case 1:
			g := w.st.ReserveNodeCount(pn, w.limit(rc.pool), int64(p.Replicas-rc.running))
			w.grant(rc.pool, g)
			if g <= 0 {
				done()
				return
			}
			rc.granted = g
			rc.workers = make([]int, g)
			rc.stage = 2
		case 2:
			var open []int
			for i, s := range rc.workers {
				if s < 2 {
					open = append(open, i)
				}
			}
			if len(open) == 0 {
				done()
				return
			}
			i := open[idx%len(open)]
			if rc.workers[i] == 0 {
				if ok {
					w.updateNodeClaim(w.newClaim(rc.pool), false) // Provisioner.Create: API create, then cluster.UpdateNodeClaim
				}
				rc.workers[i] = 1
			} else {
				w.release(rc.pool)
				rc.workers[i] = 2
			}
		}
	case "drift":
		switch rc.stage {
		case 0:
			a, _, pd := w.st.GetNodeCount(pn)
			if a+pd > p.Replicas {
				done()
				return
			}
			// candidates: drifted claims the disruption controller would consider (present, active in state, not yet pending)
			rc.cands = w.sortedClaims(rc.pool, func(cl *c03Claim) bool { return cl.api == "present" && cl.drifted && w.mActive[rc.pool][cl.name] })
			if len(rc.cands) == 0 {
				done()
				return
			}
			rc.stage = 1
		case 1:
			want := int64(p.Budget)
			if int64(len(rc.cands)) < want {
				want = int64(len(rc.cands))
			}
			g := w.st.ReserveNodeCount(pn, w.limit(rc.pool), want)
			w.grant(rc.pool, g)
			if g == 0 {
				done()
				return
			}
			rc.cands = rc.cands[:g]
			rc.stage = 2
		case 2:
			if rc.ci >= len(rc.cands) {
				done()
				return
			}
			cand := w.claims[rc.cands[rc.ci]]
			switch rc.cstage {
			case 0: // markDisrupted
				if cand.api != "present" || !ok {
					// StartCommand returns an error before creating the replacement: this command's reservation is never released
					w.c.Class("drift_mark_failed")
					w.leak(rc.pool)
					rc.ci++
					return
				}
				w.st.MarkNodeClaimPendingDisruption(pn, cand.name)
				w.modelMark(rc.pool, cand.name, "pending")
				rc.cstage = 1
			case 1: // create the replacement
				rc.created = ok
				if ok {
					w.updateNodeClaim(w.newClaim(rc.pool), false)
				}
				rc.cstage = 2
			case 2:
				w.release(rc.pool)
				rc.cstage = 3
				if !rc.created {
					// StartCommand returns the creation error: no MarkForDeletion, the command is dropped
					rc.cstage = 0
					rc.ci++
				}
			case 3:
				// StartCommand: the replacement exists, now cluster.MarkForDeletion(candidate) -> MarkNodeClaimDeleting
				// (cluster state only does so while it still tracks the candidate's NodeClaim)
				if !cand.cleaned {
					cand.marked = true
					w.st.MarkNodeClaimDeleting(pn, cand.name)
					w.modelMark(rc.pool, cand.name, "deleting")
				}
				rc.cstage = 0
				rc.ci++
			}
		}
	case "deprov":
		switch rc.stage {
		case 0:
			a, _, _ := w.st.GetNodeCount(pn)
			k := a - p.Replicas
			if k <= 0 {
				done()
				return
			}
			cands := w.sortedClaims(rc.pool, func(cl *c03Claim) bool { return cl.api == "present" && w.mActive[rc.pool][cl.name] })
			if len(cands) > k {
				cands = cands[:k]
			}
			rc.toDel = cands
			rc.stage = 1
		case 1:
			if len(rc.toDel) == 0 {
				done()
				return
			}
			cl := w.claims[rc.toDel[0]]
			rc.toDel = rc.toDel[1:]
			if cl.api == "present" && ok {
				cl.api = "deleting"
				w.st.MarkNodeClaimDeleting(pn, cl.name)
				w.modelMark(rc.pool, cl.name, "deleting")
			}
		}
	}
}

func (w *c03World) grant(pool int, g int64) {
	if g > 0 {
		w.reserved[pool] += g
		w.c.Class("grant")
	}
}
func (w *c03World) release(pool int) {
	w.st.ReleaseNodeCount(poolName(pool), 1)
	if w.reserved[pool] > 0 {
		w.reserved[pool]--
	}
}
func (w *c03World) leak(pool int) {}

func execC03a(s *c03aScenario, c *ev.Ctx) {
	w := &c03World{st: state.NewNodePoolState(), pools: s.Pools, claims: map[string]*c03Claim{}, c: c}
	for i, p := range s.Pools {
		w.mActive = append(w.mActive, map[string]bool{})
		w.mDelete = append(w.mDelete, map[string]bool{})
		w.mPending = append(w.mPending, map[string]bool{})
		w.reserved = append(w.reserved, 0)
		for j := 0; j < p.Initial; j++ {
			cl := w.newClaim(i)
			cl.drifted = j%2 == 0
			w.updateNodeClaim(cl, false)
		}
	}
	cleanupWithOutstanding := false
	cleanups := 0
	for stepNo, op := range s.Ops {
		pool := op.Pool % len(s.Pools)
		switch op.Kind {
		case "start":
			w.start(op.R, op.Run, pool)
		case "step":
			w.step(op.R, op.Idx, op.OK)
		case "informer":
			// deliver the latest API state of one claim (level-triggered: any claim, any time, repeats allowed)
			if len(w.order) == 0 {
				continue
			}
			cl := w.claims[w.order[op.Idx%len(w.order)]]
			// prefer a claim whose latest state has not been delivered yet (that is what produces an event)
			if gone := w.sortedClaims(pool, func(cl *c03Claim) bool { return cl.api == "gone" && !cl.cleaned }); len(gone) > 0 && op.OK {
				cl = w.claims[gone[op.Idx%len(gone)]]
			}
			switch cl.api {
			case "present":
				// cluster.UpdateNodeClaim -> NodePoolState.UpdateNodeClaim(nc, markedForDeletion); a claim recorded as
				// pending disruption goes back to Active here, exactly as the real informer does between markDisrupted
				// and MarkForDeletion
				w.updateNodeClaim(cl, cl.marked)
				cl.seen = "present"
			case "deleting":
				w.updateNodeClaim(cl, true)
				cl.seen = "deleting"
			case "gone":
				if w.reserved[cl.pool] > 0 || len(w.mPending[cl.pool]) > 0 {
					cleanupWithOutstanding = true
				}
				w.st.Cleanup(cl.name)
				w.modelMark(cl.pool, cl.name, "")
				cl.cleaned = true
				cleanups++
			}
		case "finalize":
			// finish a deletion if one is in progress, otherwise a user deletes a claim
			del := w.sortedClaims(pool, func(cl *c03Claim) bool { return cl.api == "deleting" })
			if len(del) > 0 {
				w.claims[del[op.Idx%len(del)]].api = "gone"
			} else if pres := w.sortedClaims(pool, func(cl *c03Claim) bool { return cl.api == "present" }); len(pres) > 0 {
				w.claims[pres[op.Idx%len(pres)]].api = "deleting"
			}
		case "userDelete":
			pres := w.sortedClaims(pool, func(cl *c03Claim) bool { return cl.api == "present" })
			if len(pres) > 0 {
				w.claims[pres[op.Idx%len(pres)]].api = "deleting"
			}
		case "rollback":
			// a failed disruption command returns its candidate to service (cluster.UnmarkForDeletion -> MarkNodeClaimActive)
			// (only while cluster state holds the NodeClaim and has not seen a deletion timestamp on it)
			cands := w.sortedClaims(pool, func(cl *c03Claim) bool {
				return !cl.cleaned && cl.seen != "deleting" && cl.api != "gone" && (cl.marked || w.mPending[pool][cl.name])
			})
			if len(cands) > 0 {
				cl := w.claims[cands[op.Idx%len(cands)]]
				cl.marked = false
				w.st.MarkNodeClaimActive(poolName(pool), cl.name)
				w.modelMark(pool, cl.name, "active")
			}
		case "queueDelete":
			// the disruption queue deletes a marked candidate once its replacement is ready
			cands := w.sortedClaims(pool, func(cl *c03Claim) bool { return cl.api == "present" && cl.marked })
			if len(cands) > 0 {
				w.claims[cands[op.Idx%len(cands)]].api = "deleting"
			}
		}
		// ---- invariants after every step ----
		for i, p := range s.Pools {
			a, d, pd := w.st.GetNodeCount(poolName(i))
			if a != len(w.mActive[i]) || d != len(w.mDelete[i]) || pd != len(w.mPending[i]) {
				sig := "counts"
				if pd != len(w.mPending[i]) && a == len(w.mActive[i]) && d == len(w.mDelete[i]) {
					sig = "counts:pending-disruption-forgotten-by-cleanup"
				}
				c.Violate(sig, "step %d %+v: GetNodeCount(%s)=(%d,%d,%d) but the calls made so far mean (%d,%d,%d)", stepNo, op, poolName(i), a, d, pd, len(w.mActive[i]), len(w.mDelete[i]), len(w.mPending[i]))
			}
			if p.Limit > 0 {
				live := len(w.sortedClaims(i, func(cl *c03Claim) bool { return cl.api == "present" }))
				if live > p.Limit {
					c.Violate("limit-exceeded", "step %d %+v: pool %s has %d NodeClaims that are not deleting, node limit %d", stepNo, op, poolName(i), live, p.Limit)
				}
			}
		}
		if len(c.Violations()) > 0 {
			break
		}
	}
	c.ClassIf(cleanupWithOutstanding, "cleanup_with_outstanding")
	c.NTIf(cleanupWithOutstanding)
	c.ClassIf(cleanups > 0, "cleanup")
	c.NTIf(cleanups > 0)
}

var propC03a = ev.Prop[c03aScenario]{
	ID: "C03", Test: "TestC03a",
	Rule: "rapid draws 1-2 static pools (node limit, replicas, drift budget, initial claims) and 4-50 operations that start/step three logical reconcilers following the real call protocols (static provisioning: count->Reserve->create+UpdateNodeClaim->Release per worker; static drift: count->Reserve->MarkPendingDisruption->create->Release per command, mark failures abort; deprovisioning: MarkNodeClaimDeleting) interleaved with informer deliveries (UpdateNodeClaim/Cleanup), finalizations, user deletes and rollbacks; " +
		"oracle: no panic, GetNodeCount equals three model sets, live NodeClaims (not deleting) <= node limit after every step; non-trivial = the informer delivered the disappearance of a NodeClaim (Cleanup ran) in the history",
	Assumptions: []string{"NodePoolState is mutex-guarded, so interleaving at method granularity is faithful", "the node limit is not lowered during a history"},
	Draw:        drawC03a, Exec: execC03a,
}

func TestC03a(t *testing.T) { ev.Run(t, propC03a) }
