package harness

import (
	"fmt"
	"sort"
	"testing"

	corev1 "k8s.io/api/core/v1"
	"k8s.io/apimachinery/pkg/api/resource"
	"k8s.io/apimachinery/pkg/types"
	"pgregory.net/rapid"

	v1 "sigs.k8s.io/karpenter/pkg/apis/v1"

	"verif/harness/ev"
	"verif/harness/gen"
	"verif/harness/sim"
)

// C03b: dynamic pools - the capacity launched for a NodePool never exceeds its limits, whichever permitted instance
// type / offering the provider picks and however many scheduling rounds it takes.

type c03bScenario struct {
	World *gen.SchedWorld `json:"world"`
	// Rounds: per round the indexes (into World.Pending) of the pods that arrive before the pass
	Rounds [][]int `json:"rounds"`
	// Choices: which permitted launch option the provider takes (index modulo the option count); -1 = the largest cpu
	Choices []int `json:"choices"`
	// Joins: how far the i-th launched NodeClaim gets before the next round: "" (launched only) | "zero" (its node has
	// registered but reports the pool's limited resources as 0) | "absent" (registered, no status yet) | "ready"
	Joins []string `json:"joins,omitempty"`
}

func drawC03b(t *rapid.T) *c03bScenario {
	k := gen.DefaultKnobs()
	k.Overrides, k.NoMinValues, k.NoPrefs, k.FriendlyPools, k.NoSoftTaints = false, true, true, true, true
	k.InterPod = 0
	k.MaxNodes, k.MaxPending, k.MaxPools, k.MaxTypes = 3, 12, 2, 7
	k.NoLimits = true
	w := gen.World(t, k)
	// every pool gets limits on 1-2 resources, sized around a few instances of the catalog
	for i, np := range w.Pools {
		l := fmt.Sprintf("lim%d", i)
		np.Spec.Limits = v1.Limits{}
		n := rapid.IntRange(1, 2).Draw(t, l+"_n")
		for j := 0; j < n; j++ {
			switch rapid.SampledFrom([]string{"cpu", "cpu", "memory", "gpu", "pods"}).Draw(t, fmt.Sprintf("%s_res%d", l, j)) {
			case "cpu":
				np.Spec.Limits[corev1.ResourceCPU] = resource.MustParse(rapid.SampledFrom([]string{"0", "2", "4", "5", "8", "9", "16", "20", "33", "1950m", "3900m", "3950m", "7900m", "7500m", "15900m"}).Draw(t, fmt.Sprintf("%s_cpu%d", l, j)))
			case "memory":
				np.Spec.Limits[corev1.ResourceMemory] = resource.MustParse(rapid.SampledFrom([]string{"2Gi", "6Gi", "8Gi", "20Gi", "48Gi", "3900Mi", "8000Mi", "16200Mi", "32600Mi"}).Draw(t, fmt.Sprintf("%s_mem%d", l, j)))
			case "gpu":
				np.Spec.Limits[corev1.ResourceName(gen.GPU)] = resource.MustParse(rapid.SampledFrom([]string{"0", "1", "2", "3"}).Draw(t, fmt.Sprintf("%s_gpu%d", l, j)))
			case "pods":
				np.Spec.Limits[corev1.ResourcePods] = resource.MustParse(rapid.SampledFrom([]string{"4", "10", "20", "120", "230"}).Draw(t, fmt.Sprintf("%s_pods%d", l, j)))
			}
		}
	}
	s := &c03bScenario{World: w}
	nr := rapid.IntRange(1, 3).Draw(t, "rounds")
	s.Rounds = make([][]int, nr)
	for i := range w.Pending {
		r := rapid.IntRange(0, nr-1).Draw(t, fmt.Sprintf("round_of_%d", i))
		s.Rounds[r] = append(s.Rounds[r], i)
	}
	s.Choices = rapid.SliceOfN(rapid.IntRange(-1, 5), 4, 4).Draw(t, "choices")
	s.Joins = rapid.SliceOfN(rapid.SampledFrom([]string{"", "", "zero", "zero", "absent", "ready"}), 4, 4).Draw(t, "joins")
	return s
}

func execC03b(s *c03bScenario, c *ev.Ctx) {
	all := s.World.Pending
	s.World.Pending = nil
	b := build(s.World, c)
	s.World.Pending = all
	w := b.W
	launchIdx := 0
	w.Provider.Choose = func(nc *v1.NodeClaim, opts []sim.LaunchOption) int {
		ch := s.Choices[launchIdx%len(s.Choices)]
		launchIdx++
		if ch >= 0 {
			return ch % len(opts)
		}
		best := 0
		for i, o := range opts {
			bi, bb := o.Type.CapacityOf(o.Offering)[corev1.ResourceCPU], opts[best].Type.CapacityOf(opts[best].Offering)[corev1.ResourceCPU]
			if bi.Cmp(bb) > 0 {
				best = i
			}
		}
		return best
	}
	lc := w.NewLifecycle(nil)
	// nodes Karpenter itself has marked for deletion are "being deleted" although the API does not show it yet
	marked := map[string]bool{}
	for _, bn := range b.Nodes {
		if bn.Spec.Marked && bn.NodeClaim != nil {
			marked[bn.NodeClaim.Name] = true
		}
	}
	_ = marked
	// usage: what the pool's NodeClaims that are not being deleted hold, launched capacity or - for a NodeClaim that
	// has not been launched yet - the largest capacity a permitted launch option would bring
	usage := func(pool string) corev1.ResourceList {
		total := corev1.ResourceList{}
		add := func(rl corev1.ResourceList) {
			for k, v := range rl {
				q := total[k]
				q.Add(v)
				total[k] = q
			}
			q := total["nodes"]
			q.Add(resource.MustParse("1"))
			total["nodes"] = q
		}
		for _, nc := range w.ListNodeClaims() {
			if nc.Labels[v1.NodePoolLabelKey] != pool || nc.DeletionTimestamp != nil || marked[nc.Name] {
				continue
			}
			if nc.Status.ProviderID != "" {
				add(nc.Status.Capacity)
				continue
			}
			worst := corev1.ResourceList{}
			nc := nc
			for _, o := range w.Provider.Permitted(&nc) {
				for k, v := range o.Type.CapacityOf(o.Offering) {
					if cur, ok := worst[k]; !ok || v.Cmp(cur) > 0 {
						worst[k] = v
					}
				}
			}
			add(worst)
		}
		return total
	}
	created, nearLimit, multi := 0, false, false
	for round, idxs := range s.Rounds {
		for _, i := range idxs {
			p := all[i].DeepCopy()
			w.Apply(p)
			b.Originals[p.UID] = p.DeepCopy()
		}
		w.Sync()
		res, err := b.Provisioner.Schedule(w.Ctx)
		if err != nil {
			c.Class("schedule_error")
			continue
		}
		names, _ := b.Provisioner.CreateNodeClaims(w.Ctx, res.NewNodeClaims)
		perPool := map[string]int{}
		for i, name := range names {
			if name == "" {
				continue
			}
			created++
			perPool[res.NewNodeClaims[i].NodePoolName]++
			w.ReconcileNodeClaim(lc, name) // launch: the provider picks
			// ... and its node may register before the next round, with the kubelet still to report what it has
			if cur := w.GetNodeClaim(name); cur != nil && cur.Status.ProviderID != "" && len(s.Joins) > 0 {
				var limited []string
				if np := b.Pools[res.NewNodeClaims[i].NodePoolName]; np != nil {
					for r := range np.Spec.Limits {
						limited = append(limited, string(r))
					}
					sort.Strings(limited)
				}
				switch s.Joins[(launchIdx+i)%len(s.Joins)] {
				case "zero":
					w.JoinNode(cur, sim.JoinOpts{ZeroResources: limited})
					w.ReconcileNodeClaim(lc, name)
					c.Class("launched_node_registered_with_unreported_resources")
				case "absent":
					w.JoinNode(cur, sim.JoinOpts{AbsentResources: []string{"*"}})
					w.ReconcileNodeClaim(lc, name)
					c.Class("launched_node_registered_with_unreported_resources")
				case "ready":
					node := w.JoinNode(cur, sim.JoinOpts{})
					w.ReconcileNodeClaim(lc, name)
					w.MakeNodeReady(node.Name, cur)
					w.ReconcileNodeClaim(lc, name)
				}
			}
		}
		// the pods that got capacity leave the pending set (they will bind); the others stay for the next round
		placed := map[types.UID]bool{}
		for _, nc := range res.NewNodeClaims {
			for _, p := range nc.Pods {
				placed[p.UID] = true
			}
		}
		for _, en := range res.ExistingNodes {
			for _, p := range en.Pods {
				placed[p.UID] = true
			}
		}
		for _, p := range w.ListPods() {
			if p.Spec.NodeName == "" && placed[p.UID] {
				p := p
				w.Remove(&p)
			}
		}
		w.Sync()
		pools := make([]string, 0, len(perPool))
		for p := range perPool {
			pools = append(pools, p)
		}
		sort.Strings(pools)
		for _, pool := range pools {
			np := b.Pools[pool]
			if np == nil {
				continue
			}
			u := usage(pool)
			multi = multi || (round > 0 && perPool[pool] > 0)
			for r, lim := range np.Spec.Limits {
				used := u[r]
				if used.Cmp(lim) > 0 {
					c.Violate("limit-exceeded:"+string(r), "round %d: pool %s created %d NodeClaim(s) and now holds %s of %s although its limit is %s", round, pool, perPool[pool], used.String(), r, lim.String())
				}
				// within one largest instance of the limit
				rem := lim.DeepCopy()
				rem.Sub(used)
				for _, it := range s.World.Catalog {
					if q, ok := sim.RL(it.Capacity)[r]; ok && q.Cmp(rem) > 0 {
						nearLimit = true
					}
				}
				if r == "nodes" && rem.Value() <= 1 {
					nearLimit = true
				}
			}
		}
	}
	c.Add("nodeclaims_created", created)
	c.ClassIf(multi, "created_in_later_round")
	c.ClassIf(nearLimit, "near_limit")
	c.NTIf(created > 0 && nearLimit)
	c.Sample(map[string]any{"rounds": len(s.Rounds), "created": created, "pools": len(s.World.Pools)})
}

var propC03b = ev.Prop[c03bScenario]{
	ID: "C03", Test: "TestC03b",
	Rule: "rapid draws a scheduler world whose 1-2 dynamic pools carry limits on 1-2 of cpu / memory / gpu / pods (node-count limits only apply to static pools) sized around a few instances of the catalog, up to 3 existing nodes and up to 12 pods arriving over 1-3 rounds; each round runs the REAL Provisioner.Schedule + CreateNodeClaims, every created NodeClaim is launched by the REAL lifecycle controller with the provider taking a generated permitted option (or the largest), and its node may register before the next round (reporting the limited resources as 0, no status at all, or everything), placed pods leave, cluster state is re-synced; " +
		"oracle after every round, for every pool that created a NodeClaim in it and every limited resource: the capacity of the pool's NodeClaims that are neither being deleted nor marked for deletion by Karpenter (launched capacity as the provider reported it; for a NodeClaim that could not be launched the largest capacity any permitted option would bring); <= limit; " +
		"non-trivial = NodeClaims were created for a pool that ended within one largest instance of a limit",
	Assumptions: []string{"no per-offering capacity overrides (Karpenter accounts limits on the instance type's capacity)", "pools that already exceed a limit before the history are only judged when they create more"},
	Draw:        drawC03b, Exec: execC03b, ReplayTries: 3,
}

func TestC03b(t *testing.T) { ev.Run(t, propC03b) }
