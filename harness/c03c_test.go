package harness

import (
	"fmt"
	"os"
	"sort"
	"sync"
	"sync/atomic"
	"testing"

	apierrors "k8s.io/apimachinery/pkg/api/errors"
	"k8s.io/apimachinery/pkg/api/resource"
	"pgregory.net/rapid"
	"sigs.k8s.io/controller-runtime/pkg/client"

	v1 "sigs.k8s.io/karpenter/pkg/apis/v1"
	"sigs.k8s.io/karpenter/pkg/controllers/dynamicresources/deviceallocation"
	staticdeprovisioning "sigs.k8s.io/karpenter/pkg/controllers/static/deprovisioning"
	staticprovisioning "sigs.k8s.io/karpenter/pkg/controllers/static/provisioning"
	"sigs.k8s.io/karpenter/pkg/state/virtualpods"

	"verif/harness/ev"
	"verif/harness/gen"
	"verif/harness/sim"
)

// C03c: static pools while drifted nodes are being replaced - the number of NodeClaims that are not being deleted never
// exceeds the pool's node limit, through any history of disruption rounds, queue progress, replacement initialisation /
// loss, termination and restarts.

// c03cScenario adds the static provisioning / deprovisioning controllers to the disruption history: Extra[i] (if set)
// replaces step i.
type c03cScenario struct {
	D     *dScenario `json:"d"`
	Extra []string   `json:"extra,omitempty"` // "" | staticProvision | staticDeprovision | loseClaim | scaleUp | scaleDown | interleave | interleaveFailCreate | lostThenInterleaveFailCreate | provisionFailCreate
}

func drawC03c(t *rapid.T) *c03cScenario {
	d := drawC03cBase(t)
	s := &c03cScenario{D: d}
	for i := range d.Steps {
		e := ""
		if dpct(t, 45, fmt.Sprintf("c03c_extra%d", i)) {
			e = rapid.SampledFrom([]string{"staticProvision", "staticDeprovision", "loseClaim", "loseClaim", "loseClaim", "scaleUp", "scaleDown", "loseUnlaunchedClaim", "interleave", "interleaveFailCreate", "interleaveFailCreate", "lostThenInterleaveFailCreate", "lostThenInterleaveFailCreate", "provisionFailCreate"}).Draw(t, fmt.Sprintf("c03c_extraKind%d", i))
		}
		s.Extra = append(s.Extra, e)
	}
	return s
}

func drawC03cBase(t *rapid.T) *dScenario {
	k := defaultDKnobs()
	k.StaticPct, k.DriftPct, k.BlockerPct, k.BudgetPct, k.EarlyPct, k.EmptyNodePct = 100, 70, 3, 0, 4, 10
	k.Sched.MaxNodes, k.MinNodes, k.MaxSteps = 7, 2, 7
	k.Mutations = false
	s := drawDisrupt(t, k)
	// every static pool: replicas = its current size, node limit a little above, a generous drift budget
	for i, np := range s.World.Pools {
		n := int64(0)
		for _, nd := range s.World.Nodes {
			if nd.Pool == np.Name && !nd.ClaimDeleting {
				n++
			}
		}
		if n == 0 {
			n = 1
		}
		np.Spec.Replicas = &n
		np.Spec.Limits = v1.Limits{"nodes": resource.MustParse(fmt.Sprint(n + int64(rapid.IntRange(0, 2).Draw(t, fmt.Sprintf("c03c_headroom%d", i)))))}
		np.Spec.Disruption.Budgets = []v1.Budget{{Nodes: rapid.SampledFrom([]string{"100%", "100%", "2", "3", "50%"}).Draw(t, fmt.Sprintf("c03c_budget%d", i))}}
	}
	// the steps that matter here
	for i := range s.Steps {
		if s.Steps[i].Kind == "provision" || s.Steps[i].Kind == "mutate" {
			s.Steps[i].Kind = "disrupt"
		}
		s.Steps[i].Mut = nil
	}
	return s
}

func execC03c(cs *c03cScenario, c *ev.Ctx) {
	s := cs.D
	r := newDRun(s, c)
	w := r.b.W
	devices := deviceallocation.NewController(w.Client)
	var staticProvision *staticprovisioning.Controller
	var staticDeprovision *staticdeprovisioning.Controller
	// (re)built after every restart: the controllers hold the cluster state and the provisioner of their process
	buildStatic := func() {
		staticProvision = staticprovisioning.NewController(w.Client, w.Cluster, w.Recorder, w.Provider, r.b.Provisioner, w.Clock, devices, virtualpods.NewVirtualPodCache(w.Client))
		staticDeprovision = staticdeprovisioning.NewController(w.Client, w.Cluster, w.Provider, w.Clock, w.Recorder)
	}
	buildStatic()
	poolNames := make([]string, 0, len(r.b.Pools))
	for n := range r.b.Pools {
		poolNames = append(poolNames, n)
	}
	sort.Strings(poolNames)
	getPool := func(name string) *v1.NodePool {
		np := &v1.NodePool{}
		var err error
		w.Quiet(func() { err = w.Client.Get(w.Ctx, client.ObjectKey{Name: name}, np) })
		if err != nil {
			return nil
		}
		return np
	}
	// provisionAll reconciles the static provisioning controller for every pool; failCreate fails its first NodeClaim create
	provisionAll := func(failCreate bool) {
		if failCreate {
			w.Faults = append(w.Faults, &sim.Fault{N: 1, Err: apierrors.NewInternalError(fmt.Errorf("injected 500")), Match: func(cl *sim.Call) bool { return cl.Verb == "create" && cl.Kind == "NodeClaim" }})
		}
		for _, n := range poolNames {
			if np := getPool(n); np != nil && np.Spec.Replicas != nil {
				_, _ = staticProvision.Reconcile(w.Ctx, np)
			}
		}
		w.Faults = nil
		w.Sync()
	}
	staticCreates := 0
	limits := map[string]int64{}
	for _, np := range r.b.Pools {
		if np.Spec.Replicas != nil {
			if q, ok := np.Spec.Limits["nodes"]; ok {
				limits[np.Name] = q.Value()
			}
		}
	}
	count := func(pool string) int64 {
		n := int64(0)
		for _, nc := range w.ListNodeClaims() {
			if nc.Labels[v1.NodePoolLabelKey] == pool && nc.DeletionTimestamp == nil {
				n++
			}
		}
		return n
	}
	// pools that start above their limit (generated that way by deleting claims etc.) are not judged
	judged := map[string]bool{}
	for pool, lim := range limits {
		judged[pool] = count(pool) <= lim
	}
	// one permanent monitor, armed by the interleave steps (the monitor list itself is never modified while controllers run)
	armed, fired, armedExtra := false, false, ""
	var interleaveMu sync.Mutex // the disruption controller starts its commands in parallel goroutines
	var interleaveBusy atomic.Bool
	w.Monitors = append(w.Monitors, func(_ *sim.World, cl *sim.Call) {
		if interleaveBusy.Load() {
			return // a write of the interleaved static provisioning itself, or of a parallel worker meanwhile
		}
		interleaveMu.Lock()
		if !armed || fired || !r.inCtrl.Load() {
			interleaveMu.Unlock()
			return
		}
		// ... the first write issued while some static pool has a NodeClaim pending disruption
		held := false
		for _, n := range poolNames {
			if _, _, p := w.Cluster.NodePoolState.GetNodeCount(n); p > 0 {
				held = true
			}
		}
		if !held {
			interleaveMu.Unlock()
			return
		}
		fired = true
		interleaveBusy.Store(true)
		interleaveMu.Unlock()
		defer interleaveBusy.Store(false)
		was := r.inCtrl.Load()
		r.inCtrl.Store(false)
		before := len(w.ListNodeClaims())
		if os.Getenv("VERIF_DBG") != "" {
			for _, n := range poolNames {
				a, d, p := w.Cluster.NodePoolState.GetNodeCount(n)
				fmt.Printf("C03DBG step %d %s pool %s active=%d deleting=%d pending=%d replicas=%v limit=%d call=%s\n", r.step, armedExtra, n, a, d, p, *getPool(n).Spec.Replicas, limits[n], cl.String())
			}
		}
		provisionAll(armedExtra == "interleaveFailCreate")
		if armedExtra == "interleaveFailCreate" {
			provisionAll(false) // the failed reconcile is retried while the disruption pass is still going
		}
		staticCreates += len(w.ListNodeClaims()) - before
		r.inCtrl.Store(was)
		c.Class("static_provisioning_interleaved")
	})
	replaced, atLimit := false, false
	for i, st := range s.Steps {
		r.step = i
		c.Class("step:" + st.Kind)
		extra := ""
		if i < len(cs.Extra) {
			extra = cs.Extra[i]
		}
		if extra != "" {
			c.Class("extra:" + extra)
		}
		switch extra {
		case "staticProvision", "provisionFailCreate":
			before := len(w.ListNodeClaims())
			provisionAll(extra == "provisionFailCreate")
			staticCreates += len(w.ListNodeClaims()) - before
		case "staticDeprovision":
			for _, n := range poolNames {
				if np := getPool(n); np != nil && np.Spec.Replicas != nil {
					w.Quiet(func() { _, _ = staticDeprovision.Reconcile(w.Ctx, np) })
				}
			}
			w.Sync()
		case "loseUnlaunchedClaim":
			// static provisioning has just created NodeClaims; one of them is removed before it was launched
			provisionAll(false)
			for _, nc := range w.ListNodeClaims() {
				if np := r.b.Pools[nc.Labels[v1.NodePoolLabelKey]]; np != nil && np.Spec.Replicas != nil && nc.DeletionTimestamp == nil && nc.Status.ProviderID == "" {
					nc := nc
					w.Remove(&nc)
					c.Class("unlaunched_static_claim_removed")
					break
				}
			}
			w.Sync()
		case "loseClaim":
			// a NodeClaim of a static pool is deleted by somebody (its termination is left to the later steps)
			for _, nc := range w.ListNodeClaims() {
				if np := r.b.Pools[nc.Labels[v1.NodePoolLabelKey]]; np != nil && np.Spec.Replicas != nil && nc.DeletionTimestamp == nil {
					// half of the time the termination has already completed: the NodeClaim and its Node are gone
					nc := nc
					if i%2 == 0 {
						for _, n := range w.ListNodes() {
							if n.Spec.ProviderID == nc.Status.ProviderID && nc.Status.ProviderID != "" {
								n := n
								w.Remove(&n)
							}
						}
						w.Remove(&nc)
					} else {
						w.Quiet(func() { _ = w.Client.Delete(w.Ctx, &nc) })
					}
					break
				}
			}
			w.Sync()
		case "scaleUp", "scaleDown":
			for _, n := range poolNames {
				if np := getPool(n); np != nil && np.Spec.Replicas != nil {
					v := *np.Spec.Replicas + 1
					if extra == "scaleDown" {
						v = *np.Spec.Replicas - 1
					}
					if v >= 1 && v <= limits[n] {
						np.Spec.Replicas = &v
						w.Apply(np)
						r.b.Pools[n] = np
					}
					break
				}
			}
			w.Sync()
		case "interleave", "interleaveFailCreate", "lostThenInterleaveFailCreate":
			if extra == "lostThenInterleaveFailCreate" {
				// a node of the pool was lost moments ago (its NodeClaim and Node are gone): the pool is short of its replicas
				// when the disruption pass starts
				for _, nc := range w.ListNodeClaims() {
					if np := r.b.Pools[nc.Labels[v1.NodePoolLabelKey]]; np != nil && np.Spec.Replicas != nil && nc.DeletionTimestamp == nil && !nc.StatusConditions().IsTrue(v1.ConditionTypeDrifted) {
						nc := nc
						for _, n := range w.ListNodes() {
							if n.Spec.ProviderID == nc.Status.ProviderID && nc.Status.ProviderID != "" {
								n := n
								w.Remove(&n)
							}
						}
						w.Remove(&nc)
						break
					}
				}
				w.Sync()
				extra = "interleaveFailCreate"
			}
			// the static provisioning controller runs WHILE the disruption controller is in the middle of a pass: at
			// the instant of its first API write (StaticDrift holds its node-count reservation by then)
			armed, fired, armedExtra = true, false, extra
			r.disruptOnce(nil)
			armed = false
		}
		if extra != "" {
			// the extra step replaces the drawn one
		} else {
			switch st.Kind {
			case "disrupt":
				r.disruptOnce(nil)
			case "advance":
				w.Clock.Step(gen.Seconds(st.Sec))
			case "queue":
				r.runQueue()
			case "init":
				r.initReplacements()
			case "lose":
				r.loseReplacement()
			case "finish":
				r.finishDeleting()
			case "restart":
				r.restart()
				buildStatic()
			}
		}
		for pool, lim := range limits {
			if !judged[pool] {
				continue
			}
			n := count(pool)
			if n == lim {
				atLimit = true
			}
			if n > lim {
				c.Violate("static-pool-over-node-limit", "step %d (%s): static pool %s holds %d NodeClaims that are not being deleted, its node limit is %d (replicas %d)", i, st.Kind, pool, n, lim, *r.b.Pools[pool].Spec.Replicas)
			}
		}
	}
	// ---- settle: with no further third-party events, every controller gets its turn a few times: replacements
	// initialise, the queue finishes its commands, deleted nodes terminate, static provisioning and deprovisioning
	// reconcile. Every judged static pool then holds exactly its replica count.
	for round := 0; round < 6; round++ {
		r.initReplacements()
		r.runQueue()
		r.finishDeleting()
		provisionAll(false)
		for _, n := range poolNames {
			if np := getPool(n); np != nil && np.Spec.Replicas != nil {
				w.Quiet(func() { _, _ = staticDeprovision.Reconcile(w.Ctx, np) })
			}
		}
		w.Sync()
	}
	// nodes that the generated world marks for deletion without a command that owns the mark stay marked for good
	orphanMark := map[string]bool{}
	for _, nd := range s.World.Nodes {
		if nd.Marked {
			orphanMark[nd.Pool] = true
		}
	}
	if len(r.queue.GetCommands()) == 0 {
		for _, pool := range poolNames {
			np := getPool(pool)
			if np == nil || np.Spec.Replicas == nil || !judged[pool] || orphanMark[pool] {
				continue
			}
			c.Class("settled_pool_judged")
			if n := count(pool); n != *np.Spec.Replicas {
				a, d, p := w.Cluster.NodePoolState.GetNodeCount(pool)
				c.Violate("static-pool-not-settled-at-replicas", "after the history and 6 quiet rounds of every controller, static pool %s holds %d NodeClaims that are not being deleted, replicas is %d (node limit %d; the pool state counts active=%d deleting=%d pending=%d)", pool, n, *np.Spec.Replicas, limits[pool], a, d, p)
			}
		}
	}
	for _, rd := range r.rounds {
		if rd.Method == "StaticDrift" && len(rd.Cmds) > 0 {
			replaced = true
		}
	}
	c.ClassIf(staticCreates > 0, "static_provisioning_created_claims")
	c.ClassIf(replaced, "static_drift_replacement")
	c.ClassIf(atLimit, "pool_at_limit")
	c.NTIf(replaced)
	c.Sample(map[string]any{"nodes": len(s.World.Nodes), "steps": len(s.Steps), "limits": limits})
}

var propC03c = ev.Prop[c03cScenario]{
	ID: "C03", Test: "TestC03c",
	Rule: "rapid draws a disruption world whose pools are all static (replicas = current size, node limit = replicas + 0..2, drift budget 100% / 50% / 2 / 3), most nodes drifted, and a history of 1-7 steps {disruption reconcile, queue reconcile, replacement initialisation / loss, node termination, clock advance, restart, static provisioning reconcile (optionally with its first NodeClaim create failing), static deprovisioning reconcile, a NodeClaim deleted by a third party, a NodeClaim that static provisioning just created removed before it launched, replicas +-1, a disruption reconcile DURING which - at its first API write, when StaticDrift holds its node-count reservation - the static provisioning controller runs (optionally with a failing create)}; the REAL disruption controller (StaticDrift), queue, provisioner, lifecycle, static provisioning and static deprovisioning controllers run; " +
		"oracle after every step: the NodeClaims of each static pool that are not being deleted number at most the pool's node limit; at the end, after six quiet rounds of every controller (replacements initialise, queue, terminations finish, static provisioning and deprovisioning) and with no command left in the queue, each such pool holds exactly its replica count; non-trivial = StaticDrift issued at least one replacement command",
	Assumptions: []string{"pools that start above their limit are not judged", "pools with a node the generated world marks for deletion without an owning command are not judged for settling", "interleavings of the two controllers are explored at one point only: the first API write of a disruption pass"},
	Draw:        drawC03c, Exec: execC03c, ReplayTries: 3,
}

func TestC03c(t *testing.T) { ev.Run(t, propC03c) }
