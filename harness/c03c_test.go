package harness

import (
	"fmt"
	"testing"

	"k8s.io/apimachinery/pkg/api/resource"
	"pgregory.net/rapid"

	v1 "sigs.k8s.io/karpenter/pkg/apis/v1"

	"verif/harness/ev"
	"verif/harness/gen"
)

// C03c: static pools while drifted nodes are being replaced - the number of NodeClaims that are not being deleted never
// exceeds the pool's node limit, through any history of disruption rounds, queue progress, replacement initialisation /
// loss, termination and restarts.

func drawC03c(t *rapid.T) *dScenario {
	k := defaultDKnobs()
	k.StaticPct, k.DriftPct, k.BlockerPct, k.BudgetPct, k.EarlyPct, k.EmptyNodePct = 100, 70, 3, 0, 4, 10
	k.Sched.MaxNodes, k.MinNodes, k.MaxSteps = 7, 2, 7
	k.Mutations = false
	s := drawDisrupt(t, k)
	// every static pool: replicas = its current size, node limit a little above, a generous drift budget
	for i, np := range s.World.Pools {
		n := int64(0)
		for _, nd := range s.World.Nodes {
			if nd.Pool == np.Name && !nd.ClaimDeleting {
				n++
			}
		}
		if n == 0 {
			n = 1
		}
		np.Spec.Replicas = &n
		np.Spec.Limits = v1.Limits{"nodes": resource.MustParse(fmt.Sprint(n + int64(rapid.IntRange(0, 2).Draw(t, fmt.Sprintf("c03c_headroom%d", i)))))}
		np.Spec.Disruption.Budgets = []v1.Budget{{Nodes: rapid.SampledFrom([]string{"100%", "100%", "2", "3", "50%"}).Draw(t, fmt.Sprintf("c03c_budget%d", i))}}
	}
	// the steps that matter here
	for i := range s.Steps {
		if s.Steps[i].Kind == "provision" || s.Steps[i].Kind == "mutate" {
			s.Steps[i].Kind = "disrupt"
		}
		s.Steps[i].Mut = nil
	}
	return s
}

func execC03c(s *dScenario, c *ev.Ctx) {
	r := newDRun(s, c)
	w := r.b.W
	limits := map[string]int64{}
	for _, np := range r.b.Pools {
		if np.Spec.Replicas != nil {
			if q, ok := np.Spec.Limits["nodes"]; ok {
				limits[np.Name] = q.Value()
			}
		}
	}
	count := func(pool string) int64 {
		n := int64(0)
		for _, nc := range w.ListNodeClaims() {
			if nc.Labels[v1.NodePoolLabelKey] == pool && nc.DeletionTimestamp == nil {
				n++
			}
		}
		return n
	}
	// pools that start above their limit (generated that way by deleting claims etc.) are not judged
	judged := map[string]bool{}
	for pool, lim := range limits {
		judged[pool] = count(pool) <= lim
	}
	replaced, atLimit := false, false
	for i, st := range s.Steps {
		r.step = i
		c.Class("step:" + st.Kind)
		switch st.Kind {
		case "disrupt":
			r.disruptOnce(nil)
		case "advance":
			w.Clock.Step(gen.Seconds(st.Sec))
		case "queue":
			r.runQueue()
		case "init":
			r.initReplacements()
		case "lose":
			r.loseReplacement()
		case "finish":
			r.finishDeleting()
		case "restart":
			r.restart()
		}
		for pool, lim := range limits {
			if !judged[pool] {
				continue
			}
			n := count(pool)
			if n == lim {
				atLimit = true
			}
			if n > lim {
				c.Violate("static-pool-over-node-limit", "step %d (%s): static pool %s holds %d NodeClaims that are not being deleted, its node limit is %d (replicas %d)", i, st.Kind, pool, n, lim, *r.b.Pools[pool].Spec.Replicas)
			}
		}
	}
	for _, rd := range r.rounds {
		if rd.Method == "StaticDrift" && len(rd.Cmds) > 0 {
			replaced = true
		}
	}
	c.ClassIf(replaced, "static_drift_replacement")
	c.ClassIf(atLimit, "pool_at_limit")
	c.NTIf(replaced)
	c.Sample(map[string]any{"nodes": len(s.World.Nodes), "steps": len(s.Steps), "limits": limits})
}

var propC03c = ev.Prop[dScenario]{
	ID: "C03", Test: "TestC03c",
	Rule: "rapid draws a disruption world whose pools are all static (replicas = current size, node limit = replicas + 0..2, drift budget 100% / 50% / 2 / 3), most nodes drifted, and a history of 1-7 steps {disruption reconcile, queue reconcile, replacement initialisation / loss, node termination, clock advance, restart}; the REAL disruption controller (StaticDrift), queue, provisioner and lifecycle controller run; " +
		"oracle after every step: the NodeClaims of each static pool that are not being deleted number at most the pool's node limit; non-trivial = StaticDrift issued at least one replacement command",
	Assumptions: []string{"pools that start above their limit are not judged", "the static provisioning / deprovisioning controllers are not part of this world (replica maintenance is covered by the NodePoolState model of C03a)"},
	Draw:        drawC03c, Exec: execC03c, ReplayTries: 3,
}

func TestC03c(t *testing.T) { ev.Run(t, propC03c) }
