package harness

import (
	"fmt"
	"k8s.io/apimachinery/pkg/api/resource"
	metav1 "k8s.io/apimachinery/pkg/apis/meta/v1"
	"os"
	"sort"
	"strings"
	"testing"
	"time"

	corev1 "k8s.io/api/core/v1"
	"k8s.io/apimachinery/pkg/types"
	"pgregory.net/rapid"
	"sigs.k8s.io/controller-runtime/pkg/client"

	v1 "sigs.k8s.io/karpenter/pkg/apis/v1"
	pscheduling "sigs.k8s.io/karpenter/pkg/controllers/provisioning/scheduling"

	"verif/harness/ev"
	"verif/harness/gen"
	"verif/harness/ref"
	"verif/harness/sim"
)

// C04: new capacity is opened only when existing / in-flight capacity cannot admit the pod.

var dbgC04 interface{ Logf(string, ...any) }

const stageBound = "bound" // initialized and the pass-1 pods already run there

type c04Scenario struct {
	World   *gen.SchedWorld `json:"world"`
	Stages  []string        `json:"stages"`  // lifecycle point of the i-th created NodeClaim when pass 2 runs
	Choices []int           `json:"choices"` // which permitted (type, offering) the provider launches
	ZeroRes []string        `json:"zeroRes"` // resource the kubelet has not reported yet (per claim, "" = none)
	Extra   []*corev1.Pod   `json:"extra"`   // pods that arrive between the passes
	// TaintStyles: how the node's agent wrote the startup taints (per claim: "", value, timeAdded)
	TaintStyles []string `json:"taintStyles,omitempty"`
	// MidWindow: another controller creates a NodeClaim while pass 2 sits in its batching window
	MidWindow bool `json:"midWindow,omitempty"`
}

func c04Knobs() gen.Knobs {
	k := gen.DefaultKnobs()
	k.NoPrefs, k.NoMinValues, k.NoLimits, k.InterPod = true, true, true, 0
	k.NoSoftTaints = true
	// no per-offering capacity / overhead overrides: with them the provider may launch an offering of a kept type on
	// which the pod does not fit (C01 territory), and pass 2 then rightly opens capacity again
	k.Overrides = false
	k.MaxNodes = 3
	k.MaxPending = 6
	k.EasyPods = true
	return k
}

func drawC04(t *rapid.T) *c04Scenario {
	k := c04Knobs()
	s := &c04Scenario{World: gen.World(t, k)}
	s.World.Options.ReservedCapacity = false
	stages := []string{sim.StageUnlaunched, sim.StageLaunched, sim.StageLaunched, sim.StageUnregistered, sim.StageRegistered, sim.StageRegistered, sim.StageInitialized, stageBound}
	for i := 0; i < 6; i++ {
		s.Stages = append(s.Stages, rapid.SampledFrom(stages).Draw(t, "stage"))
		s.Choices = append(s.Choices, rapid.IntRange(0, 11).Draw(t, "choice"))
		s.ZeroRes = append(s.ZeroRes, rapid.SampledFrom([]string{"", "", "memory", "pods", gen.GPU, "absent:memory", "absent:" + gen.GPU, "absent:*", "absent:cpu"}).Draw(t, "zeroRes"))
		s.TaintStyles = append(s.TaintStyles, rapid.SampledFrom([]string{"", "", "", "value", "timeAdded"}).Draw(t, "taintStyle"))
	}
	n := rapid.IntRange(0, 3).Draw(t, "nExtra")
	for i := 0; i < n; i++ {
		p := gen.PendingPod(t, 50+i, k)
		p.Name = fmt.Sprintf("extra-%02d", i)
		p.UID = types.UID(fmt.Sprintf("extra-uid-%02d", i))
		s.Extra = append(s.Extra, p)
	}
	s.MidWindow = dpct(t, 20, "midWindowClaim")
	// finished pods that still sit on their nodes and asked for a lot: the room they held is free again
	for i, nd := range s.World.Nodes {
		if dpct(t, 35, fmt.Sprintf("node%d_finishedPod", i)) {
			p := sim.Bound(&corev1.Pod{ObjectMeta: metav1.ObjectMeta{Name: fmt.Sprintf("done-%02d", i), Namespace: "default", UID: types.UID(fmt.Sprintf("done-uid-%02d", i)), Labels: map[string]string{"app": "job"},
				OwnerReferences: []metav1.OwnerReference{{APIVersion: "batch/v1", Kind: "Job", Name: "job", UID: "job-uid", Controller: lo_ptr(true)}}},
				Spec: corev1.PodSpec{Tolerations: []corev1.Toleration{{Operator: corev1.TolerationOpExists}}, Containers: []corev1.Container{{Name: "c", Image: "img", Resources: corev1.ResourceRequirements{Requests: corev1.ResourceList{
					corev1.ResourceCPU: resource.MustParse(rapid.SampledFrom([]string{"500m", "1", "2", "3500m"}).Draw(t, fmt.Sprintf("node%d_finishedCPU", i))), corev1.ResourceMemory: resource.MustParse("1Gi")}}}}}}, nd.Name)
			p.Status.Phase = rapid.SampledFrom([]corev1.PodPhase{corev1.PodSucceeded, corev1.PodFailed}).Draw(t, fmt.Sprintf("node%d_finishedPhase", i))
			s.World.Bound = append(s.World.Bound, p)
		}
	}
	return s
}

func execC04(s *c04Scenario, c *ev.Ctx) {
	b := build(s.World, c)
	w := b.W
	claimIdx := map[string]int{}
	w.Provider.Choose = func(nc *v1.NodeClaim, opts []sim.LaunchOption) int {
		return s.Choices[claimIdx[nc.Name]%len(s.Choices)]
	}

	// ---- pass 1 ----
	res1, err := b.Provisioner.Schedule(w.Ctx)
	if err != nil {
		c.Class("schedule_error")
		return
	}
	placed1 := map[types.UID]bool{}
	existingHome := map[types.UID]string{} // pass-1 pods that were put on an existing node: the node's state name
	for _, en := range res1.ExistingNodes {
		for _, p := range en.Pods {
			placed1[p.UID] = true
			existingHome[p.UID] = en.Name()
		}
	}
	claimPods := map[string][]*corev1.Pod{}
	for _, nc := range res1.NewNodeClaims {
		for _, p := range nc.Pods {
			placed1[p.UID] = true
		}
	}
	pods1 := make([][]*corev1.Pod, len(res1.NewNodeClaims))
	for i, nc := range res1.NewNodeClaims {
		pods1[i] = append([]*corev1.Pod{}, nc.Pods...)
	}
	names, err := b.Provisioner.CreateNodeClaims(w.Ctx, res1.NewNodeClaims)
	if err != nil {
		c.Class("create_error")
	}
	// ---- the node lifecycle runs up to a generated point per NodeClaim ----
	lc := w.NewLifecycle(nil)
	anyUnlaunched := false
	inflightWithPods := false
	for i, name := range names {
		if name == "" {
			continue
		}
		claimIdx[name] = i
		claimPods[name] = pods1[i]
		stage := s.Stages[i%len(s.Stages)]
		c.Class("stage:" + stage)
		if stage == sim.StageUnlaunched {
			anyUnlaunched = true
			continue
		}
		if _, _, ok := w.ReconcileNodeClaim(lc, name); !ok {
			continue
		}
		nc := w.GetNodeClaim(name)
		if nc == nil || nc.Status.ProviderID == "" {
			// launch failed (e.g. nothing permitted): the claim is being deleted / stays unlaunched
			if nc != nil && nc.DeletionTimestamp.IsZero() {
				anyUnlaunched = true
			}
			c.Class("launch_failed")
			continue
		}
		if len(pods1[i]) > 0 && stage != stageBound {
			inflightWithPods = true
		}
		if stage == sim.StageLaunched {
			continue
		}
		var zero []string
		if z := s.ZeroRes[i%len(s.ZeroRes)]; z != "" && stage != sim.StageInitialized && stage != stageBound {
			zero = []string{z}
		}
		var absent []string
		if len(zero) == 1 && strings.HasPrefix(zero[0], "absent:") {
			absent, zero = []string{strings.TrimPrefix(zero[0], "absent:")}, nil
		}
		style := ""
		if len(s.TaintStyles) > 0 {
			style = s.TaintStyles[i%len(s.TaintStyles)]
		}
		node := w.JoinNode(nc, sim.JoinOpts{Ready: false, ZeroResources: zero, AbsentResources: absent, StartupTaintStyle: style})
		if stage == sim.StageUnregistered {
			continue
		}
		w.ReconcileNodeClaim(lc, name) // registration
		if stage == sim.StageRegistered {
			continue
		}
		w.MakeNodeReady(node.Name, nc)
		w.ReconcileNodeClaim(lc, name) // initialization
		if stage == stageBound {
			for _, p := range pods1[i] {
				w.BindPod(client.ObjectKeyFromObject(p), node.Name)
			}
		}
	}
	for _, p := range s.Extra {
		p = p.DeepCopy()
		w.Apply(p)
		b.Originals[p.UID] = p.DeepCopy()
	}
	w.Sync()
	// every node that was there from the start reports in once more between the passes (a kubelet heartbeat that
	// touches the object): the cluster state rebuilds the node's usage from the pods bound to it
	for _, nd := range s.World.Nodes {
		if w.UpdateNode(nd.Name, func(n *corev1.Node) {
			if n.Annotations == nil {
				n.Annotations = map[string]string{}
			}
			n.Annotations["sim.verif/heartbeat"] = "2"
		}) != nil {
			// only this Node event is delivered (informers deliver changes, not the whole cluster again)
			_, _ = w.InformerDeliver("Node", types.NamespacedName{Name: nd.Name})
			c.Count("existing_node_heartbeat")
		}
	}
	extra := map[types.UID]bool{}
	for _, p := range s.Extra {
		extra[p.UID] = true
	}

	// ---- pass 2 ----
	if anyUnlaunched {
		// (iii) no scheduling pass while a NodeClaim Karpenter created has not been launched
		c.Class("pass2_with_unlaunched_claim")
		before := len(w.ListNodeClaims())
		w.ResetCalls()
		b.Provisioner.Trigger("pass-2")
		w.RunBlocking(func() { _, _ = b.Provisioner.Reconcile(w.Ctx) }, 2*time.Second, nil)
		for _, call := range w.Writes() {
			if call.Verb == "create" && call.Kind == "NodeClaim" {
				c.Violate("pass-while-unlaunched", "Provisioner.Reconcile created NodeClaim %s while an earlier NodeClaim has no provider id yet", call.Key)
			}
		}
		if after := len(w.ListNodeClaims()); after > before {
			c.Violate("pass-while-unlaunched", "NodeClaims grew from %d to %d while an earlier NodeClaim was not launched", before, after)
		}
		c.NTIf(len(names) > 0)
		return
	}
	if s.MidWindow && len(b.Pools) > 0 {
		// (iii') the unlaunched NodeClaim appears while the pass waits out its batching window (another controller - static
		// provisioning, a disruption replacement - created it): the pass that follows the window creates nothing
		poolNames := make([]string, 0, len(b.Pools))
		for n := range b.Pools {
			poolNames = append(poolNames, n)
		}
		sort.Strings(poolNames)
		pool := b.Pools[poolNames[0]]
		intruder := &v1.NodeClaim{ObjectMeta: metav1.ObjectMeta{Name: "mid-window-claim", Labels: map[string]string{v1.NodePoolLabelKey: pool.Name}},
			Spec: v1.NodeClaimSpec{NodeClassRef: pool.Spec.Template.Spec.NodeClassRef, Requirements: pool.Spec.Template.Spec.Requirements}}
		w.ResetCalls()
		b.Provisioner.Trigger("pass-2")
		injected := false
		w.RunBlocking(func() { _, _ = b.Provisioner.Reconcile(w.Ctx) }, 2*time.Second, func(n int) {
			if !injected {
				injected = true
				w.Quiet(func() { _ = w.Client.Create(w.Ctx, intruder) })
				w.Sync()
			}
		})
		c.ClassIf(injected, "claim_created_during_batching_window")
		for _, call := range w.Writes() {
			if call.Verb == "create" && call.Kind == "NodeClaim" && call.Key != intruder.Name && injected {
				c.Violate("pass-while-unlaunched:created-during-window", "Provisioner.Reconcile created NodeClaim %s although another controller created NodeClaim %s during the batching window and it has no provider id yet", call.Key, intruder.Name)
			}
		}
		// would the pass have opened capacity at all?
		if cur := w.GetNodeClaim(intruder.Name); cur != nil {
			w.Remove(cur)
		}
		w.Sync()
		if res, err := b.Provisioner.Schedule(w.Ctx); err == nil {
			c.NTIf(injected && len(res.NewNodeClaims) > 0)
			c.ClassIf(injected && len(res.NewNodeClaims) > 0, "blocked_pass_wanted_new_capacity")
		}
		return
	}
	res2, err := b.Provisioner.Schedule(w.Ctx)
	if err != nil {
		c.Class("schedule2_error")
		return
	}
	if dbgC04 != nil {
		for _, nc := range w.ListNodeClaims() {
			dbgC04.Logf("claim %s labels=%v status=%+v reqs=%v", nc.Name, nc.Labels, nc.Status, nc.Spec.Requirements)
		}
		for _, en := range res2.ExistingNodes {
			dbgC04.Logf("pass2 existing %s pods=%s taints=%v avail=%v", en.Name(), shortPods(en.Pods), en.Taints(), en.Available())
		}
		for _, nc := range res2.NewNodeClaims {
			dbgC04.Logf("pass2 new %s pods=%s", nc.NodePoolName, shortPods(nc.Pods))
		}
		for p, e := range res2.PodErrors {
			dbgC04.Logf("pass2 err %s: %v", p.Name, e)
		}
	}
	b.refreshNodes()
	if os.Getenv("VERIF_DBG") != "" {
		for _, en := range res1.ExistingNodes {
			if len(en.Pods) > 0 {
				fmt.Println("P1 EXISTING", en.Name(), shortPods(en.Pods))
			}
		}
		for i, nc := range res1.NewNodeClaims {
			fmt.Println("P1 NEW", names[i], nc.NodePoolName, shortPods(pods1[i]))
		}
		for p, e := range res1.PodErrors {
			fmt.Println("P1 ERR", p.Name, e)
		}
		for _, en := range res2.ExistingNodes {
			fmt.Println("P2 EXISTING", en.Name(), shortPods(en.Pods), "init", en.Initialized(), "avail", en.Available())
		}
		for _, nc := range res2.NewNodeClaims {
			fmt.Println("P2 NEW", nc.NodePoolName, shortPods(nc.Pods), nc.Requirements)
		}
		for p, e := range res2.PodErrors {
			fmt.Println("P2 ERR", p.Name, e)
		}
	}
	// did a pod that found no home in pass 1 take room on existing capacity now? then pass-1 pods may legitimately move
	stolen := false
	for _, en := range res2.ExistingNodes {
		for _, p := range en.Pods {
			if !placed1[p.UID] {
				// a pod without a home after pass 1 (rejected then, or newly arrived) competes for the same room
				stolen = true
			}
		}
	}
	c.ClassIf(stolen, "other_pod_took_existing_room_in_pass2")
	// (i) capacity that is still starting is not duplicated
	// which pass-1 NodeClaims received, in pass 2, a pod that pass 1 had put elsewhere (pods swapping in-flight nodes)?
	claimOf := map[types.UID]string{}
	for name, pods := range claimPods {
		for _, p := range pods {
			claimOf[p.UID] = name
		}
	}
	intruded := map[string]bool{}
	intrudedExisting := map[string]bool{} // existing nodes (by state name) that took, in pass 2, a pass-1 pod from elsewhere
	for _, en := range res2.ExistingNodes {
		for _, p := range en.Pods {
			if placed1[p.UID] && existingHome[p.UID] != en.Name() {
				intrudedExisting[en.Name()] = true
			}
		}
		bn := b.nodeByStateName(en.Name())
		if bn == nil || bn.NodeClaim == nil {
			continue
		}
		for _, p := range en.Pods {
			if placed1[p.UID] && claimOf[p.UID] != bn.NodeClaim.Name {
				intruded[bn.NodeClaim.Name] = true
			}
		}
	}
	// pass 1 may have launched the pod's NodeClaim as something the pod does not actually accept (the presence-loss
	// defect recorded under C12 / C01: e.g. family Exists with the pool's family NotIn [..] lands on a type without the
	// label); pass 2 judges the started node by its real labels, rejects it and opens capacity again
	misplacedInPass1 := func(p *corev1.Pod) bool {
		name := claimOf[p.UID]
		if name == "" {
			return false
		}
		bn := b.nodeByStateName(name)
		if bn == nil {
			return false
		}
		view, _ := b.existingNodeView(bn)
		orig := b.originals([]*corev1.Pod{p})[0]
		return !ref.MatchesNodeAffinity(orig, view) && ref.MatchesUnderPresenceLoss(orig, view.Labels, b.poolPrims(bn.Spec.Pool))
	}
	// ... or the started node only satisfies a LATER OR-ed term of the pod: Karpenter treats the terms as an ordered
	// preference and tries the first term on new capacity before a later term on existing capacity (known finding)
	onlyLaterTerm := func(p *corev1.Pod) bool {
		home := claimOf[p.UID]
		if home == "" {
			home = existingHome[p.UID]
		}
		bn := b.nodeByStateName(home)
		if home == "" || bn == nil {
			return false
		}
		view, _ := b.existingNodeView(bn)
		orig := b.originals([]*corev1.Pod{p})[0]
		first := firstTermOnly(orig)
		return first != nil && ref.MatchesNodeAffinity(orig, view) && !ref.MatchesNodeAffinity(first, view)
	}
	sigFor := func(base string, p *corev1.Pod) string {
		if intruded[claimOf[p.UID]] || (existingHome[p.UID] != "" && intrudedExisting[existingHome[p.UID]]) {
			return base + ":inflight-room-taken-by-other-pass1-pod"
		}
		if misplacedInPass1(p) {
			return base + ":pass1-node-lacks-required-label:presence-lost"
		}
		if onlyLaterTerm(p) {
			return base + ":via-later-or-term"
		}
		return base
	}
	for _, nc := range res2.NewNodeClaims {
		for _, p := range nc.Pods {
			if placed1[p.UID] && !stolen {
				c.Violate(sigFor("duplicate-capacity", p), "pod %s was given capacity in pass 1 (%s) and pass 2 opens another NodeClaim (pool %s) for it", p.Name, whereWas(p, claimPods), nc.NodePoolName)
			}
		}
	}
	for p, e := range res2.PodErrors {
		if placed1[p.UID] && !stolen {
			c.Violate(sigFor("pass1-pod-unschedulable-in-pass2", p), "pod %s was placed in pass 1 (%s) but pass 2 cannot place it: %v", p.Name, whereWas(p, claimPods), e)
		}
	}
	// (ii) an extra pod opens capacity only if no active existing node admits it in the final state
	for _, nc := range res2.NewNodeClaims {
		for _, p := range nc.Pods {
			if !extra[p.UID] {
				continue
			}
			orig := b.Originals[p.UID]
			for _, bn := range b.Nodes {
				if bn.Spec.Marked || bn.Spec.ClaimDeleting || bn.Spec.NodeDeleting || (bn.NodeClaim != nil && bn.NodeClaim.Status.ProviderID == "") {
					continue
				}
				view, alloc := b.existingNodeView(bn)
				residents, expected := b.residentsOf(bn.Spec.Name, view)
				for _, en := range res2.ExistingNodes {
					if b.nodeByStateName(en.Name()) == bn {
						residents = append(residents, b.originals(en.Pods)...)
					}
				}
				// a node whose residents plus still-expected daemons already over-commit some resource is full for Karpenter
				// whatever the pod asks for (resources.Fits: "if any of the total resource values are negative then the
				// resource will never fit"); that conservative rule is documented behaviour, not a C04 violation
				if ok, _ := ref.Fits(ref.SumRequests(append(append([]*corev1.Pod{}, residents...), expected...)...), alloc); !ok {
					c.Class("existing_node_overcommitted_before_pod")
					continue
				}
				if (ref.NodeCase{Node: view, Allocatable: alloc, Residents: residents, Placed: []*corev1.Pod{orig}, Expected: expected}).Admissible() == nil {
					sig := "new-capacity-although-existing-fits"
					if first := firstTermOnly(orig); first != nil && !ref.MatchesNodeAffinity(first, view) {
						sig += ":via-later-or-term"
					}
					c.Violate(sig, "pod %s was placed on a new NodeClaim (pool %s) although node %s (stage %q) admits it next to everything assigned there", p.Name, nc.NodePoolName, bn.Spec.Name, bn.Spec.Stage)
				}
			}
		}
	}
	// (iv) nodes marked for deletion are not capacity, and their pods are rescheduled
	for _, en := range res2.ExistingNodes {
		if bn := b.nodeByStateName(en.Name()); bn != nil && len(en.Pods) > 0 && (bn.Spec.Marked || bn.Spec.ClaimDeleting) {
			c.Violate("deleting-node-used", "pods %s placed on node %s, which is marked for deletion", shortPods(en.Pods), bn.Spec.Name)
		}
	}
	c.ClassIf(inflightWithPods, "inflight_claim_with_pods")
	c.ClassIf(len(s.Extra) > 0, "extra_pods")
	c.NTIf(inflightWithPods)
	c.Sample(map[string]any{"claims_pass1": len(names), "stages": s.Stages[:min(len(names), len(s.Stages))], "extra": len(s.Extra), "claims_pass2": len(res2.NewNodeClaims)})
}

// firstTermOnly returns a copy of the pod that keeps only its first required node-affinity term (nil if it has <2 terms).
func firstTermOnly(p *corev1.Pod) *corev1.Pod {
	a := p.Spec.Affinity
	if a == nil || a.NodeAffinity == nil || a.NodeAffinity.RequiredDuringSchedulingIgnoredDuringExecution == nil || len(a.NodeAffinity.RequiredDuringSchedulingIgnoredDuringExecution.NodeSelectorTerms) < 2 {
		return nil
	}
	cp := p.DeepCopy()
	cp.Spec.Affinity.NodeAffinity.RequiredDuringSchedulingIgnoredDuringExecution.NodeSelectorTerms = cp.Spec.Affinity.NodeAffinity.RequiredDuringSchedulingIgnoredDuringExecution.NodeSelectorTerms[:1]
	return cp
}

func whereWas(p *corev1.Pod, claimPods map[string][]*corev1.Pod) string {
	for name, pods := range claimPods {
		for _, q := range pods {
			if q.UID == p.UID {
				return "NodeClaim " + name
			}
		}
	}
	return "an existing node"
}

// refreshNodes registers the nodes / NodeClaims created during the history as existing nodes of the built world.
func (b *builtWorld) refreshNodes() {
	w := b.W
	known := map[string]bool{}
	for _, bn := range b.Nodes {
		if bn.NodeClaim != nil {
			known[bn.NodeClaim.Name] = true
		}
	}
	nodes := w.ListNodes()
	for _, nc := range w.ListNodeClaims() {
		nc := nc
		if known[nc.Name] {
			continue
		}
		bn := &sim.BuiltNode{NodeClaim: &nc, Spec: sim.NodeSpec{Name: nc.Name, Pool: nc.Labels[v1.NodePoolLabelKey], Stage: "created-by-karpenter"}}
		for i := range nodes {
			if nodes[i].Spec.ProviderID == nc.Status.ProviderID && nc.Status.ProviderID != "" {
				bn.Node = &nodes[i]
				bn.Spec.Name = nodes[i].Name
			}
		}
		b.Nodes[bn.Spec.Name] = bn
	}
}

var _ = pscheduling.MaxInstanceTypes

var propC04 = ev.Prop[c04Scenario]{
	ID: "C04", Test: "TestC04",
	Rule: "rapid draws a scheduler world without inter-pod constraints, preferences, soft taints, minValues, limits or reservations; pass 1 (Provisioner.Schedule + CreateNodeClaims) runs; every created NodeClaim is driven by the REAL lifecycle controller to a generated point (unlaunched, launched, node present unregistered, registered with startup taints / unreported resources, initialized, initialized+pods bound) with a generated provider launch choice; 0-3 extra pods arrive; every pre-existing node (10% of whose bound pods are Succeeded / Failed) reports in once more; pass 2 runs; " +
		"oracle: (i) no pod given capacity in pass 1 gets another NodeClaim or an error in pass 2, (ii) an extra pod gets a new NodeClaim only if no active existing / in-flight node admits it in the final state (admission oracle of C01), (iii) with an unlaunched NodeClaim present Provisioner.Reconcile creates nothing, also (20% of the cases) when another controller creates that NodeClaim while the pass sits in its batching window, (iv) nodes marked for deletion receive no pods, plus the C01 oracle on pass 2; " +
		"non-trivial = pass 2 ran with >=1 in-flight NodeClaim (not yet bound) that holds >=1 pod",
	Assumptions: []string{"limits, minValues, reservations, preferences and inter-pod constraints are excluded because the code legitimately re-opens capacity there"},
	Draw:        drawC04, Exec: execC04, ReplayTries: 5,
}

func TestC04(t *testing.T) { ev.Run(t, propC04) }
