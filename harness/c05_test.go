package harness

import (
	"fmt"
	"strings"
	"testing"
	"time"

	metav1 "k8s.io/apimachinery/pkg/apis/meta/v1"
	clocktesting "k8s.io/utils/clock/testing"
	"pgregory.net/rapid"

	v1 "sigs.k8s.io/karpenter/pkg/apis/v1"

	"verif/harness/ev"
	"verif/harness/ref"
)

// C05a: budget arithmetic and cron windows against an independent minute-scanning evaluator.

type c05aScenario struct {
	Budgets []ref.BudgetSpec `json:"budgets"`
	NowUnix int64            `json:"now"`
	Nodes   int              `json:"numNodes"`
	Reason  string           `json:"reason"`
}

var (
	c05Reasons = []string{"Underutilized", "Empty", "Drifted"}
	c05Anchors = []string{"2030-01-01T00:00:00Z", "2030-03-01T00:00:00Z", "2030-01-06T00:00:00Z", "2030-01-07T12:00:00Z", "2031-12-31T23:30:00Z", "2032-02-29T06:15:00Z", "2030-06-15T17:59:00Z"}
)

func genCronField(t *rapid.T, label string, lo, hi int, pool []int) string {
	pick := func(l string) int { return rapid.SampledFrom(pool).Draw(t, label+l) }
	switch rapid.IntRange(0, 9).Draw(t, label+"_shape") {
	case 0, 1, 2, 3:
		return "*"
	case 4, 5:
		return fmt.Sprint(pick("_v"))
	case 6:
		a, b := pick("_a"), pick("_b")
		if a > b {
			a, b = b, a
		}
		return fmt.Sprintf("%d-%d", a, b)
	case 7:
		return fmt.Sprintf("*/%d", rapid.SampledFrom([]int{1, 2, 5, 15}).Draw(t, label+"_step"))
	case 8:
		return fmt.Sprintf("%d,%d", pick("_a"), pick("_b"))
	default:
		a, b := pick("_a"), pick("_b")
		if a > b {
			a, b = b, a
		}
		return fmt.Sprintf("%d-%d/%d", a, b, rapid.SampledFrom([]int{1, 2, 3}).Draw(t, label+"_step"))
	}
}

func genSchedule(t *rapid.T, label string) string {
	switch k := rapid.IntRange(0, 11).Draw(t, label+"_kind"); {
	case k == 0:
		return rapid.SampledFrom([]string{"@yearly", "@annually", "@monthly", "@weekly", "@daily", "@midnight", "@hourly"}).Draw(t, label+"_macro")
	case k == 1:
		// named months / weekdays
		return rapid.SampledFrom([]string{"0 9 * * MON-FRI", "30 0 * JAN,JUN *", "0 0 * * sun", "15 6 1 mar *"}).Draw(t, label+"_named")
	default:
		return strings.Join([]string{
			genCronField(t, label+"_min", 0, 59, []int{0, 1, 15, 30, 59}),
			genCronField(t, label+"_hour", 0, 23, []int{0, 6, 12, 23}),
			genCronField(t, label+"_dom", 1, 31, []int{1, 2, 6, 15, 28}),
			genCronField(t, label+"_mon", 1, 12, []int{1, 2, 3, 6, 12}),
			genCronField(t, label+"_dow", 0, 6, []int{0, 1, 5, 6}),
		}, " ")
	}
}

func genBudget(t *rapid.T, label string, malformedOK bool) ref.BudgetSpec {
	b := ref.BudgetSpec{}
	switch rapid.IntRange(0, 2).Draw(t, label+"_nodesKind") {
	case 0:
		b.Nodes = fmt.Sprint(rapid.SampledFrom([]int{0, 1, 2, 3, 5, 10, 100}).Draw(t, label+"_count"))
	default:
		b.Nodes = fmt.Sprintf("%d%%", rapid.SampledFrom([]int{0, 1, 5, 10, 25, 33, 50, 99, 100}).Draw(t, label+"_pct"))
	}
	if rapid.IntRange(0, 2).Draw(t, label+"_hasReasons") == 0 {
		n := rapid.IntRange(1, 2).Draw(t, label+"_nReasons")
		seen := map[string]bool{}
		for i := 0; i < n; i++ {
			r := rapid.SampledFrom(c05Reasons).Draw(t, fmt.Sprintf("%s_reason%d", label, i))
			if !seen[r] {
				seen[r] = true
				b.Reasons = append(b.Reasons, r)
			}
		}
	}
	if rapid.IntRange(0, 3).Draw(t, label+"_hasSchedule") > 0 {
		s := genSchedule(t, label+"_sched")
		d := rapid.SampledFrom([]int{1, 5, 30, 60, 90, 600, 1440, 2880}).Draw(t, label+"_dur")
		b.Schedule, b.DurationMin = &s, &d
	}
	if malformedOK && rapid.IntRange(0, 11).Draw(t, label+"_malformed") == 0 {
		switch rapid.IntRange(0, 2).Draw(t, label+"_malformedKind") {
		case 0:
			b.Nodes = rapid.SampledFrom([]string{"abc", "", "1o%", "ten"}).Draw(t, label+"_badNodes")
		default:
			s := rapid.SampledFrom([]string{"* * *", "61 * * * *", "* 24 * * *", "* * 0 * *", "* * * 13 *", "* * * * 8", "a b c d e", "*/0 * * * *"}).Draw(t, label+"_badCron")
			d := 60
			b.Schedule, b.DurationMin = &s, &d
		}
	}
	return b
}

func drawC05a(t *rapid.T) *c05aScenario {
	s := &c05aScenario{}
	n := rapid.IntRange(1, 4).Draw(t, "nBudgets")
	for i := 0; i < n; i++ {
		s.Budgets = append(s.Budgets, genBudget(t, fmt.Sprintf("b%d", i), true))
	}
	s.Nodes = rapid.SampledFrom([]int{0, 1, 2, 3, 4, 7, 9, 10, 11, 19, 20, 21, 33, 40}).Draw(t, "numNodes")
	s.Reason = rapid.SampledFrom(c05Reasons).Draw(t, "reason")
	// pick the instant: around a window edge of one of the scheduled budgets, found with the reference evaluator
	base, _ := time.Parse(time.RFC3339, rapid.SampledFrom(c05Anchors).Draw(t, "anchor"))
	base = base.Add(time.Duration(rapid.IntRange(-3000, 3000).Draw(t, "offsetMin")) * time.Minute)
	now := base.Add(time.Duration(rapid.IntRange(0, 59).Draw(t, "sec")) * time.Second)
	for i, b := range s.Budgets {
		if b.Schedule == nil || rapid.IntRange(0, 2).Draw(t, fmt.Sprintf("edge%d", i)) == 0 {
			continue
		}
		c, err := ref.ParseCron(*b.Schedule)
		if err != nil {
			continue
		}
		if hit, ok := c.NextHit(base, 4500); ok {
			d := time.Duration(*b.DurationMin) * time.Minute
			edge := rapid.SampledFrom([]time.Duration{-time.Second, 0, time.Second, d - time.Second, d, d + time.Second, d / 2}).Draw(t, fmt.Sprintf("edgeKind%d", i))
			now = hit.Add(edge)
			break
		}
	}
	s.NowUnix = now.Unix()
	return s
}

func toBudget(b ref.BudgetSpec) v1.Budget {
	out := v1.Budget{Nodes: b.Nodes, Schedule: b.Schedule}
	for _, r := range b.Reasons {
		out.Reasons = append(out.Reasons, v1.DisruptionReason(r))
	}
	if b.DurationMin != nil {
		out.Duration = &metav1.Duration{Duration: time.Duration(*b.DurationMin) * time.Minute}
	}
	return out
}

func execC05a(s *c05aScenario, c *ev.Ctx) {
	now := time.Unix(s.NowUnix, 0).UTC()
	clk := clocktesting.NewFakeClock(now)
	np := &v1.NodePool{}
	anyBad := false
	finiteActive := false
	for i, b := range s.Budgets {
		kb := toBudget(b)
		np.Spec.Disruption.Budgets = append(np.Spec.Disruption.Budgets, kb)
		want, bad := b.Allowed(now, s.Nodes)
		anyBad = anyBad || bad
		got, err := kb.GetAllowedDisruptions(clk, s.Nodes)
		c.ClassIf(b.Schedule != nil, "scheduled")
		c.ClassIf(bad, "malformed")
		if bad {
			if err == nil || got != 0 {
				c.Violate("budget:malformed-not-zero", "budget %d %+v is malformed but GetAllowedDisruptions=(%d,%v)", i, b, got, err)
			}
			continue
		}
		if err != nil {
			c.Violate("budget:wellformed-error", "budget %d %s: unexpected error %v", i, fmtBudget(b), err)
			continue
		}
		if b.Schedule != nil {
			active, aerr := kb.IsActive(clk)
			cr, _ := ref.ParseCron(*b.Schedule)
			wantActive := cr.ActiveAt(now, time.Duration(*b.DurationMin)*time.Minute)
			if aerr != nil || active != wantActive {
				c.Violate("budget:window", "budget %d %s at %s: IsActive=(%v,%v), minute scan says %v", i, fmtBudget(b), now.Format(time.RFC3339), active, aerr, wantActive)
			}
			c.ClassIf(wantActive, "window_active")
			c.ClassIf(!wantActive, "window_inactive")
		}
		if got != want {
			c.Violate("budget:allowed", "budget %d %s at %s with %d nodes: allowed=%d want %d", i, fmtBudget(b), now.Format(time.RFC3339), s.Nodes, got, want)
		}
		if want != ref.Unbounded && want < s.Nodes {
			finiteActive = true
		}
	}
	want, _ := ref.AllowedFor(s.Budgets, s.Reason, now, s.Nodes)
	got, err := np.GetAllowedDisruptionsByReason(clk, s.Nodes, v1.DisruptionReason(s.Reason))
	if (err != nil) != anyBad {
		c.Violate("pool:error-flag", "GetAllowedDisruptionsByReason error=%v but malformed=%v", err, anyBad)
	}
	if got != want {
		c.Violate("pool:min", "GetAllowedDisruptionsByReason(%s)=%d want %d for %s", s.Reason, got, want, fmtBudgets(s.Budgets))
	}
	must := np.MustGetAllowedDisruptions(clk, s.Nodes, v1.DisruptionReason(s.Reason))
	switch {
	case !anyBad && must != want:
		c.Violate("pool:must", "MustGetAllowedDisruptions(%s)=%d want %d for %s", s.Reason, must, want, fmtBudgets(s.Budgets))
	case anyBad && must > want:
		// a malformed budget allows zero; being stricter than the reference (0 for every reason) is permitted
		c.Violate("pool:must-malformed", "MustGetAllowedDisruptions(%s)=%d exceeds %d with a malformed budget in %s", s.Reason, must, want, fmtBudgets(s.Budgets))
	}
	c.NTIf(finiteActive && len(s.Budgets) >= 2)
	c.Sample(map[string]any{"budgets": fmtBudgets(s.Budgets), "now": now.Format(time.RFC3339), "nodes": s.Nodes, "reason": s.Reason, "allowed": want})
}

func fmtBudget(b ref.BudgetSpec) string {
	s := "{nodes:" + b.Nodes
	if len(b.Reasons) > 0 {
		s += " reasons:" + strings.Join(b.Reasons, ",")
	}
	if b.Schedule != nil {
		s += fmt.Sprintf(" schedule:%q duration:%dm", *b.Schedule, *b.DurationMin)
	}
	return s + "}"
}

func fmtBudgets(bs []ref.BudgetSpec) string {
	parts := make([]string, 0, len(bs))
	for _, b := range bs {
		parts = append(parts, fmtBudget(b))
	}
	return strings.Join(parts, " ")
}

var propC05a = ev.Prop[c05aScenario]{
	ID: "C05", Test: "TestC05a",
	Rule: "rapid draws 1-4 budgets (count or percent, reasons or none, cron schedule from a field grammar incl. lists/ranges/steps/names/@macros, duration 1m-48h, occasional malformed nodes/cron) and an instant placed at hit-1s/hit/hit+1s/hit+d-1s/hit+d/hit+d+1s of a scheduled budget; " +
		"oracle: independent cron matcher scanning every minute of (now-d, now], ceil(pct*n/100), min over budgets that list the reason or none, malformed => 0; " +
		"non-trivial = >=2 budgets and some budget active with a finite allowance below the pool size",
	Assumptions: []string{"cron semantics are those of Kubernetes CronJobs (robfig/cron standard parser), UTC", "schedules that can never fire (e.g. Feb 30) are not generated", "schedule and duration are set together (CRD rule)"},
	Draw:        drawC05a, Exec: execC05a,
}

func TestC05a(t *testing.T) { ev.Run(t, propC05a) }
