package harness

import (
	"fmt"
	"sort"
	"testing"

	corev1 "k8s.io/api/core/v1"
	"pgregory.net/rapid"

	v1 "sigs.k8s.io/karpenter/pkg/apis/v1"

	"verif/harness/ev"
	"verif/harness/ref"
)

// C05b: the budget guarantee at controller level - every method, multi-node commands, validation re-checks after the
// 15 s wait (with the clock crossing cron-window edges and third-party changes in between) and consecutive rounds with
// commands still in flight.

func drawC05b(t *rapid.T) *dScenario {
	k := defaultDKnobs()
	k.BlockerPct = 6
	k.BudgetPct = 85
	k.Sched.MaxNodes = 9
	k.MinNodes = 3
	k.EmptyNodePct = 35
	k.DriftPct = 35
	k.NeverPct = 3
	k.WhenEmptyPct = 10
	k.MaxSteps = 7
	k.EarlyPct = 22
	if dpct(t, 35, "consolidationProfile") {
		// worlds in which (multi-node) consolidation finds work under reason-scoped budgets, and the pool's headroom
		// shrinks while the command waits out its validation period (a node goes NotReady, a NodeClaim is deleted):
		// the re-check must count against the budgets of the command's own reason
		k.BlockerPct, k.StaticPct, k.DriftPct, k.NeverPct, k.WhenEmptyPct, k.EmptyNodePct, k.EarlyPct = 3, 3, 4, 2, 6, 8, 8
		k.Sched.MaxNodes, k.MinNodes, k.FillerPct, k.BigPodPct = 9, 4, 45, 8
		k.MidWaitPct = 75
		k.MidWaitKinds = []string{"nodeNotReady", "nodeNotReady", "claimDelete", "claimDelete", "nodeAnnotate", "podDelete"}
		s := drawDisrupt(t, k)
		// reason-scoped budgets that are tight for consolidation and loose for the other reasons (or the other way round)
		for i, np := range s.World.Pools {
			tight := fmt.Sprint(rapid.IntRange(1, 3).Draw(t, fmt.Sprintf("c05b_tight%d", i)))
			reasons := [][]string{{"Underutilized"}, {"Empty", "Drifted"}}
			if dpct(t, 25, fmt.Sprintf("c05b_swap%d", i)) {
				reasons = [][]string{{"Empty", "Drifted"}, {"Underutilized"}}
			}
			bs := []ref.BudgetSpec{{Nodes: tight, Reasons: reasons[0]}, {Nodes: "100%", Reasons: reasons[1]}}
			s.Budgets[np.Name] = bs
			np.Spec.Disruption.Budgets = nil
			for _, b := range bs {
				np.Spec.Disruption.Budgets = append(np.Spec.Disruption.Budgets, toBudget(b))
			}
		}
		return s
	}
	return drawDisrupt(t, k)
}

// poolAccounting computes, from the API snapshot and the harness's own record, the pool's initialized managed nodes and
// which of them already consume the budget (not Ready, deleting, marked or candidates of a command in flight).
func (r *dRun) poolAccounting(sn *dSnap, pool string) (nodes []string, consuming map[string]bool) {
	consuming = map[string]bool{}
	names := make([]string, 0, len(sn.Nodes))
	for n := range sn.Nodes {
		names = append(names, n)
	}
	sort.Strings(names)
	for _, name := range names {
		node := sn.Nodes[name]
		nc := sn.Claims[node.Spec.ProviderID]
		if nc == nil || node.Spec.ProviderID == "" || node.Labels[v1.NodePoolLabelKey] != pool || node.Labels[v1.NodeInitializedLabelKey] != "true" {
			continue
		}
		nodes = append(nodes, name)
		ready := false
		for _, c := range node.Status.Conditions {
			if c.Type == corev1.NodeReady && c.Status == corev1.ConditionTrue {
				ready = true
			}
		}
		if !ready || nc.DeletionTimestamp != nil || r.marked[node.Spec.ProviderID] || sn.InFlight[node.Spec.ProviderID] {
			consuming[name] = true
		}
	}
	return nodes, consuming
}

func judgeC05b(r *dRun) (cmds int, constrained bool) {
	c := r.c
	for _, rd := range r.rounds {
		if len(rd.Cmds) == 0 {
			continue
		}
		sn := rd.Snap
		selected := map[string]map[string]bool{} // pool -> node names
		for _, cmd := range rd.Cmds {
			cmds++
			for _, cn := range cmd.Candidates {
				pool := cn.NodePool.Name
				if selected[pool] == nil {
					selected[pool] = map[string]bool{}
				}
				name := cn.Name()
				if cn.Node != nil {
					name = cn.Node.Name
				}
				selected[pool][name] = true
			}
		}
		pools := make([]string, 0, len(selected))
		for p := range selected {
			pools = append(pools, p)
		}
		sort.Strings(pools)
		for _, pool := range pools {
			nodes, consuming := r.poolAccounting(sn, pool)
			allowed, malformed := ref.AllowedFor(r.s.Budgets[pool], rd.Reason, sn.Now, len(nodes))
			if malformed {
				allowed = 0
				c.Class("malformed_budget_with_command")
			}
			union := map[string]bool{}
			for n := range consuming {
				union[n] = true
			}
			for n := range selected[pool] {
				union[n] = true
			}
			if allowed < len(nodes) {
				constrained = true
				c.Class("constrained:" + rd.Method)
			}
			if len(consuming) > 0 {
				c.Class("with_nodes_already_consuming")
			}
			if len(sn.InFlight) > 0 {
				c.Class("with_commands_in_flight")
			}
			if !rd.Entry.Equal(rd.Exit) {
				for _, b := range r.s.Budgets[pool] {
					a1, _ := b.Allowed(rd.Entry, len(nodes))
					a2, _ := b.Allowed(rd.Exit, len(nodes))
					if a1 != a2 {
						c.Class("window_edge_crossed_during_validation")
					}
				}
			}
			if len(union) > allowed {
				kind := "over-budget"
				if len(selected[pool])+0 > allowed && len(consuming) == 0 {
					kind = "over-budget:selection-alone"
				}
				c.Violate(fmt.Sprintf("%s:%s", rd.Method, kind), "step %d at %s: %s (reason %s) selected %d node(s) %v of pool %s while %d of its %d initialized nodes already consume the budget %v; the budgets %s allow %d",
					rd.Step, sn.Now.Format("2006-01-02T15:04:05Z"), rd.Method, rd.Reason, len(selected[pool]), keysOf(selected[pool]), pool, len(consuming), len(nodes), keysOf(consuming), fmtBudgets(r.s.Budgets[pool]), allowed)
			}
		}
	}
	return cmds, constrained
}

func execC05b(s *dScenario, c *ev.Ctx) {
	r := newDRun(s, c)
	r.play()
	cmds, constrained := judgeC05b(r)
	c.Add("commands", cmds)
	c.NTIf(cmds > 0 && constrained)
	if cmds > 0 {
		var parts []string
		for _, rd := range r.rounds {
			for _, cmd := range rd.Cmds {
				parts = append(parts, fmt.Sprintf("%s:%s:%d", rd.Method, cmd.Decision(), len(cmd.Candidates)))
			}
		}
		c.Sample(map[string]any{"nodes": len(s.World.Nodes), "budgets": s.Budgets, "steps": len(s.Steps), "commands": parts})
	}
}

var propC05b = ev.Prop[dScenario]{
	ID: "C05", Test: "TestC05b",
	Rule: "rapid draws a disruption world with 3-9 nodes whose pools carry 1-3 generated budgets (counts, percentages, reasons, cron schedules with durations, malformed ones) and starts the clock at or within 20 s of a window edge; nodes are empty / underutilized / drifted, NotReady, deleting or marked; a history of 1-7 steps runs the REAL disruption controller repeatedly with commands left in flight, completed, failed or terminated in between, and with third-party changes while the controller waits to validate; " +
		"oracle: for every method invocation that returned commands and every pool, |newly selected nodes U nodes of the pool that are initialized and not Ready / deleting / marked / candidates of a command in flight| <= the most restrictive active budget for the method's reason, computed by the independent minute-scanning reference evaluator at the instant the method returned, percentages of the initialized managed nodes rounding up, malformed budgets allowing zero; " +
		"non-trivial = a command was issued for a pool whose allowed value at that instant was below the pool size",
	Assumptions: []string{"NodeClaims with the InstanceTerminating condition are not generated (the statement counts 'initialized nodes'; the code excludes such claims from the total)"},
	Draw:        drawC05b, Exec: execC05b, ReplayTries: 3,
}

func TestC05b(t *testing.T) { ev.Run(t, propC05b) }
