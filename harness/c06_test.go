package harness

import (
	"fmt"
	"sort"
	"strings"
	"testing"

	corev1 "k8s.io/api/core/v1"
	"k8s.io/apimachinery/pkg/types"
	"pgregory.net/rapid"
	"sigs.k8s.io/controller-runtime/pkg/client"

	v1 "sigs.k8s.io/karpenter/pkg/apis/v1"
	"sigs.k8s.io/karpenter/pkg/controllers/disruption"

	"verif/harness/ev"
	"verif/harness/sim"
)

// C06: consolidation keeps pods schedulable and strictly lowers cost.

func drawC06(t *rapid.T) *dScenario {
	k := defaultDKnobs()
	k.BlockerPct = 4
	k.BudgetPct = 5
	k.StaticPct = 3
	k.DriftPct = 4
	k.NeverPct = 2
	k.WhenEmptyPct = 6
	k.EmptyNodePct = 8
	k.EarlyPct = 8
	k.BigCatalog = 25
	k.Sched.MaxNodes = 8
	k.Sched.NoMinValues = false
	k.MinNodes = 2
	k.MaxSteps = 4
	k.FillerPct = 45
	k.BigPodPct = 8
	// profile: several empty nodes, and a pod lands on one of them while Emptiness waits to validate its command; only
	// the emptiness clause is judged for those steps (it is stated for the nodes as they are when they are deleted)
	lateBind := dpct(t, 15, "emptinessLateBindProfile")
	if lateBind {
		k.EmptyNodePct = 55
		k.MidWaitPct = 80
		k.MidWaitKinds = []string{"addPod"}
	}
	s := drawDisrupt(t, k)
	// otherwise no third-party change while the controller waits to validate: a command's recorded placements are only
	// a witness for the world they were computed in
	for i := range s.Steps {
		if s.Steps[i].Kind == "disrupt" && !lateBind {
			s.Steps[i].Mut = nil
		}
	}
	return s
}

// refreshBuilt re-reads the Node / NodeClaim of every known node.
func (r *dRun) refreshBuilt() {
	w := r.b.W
	w.Quiet(func() {
		for _, bn := range r.b.Nodes {
			if bn.Node != nil {
				n := &corev1.Node{}
				if err := w.Client.Get(w.Ctx, client.ObjectKeyFromObject(bn.Node), n); err == nil {
					bn.Node = n
				}
			}
			if bn.NodeClaim != nil {
				nc := &v1.NodeClaim{}
				if err := w.Client.Get(w.Ctx, client.ObjectKeyFromObject(bn.NodeClaim), nc); err == nil {
					bn.NodeClaim = nc
				}
			}
		}
	})
}

type c06Stats struct {
	cmds, replace, deleteMoving, spotToSpot, emptyDeletes int
}

// candidatePrice: the price of the offering the node runs on (0 when the catalog no longer has it).
func (r *dRun) candidatePrice(nodeName string) (float64, string) {
	bn := r.b.Nodes[nodeName]
	if bn == nil || bn.Option == nil {
		return 0, ""
	}
	return bn.Option.Offering.Price, bn.Option.Offering.CapacityType
}

func (r *dRun) judgeC06(rd *dRound, st *c06Stats) {
	if !isConsolidationMethod(rd.Method) {
		return
	}
	c := r.c
	sn := rd.Snap
	r.refreshBuilt()
	midWait := rd.Step < len(r.s.Steps) && r.s.Steps[rd.Step].Kind == "disrupt" && r.s.Steps[rd.Step].Mut != nil
	if midWait && rd.Method != "Emptiness" {
		return
	}
	if midWait && r.s.Steps[rd.Step].Mut.Kind == "addPod" {
		if bn := r.nodeAt(r.s.Steps[rd.Step].Mut.Target); bn != nil && bn.Node != nil {
			for _, cn := range rd.Candidates {
				if bn.NodeClaim != nil && cn == bn.NodeClaim.Name {
					c.Class("emptiness_command_after_pod_landed_on_candidate")
				}
			}
		}
	}
	for _, cmd := range rd.Cmds {
		st.cmds++
		where := rd.Method + ":"
		cand := map[string]bool{}
		candPID := map[string]bool{}
		var names []string
		for _, cn := range cmd.Candidates {
			name := cn.Name()
			if cn.Node != nil {
				name = cn.Node.Name
			}
			cand[name] = true
			candPID[cn.ProviderID()] = true
			names = append(names, name)
		}
		sort.Strings(names)
		// ---- (6) emptiness only removes empty nodes
		if rd.Method == "Emptiness" {
			st.emptyDeletes++
			for _, n := range names {
				if !sn.dEmpty(n) {
					c.Violate(where+"deleted-as-empty-with-costly-pod", "step %d: Emptiness deletes node %s although it hosts a reschedulable pod with a positive eviction cost", rd.Step, n)
				}
			}
			if len(cmd.Replacements) > 0 {
				c.Violate(where+"emptiness-with-replacement", "step %d: Emptiness command carries %d replacements", rd.Step, len(cmd.Replacements))
			}
			continue
		}
		// ---- (1) every reschedulable pod of the candidates has a home
		placedOn := map[types.UID]string{}
		for _, en := range cmd.Results.ExistingNodes {
			for _, p := range en.Pods {
				placedOn[p.UID] = "existing:" + en.Name()
			}
		}
		for i, nc := range cmd.Results.NewNodeClaims {
			for _, p := range nc.Pods {
				placedOn[p.UID] = fmt.Sprintf("new:%d", i)
			}
		}
		moving := 0
		for _, n := range names {
			for _, p := range sn.podsOn(n) {
				if !dReschedulable(p) {
					continue
				}
				moving++
				if _, ok := placedOn[p.UID]; !ok {
					c.Violate(where+"pod-without-home", "step %d: %s removes node %s but its reschedulable pod %s is placed nowhere in the command's scheduling results", rd.Step, rd.Method, n, p.Name)
				}
			}
		}
		for p, err := range cmd.Results.PodErrors {
			if p.Spec.NodeName != "" && cand[p.Spec.NodeName] {
				c.Violate(where+"pod-error-accepted", "step %d: %s removes node %s although its pod %s failed to schedule: %v", rd.Step, rd.Method, p.Spec.NodeName, p.Name, err)
			}
		}
		if len(cmd.Replacements) > 1 || len(cmd.Results.NewNodeClaims) > 1 {
			c.Violate(where+"more-than-one-replacement", "step %d: %s command has %d replacements / %d new NodeClaims", rd.Step, rd.Method, len(cmd.Replacements), len(cmd.Results.NewNodeClaims))
		}
		for _, en := range cmd.Results.ExistingNodes {
			if len(en.Pods) == 0 {
				continue
			}
			fromCandidates := false
			for _, p := range en.Pods {
				fromCandidates = fromCandidates || cand[p.Spec.NodeName]
			}
			if !fromCandidates {
				continue
			}
			node := sn.Nodes[en.Name()]
			switch {
			case cand[en.Name()] || candPID[en.ProviderID()]:
				c.Violate(where+"destination-is-candidate", "step %d: pods %s are moved onto %s which the same command removes", rd.Step, shortPods(en.Pods), en.Name())
			case node == nil:
				c.Violate(where+"destination-without-node", "step %d: pods %s are moved onto %s which has no Node object", rd.Step, shortPods(en.Pods), en.Name())
			case sn.Claims[node.Spec.ProviderID] != nil && node.Labels[v1.NodeInitializedLabelKey] != "true":
				c.Violate(where+"destination-uninitialized", "step %d: pods %s are moved onto managed node %s which is not initialized", rd.Step, shortPods(en.Pods), en.Name())
			case sn.Claims[node.Spec.ProviderID] != nil && (sn.Claims[node.Spec.ProviderID].DeletionTimestamp != nil || r.marked[node.Spec.ProviderID] || sn.InFlight[node.Spec.ProviderID]):
				c.Violate(where+"destination-deleting", "step %d: pods %s are moved onto node %s which is itself being removed", rd.Step, shortPods(en.Pods), en.Name())
			}
		}
		// placements must be admissible by the provisioning rules (C01 oracle), in the world as it is now
		ps := r.b.checkResults(cmd.Results, c, where)
		_ = ps
		if len(cmd.Replacements) == 0 {
			if moving > 0 {
				st.deleteMoving++
			}
			continue
		}
		// ---- (2)-(5) the replacement
		st.replace++
		repl := cmd.Replacements[0]
		total := 0.0
		allSpot := true
		var priceParts []string
		for _, n := range names {
			p, ct := r.candidatePrice(n)
			total += p
			allSpot = allSpot && ct == v1.CapacityTypeSpot
			priceParts = append(priceParts, fmt.Sprintf("%s=%s/%.3f", n, ct, p))
		}
		spotAdmitted := false
		for _, opt := range repl.InstanceTypeOptions {
			it, ok := r.b.itSpec(opt.Name)
			if !ok {
				continue
			}
			choices := launchable(it, repl.Requirements)
			if len(choices) == 0 {
				continue
			}
			worst := map[string]float64{}
			for _, ch := range choices {
				if ch.of.Price > worst[ch.of.CapacityType] || worst[ch.of.CapacityType] == 0 {
					if ch.of.Price > worst[ch.of.CapacityType] {
						worst[ch.of.CapacityType] = ch.of.Price
					}
				}
				if ch.of.CapacityType == v1.CapacityTypeSpot {
					spotAdmitted = true
				}
			}
			// worst-case launch price within the capacity type that launches first: reserved > spot > on-demand
			var launchCT string
			for _, ct := range []string{v1.CapacityTypeReserved, v1.CapacityTypeSpot, v1.CapacityTypeOnDemand} {
				has := false
				for _, ch := range choices {
					has = has || ch.of.CapacityType == ct
				}
				if has {
					launchCT = ct
					break
				}
			}
			if !(worst[launchCT] < total) {
				c.Violate(where+"replacement-not-cheaper", "step %d: %s replaces %v (combined price %.3f) by a NodeClaim that may launch %s as %s at %.3f; requirements %s", rd.Step, rd.Method, priceParts, total, it.Name, launchCT, worst[launchCT], repl.Requirements)
			}
			// an on-demand node is never replaced by a request that can fall back to an on-demand launch that is not cheaper
			if !allSpot {
				for _, ch := range choices {
					if ch.of.CapacityType == v1.CapacityTypeOnDemand && !(ch.of.Price < total) {
						c.Violate(where+"on-demand-fallback-not-cheaper", "step %d: %s replaces %v (combined price %.3f) by a NodeClaim that can fall back to on-demand %s/%s at %.3f; requirements %s", rd.Step, rd.Method, priceParts, total, it.Name, ch.of.Zone, ch.of.Price, repl.Requirements)
						break
					}
				}
			}
		}
		if allSpot && spotAdmitted {
			st.spotToSpot++
			c.Class("spot_to_spot_replacement")
			if !r.s.SpotToSpot {
				c.Violate(where+"spot-to-spot-without-gate", "step %d: %s replaces spot node(s) %v by a spot-capable NodeClaim although SpotToSpotConsolidation is disabled", rd.Step, rd.Method, names)
			}
			if len(names) == 1 && len(repl.InstanceTypeOptions) < disruption.MinInstanceTypesForSpotToSpotConsolidation {
				c.Violate(where+"spot-to-spot-too-few-options", "step %d: single-node spot-to-spot replacement of %s with only %d instance type options", rd.Step, names[0], len(repl.InstanceTypeOptions))
			}
		}
		// (5) minValues of the pool still hold for the final option list (strict policy only)
		if !r.s.World.Options.MinValuesBestEffort {
			if pool := sn.Pools[repl.NodePoolName]; pool != nil {
				for _, rq := range pool.Spec.Template.Spec.Requirements {
					if rq.MinValues == nil {
						continue
					}
					vals := map[string]bool{}
					for _, opt := range repl.InstanceTypeOptions {
						it, ok := r.b.itSpec(opt.Name)
						if !ok {
							continue
						}
						switch rq.Key {
						case corev1.LabelInstanceTypeStable:
							vals[it.Name] = true
						case sim.LabelFamily:
							if it.Family != "" {
								vals[it.Family] = true
							}
						}
					}
					if (rq.Key == corev1.LabelInstanceTypeStable || rq.Key == sim.LabelFamily) && len(vals) < *rq.MinValues {
						c.Violate(where+"min-values-broken", "step %d: replacement of pool %s offers %d distinct %s values, minValues is %d", rd.Step, pool.Name, len(vals), rq.Key, *rq.MinValues)
					}
				}
			}
		}
	}
}

func execC06(s *dScenario, c *ev.Ctx) {
	r := newDRun(s, c)
	st := &c06Stats{}
	r.observers = append(r.observers, func(rd *dRound) { r.judgeC06(rd, st) })
	r.play()
	c.Add("commands", st.cmds)
	c.Add("replace_commands", st.replace)
	c.Add("delete_commands_moving_pods", st.deleteMoving)
	c.Add("emptiness_commands", st.emptyDeletes)
	c.ClassIf(st.replace > 0, "replace")
	c.ClassIf(st.deleteMoving > 0, "delete_moving_pods")
	c.ClassIf(st.emptyDeletes > 0, "emptiness")
	c.NTIf(st.replace > 0 || st.deleteMoving > 0)
	if st.cmds > 0 {
		var parts []string
		for _, rd := range r.rounds {
			for _, cmd := range rd.Cmds {
				parts = append(parts, fmt.Sprintf("%s:%s:%d", rd.Method, cmd.Decision(), len(cmd.Candidates)))
			}
		}
		c.Sample(map[string]any{"nodes": len(s.World.Nodes), "types": len(s.World.Catalog), "commands": strings.Join(parts, " ")})
	}
}

var propC06 = ev.Prop[dScenario]{
	ID: "C06", Test: "TestC06",
	Rule: "rapid draws a disruption world biased to consolidatable clusters (2-8 initialized nodes with small workload pods over priced catalogs with ties, inversions, unavailable offerings, spot / on-demand mixes, 25% catalogs with >= 18 types for spot-to-spot, minValues, SpotToSpotConsolidation on/off, WhenEmpty / WhenEmptyOrUnderutilized / Balanced) and a history of 1-4 steps; in a 15% profile more than half of the nodes are empty and a pod lands on a node while Emptiness waits to validate its command (only clause 6 is judged for those steps); the REAL disruption controller runs; every command of Emptiness, multi-node and single-node consolidation is judged the moment the method returns it; " +
		"oracle: (1) every reschedulable pod on a candidate is placed in the command's results, no candidate pod is in PodErrors, at most one replacement, destinations are initialized nodes that are neither candidates nor being removed, and every placement passes the independent admission oracle of C01 on the API state of that instant; (2) for every instance type the replacement may launch, the worst available compatible offering price within the capacity type that launches first (reserved > spot > on-demand, offerings judged on the harness catalog) is strictly below the sum of the candidates' offering prices; (3) if a candidate is not spot no launchable on-demand offering costs as much or more; (4) spot-to-spot needs the gate and, for one candidate, >= 15 options; (5) strict minValues of the pool hold for the final option list; (6) Emptiness only deletes nodes without a reschedulable pod of positive eviction cost; " +
		"non-trivial = a replace command, or a delete command that moves at least one pod",
	Assumptions: []string{"outside the emptiness profile no third-party change happens while the controller waits to validate (the command's recorded placements are a witness only for the world they were computed in)", "prices come from the harness catalog (no NodeOverlay)"},
	Draw:        drawC06, Exec: execC06, ReplayTries: 3,
}

func TestC06(t *testing.T) { ev.Run(t, propC06) }
