package harness

import (
	"fmt"
	"sort"
	"strings"
	"testing"

	"pgregory.net/rapid"

	"verif/harness/ev"
)

// C07: disruption never targets protected or ineligible nodes.

func drawC07(t *rapid.T) *dScenario {
	k := defaultDKnobs()
	k.BlockerPct = 14
	k.BudgetPct = 8
	if dpct(t, 40, "consolidationProfile") {
		// worlds in which consolidation (single- and multi-node) finds work, with a third party protecting a node while
		// the command waits out its validation period: the re-validation must drop the whole command
		k.BlockerPct, k.BudgetPct, k.StaticPct, k.DriftPct, k.NeverPct, k.WhenEmptyPct, k.EmptyNodePct, k.EarlyPct = 4, 5, 3, 4, 2, 6, 8, 8
		k.Sched.MaxNodes, k.MinNodes, k.FillerPct, k.BigPodPct = 8, 3, 45, 8
		k.MidWaitPct, k.MidWaitBlockers = 75, true
	}
	s := drawDisrupt(t, k)
	if dpct(t, 12, "renominationProfile") {
		// a node is nominated for pending pods twice, the second time inside the window of the first; the disruption
		// pass then runs after the first window has passed but inside the second
		target := rapid.IntRange(0, 7).Draw(t, "renominate_target")
		a := rapid.SampledFrom([]int{5, 9, 10, 11}).Draw(t, "renominate_gap")
		b := rapid.SampledFrom([]int{9, 10, 11, 20, 21}).Draw(t, "renominate_then")
		nominate := func() dStep { return dStep{Kind: "mutate", Mut: &dMut{Kind: "nominate", Target: target}} }
		s.Steps = append([]dStep{nominate(), {Kind: "advance", Sec: a}, nominate(), {Kind: "advance", Sec: b}, {Kind: "disrupt"}}, s.Steps...)
	}
	return s
}

// judgeC07 checks every candidate of every command against the independent eligibility predicate.
func judgeC07(r *dRun) (cmds int, matrix map[string]bool, mixed bool) {
	c := r.c
	matrix = map[string]bool{}
	for _, rd := range r.rounds {
		if len(rd.Cmds) == 0 {
			continue
		}
		sn := rd.Snap
		selected := map[string]bool{}
		for _, cmd := range rd.Cmds {
			cmds++
			c.Class("cmd:" + rd.Method + ":" + string(cmd.Decision()))
			for _, cn := range cmd.Candidates {
				name := cn.Name()
				if cn.Node != nil {
					name = cn.Node.Name
				}
				selected[name] = true
				bl := r.blockers(sn, name, rd.Method, rd.Class, sn.InFlight)
				for _, rule := range bl {
					c.Violate(fmt.Sprintf("%s:%s", rd.Method, rule), "step %d: %s selected node %s for disruption (%s) although it is protected: %s; candidates offered: %v", rd.Step, rd.Method, name, cmd.Decision(), strings.Join(bl, ","), rd.Candidates)
				}
			}
		}
		// the blocker x method matrix this round exercised: nodes that were NOT selected and why they could not be
		eligible, blocked := 0, 0
		names := make([]string, 0, len(sn.Nodes))
		for n := range sn.Nodes {
			names = append(names, n)
		}
		sort.Strings(names)
		for _, n := range names {
			bl := r.blockers(sn, n, rd.Method, rd.Class, sn.InFlight)
			if len(bl) == 0 {
				eligible++
				continue
			}
			blocked++
			for _, rule := range bl {
				matrix[rd.Method+"/"+rule] = true
			}
		}
		if eligible > 0 && blocked > 0 {
			mixed = true
		}
	}
	return cmds, matrix, mixed
}

func execC07(s *dScenario, c *ev.Ctx) {
	r := newDRun(s, c)
	r.play()
	cmds, matrix, mixed := judgeC07(r)
	for k := range matrix {
		c.Class("blocked:" + k)
	}
	c.Add("commands", cmds)
	c.Add("method_invocations", len(r.rounds))
	c.NTIf(cmds > 0 && mixed)
	if cmds > 0 {
		var parts []string
		for _, rd := range r.rounds {
			for _, cmd := range rd.Cmds {
				parts = append(parts, fmt.Sprintf("%s:%s:%d", rd.Method, cmd.Decision(), len(cmd.Candidates)))
			}
		}
		c.Sample(map[string]any{"nodes": len(s.World.Nodes), "pods": len(s.World.Bound), "steps": len(s.Steps), "commands": parts})
	}
}

var propC07 = ev.Prop[dScenario]{
	ID: "C07", Test: "TestC07",
	Rule: "rapid draws a disruption world (2-7 nodes over 1-2 pools with pods, PDBs, daemonsets) in which every blocker is drawn independently per node / pod (unmanaged, not initialized, NodeClaim deleting, marked for deletion, nominated, node do-not-disrupt annotation, pod do-not-disrupt as true / duration vs pod start / invalid / on finished or terminating pods, PDB with 0 allowed, two PDBs, AlwaysAllow + unready pod, mirror / daemon pods, pods tolerating the disruption taint) together with the eligibility knobs (Drifted, lastPodEventTime vs consolidateAfter incl. Never, WhenEmpty / WhenEmptyOrUnderutilized / Balanced, static pool, terminationGracePeriod, capacity-buffer placements) and a history of 1-6 steps (disruption reconcile with an optional third-party mutation while the controller waits to validate, clock advance, queue reconcile, replacement initialisation / loss, node termination, provisioning pass, mutation; 12% of the histories start with a node nominated twice, the second time inside the first window, and a disruption pass between the two expiries); the REAL disruption controller with its five default methods, the REAL queue, the REAL nodeclaim.disruption controller (Consolidatable) and lifecycle controller run; " +
		"oracle: every candidate of every command returned by a method must have no blocker according to an independent predicate written from the statement and evaluated on the API objects and the harness's own record of marks, in-flight commands and nominations at the instant the method returned; " +
		"non-trivial = at least one command was issued in a world that held, for the acting method, both an eligible and a blocked node",
	Assumptions: []string{"the nomination window is max(2 x batchMaxDuration, 10s) as documented in the settings", "a Node object with a deletionTimestamp whose NodeClaim is not deleting is not generated (the termination controller deletes the NodeClaim immediately)", "AlwaysAllow PDBs: pods carry an explicit Ready condition"},
	Draw:        drawC07, Exec: execC07, ReplayTries: 3,
}

func TestC07(t *testing.T) { ev.Run(t, propC07) }
