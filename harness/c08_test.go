package harness

import (
	"fmt"
	"github.com/google/uuid"
	"k8s.io/apimachinery/pkg/api/resource"
	metav1 "k8s.io/apimachinery/pkg/apis/meta/v1"
	"k8s.io/apimachinery/pkg/types"
	"os"
	"sort"
	"strings"
	"sync"
	"testing"
	"time"
	"verif/harness/ref"

	corev1 "k8s.io/api/core/v1"
	apierrors "k8s.io/apimachinery/pkg/api/errors"
	"k8s.io/apimachinery/pkg/runtime/schema"
	"k8s.io/client-go/util/retry"
	"pgregory.net/rapid"

	v1 "sigs.k8s.io/karpenter/pkg/apis/v1"
	"sigs.k8s.io/karpenter/pkg/controllers/disruption"

	"verif/harness/ev"
	"verif/harness/sim"
)

// C08: replacements are ready before removal; failed actions roll back.  Fault enumeration over the orchestration
// protocol (taint -> condition -> create replacements -> mark -> enqueue -> wait -> delete / roll back).

type c08Scenario struct {
	D          *dScenario `json:"d"`
	FaultKinds []int      `json:"faultKinds"`
}

func init() {
	// client-go's retry.OnError(retry.DefaultBackoff, ...) sleeps 10ms/50ms/250ms of REAL time between attempts; keep
	// the four attempts, drop the sleeping
	retry.DefaultBackoff.Duration = 20 * time.Microsecond
}

func drawC08(t *rapid.T) *c08Scenario {
	k := defaultDKnobs()
	k.BlockerPct = 3
	k.BudgetPct = 0
	k.StaticPct = 15
	k.DriftPct = 55
	k.NeverPct = 2
	k.WhenEmptyPct = 5
	k.EmptyNodePct = 10
	k.EarlyPct = 5
	k.FillerPct = 45
	k.BigPodPct = 8
	k.TGPPct = 30
	k.Sched.MaxNodes = 5
	k.MinNodes = 1
	k.MultiRound = false
	k.Mutations = false
	d := drawDisrupt(t, k)
	crafted := dpct(t, 35, "c08MultiReplace")
	twoReplacements := false
	if crafted {
		c08MultiReplaceWorld(t, d)
		// variant: drifted nodes whose two pods no longer fit one node of the only type still offered - every Drift
		// command needs TWO replacements, which then initialise one at a time
		if twoReplacements = dpct(t, 45, "c08TwoReplacements"); twoReplacements {
			w := d.World
			w.Catalog[0].Offerings[0].Available = false
			for i := range w.Nodes {
				d.NodeX[w.Nodes[i].Name] = dNodeX{Drifted: true, DriftedAgoSec: 600}
			}
			for _, p := range w.Bound {
				p.Spec.Containers[0].Resources.Requests[corev1.ResourceCPU] = resource.MustParse("5")
			}
			// three 5-cpu pods fill a 16-cpu node: nothing fits on the neighbours, every pod needs its own 8-cpu node
			n0 := len(w.Bound)
			for k := 1; k <= 2; k++ {
				for i := 0; i < n0; i++ {
					q := w.Bound[i].DeepCopy()
					q.Name, q.UID = fmt.Sprintf("bound-%02d", k*n0+i), types.UID(fmt.Sprintf("bound-uid-%02d", k*n0+i))
					w.Bound = append(w.Bound, q)
				}
			}
		}
	}
	// the history: commands are started, then replacements initialize, vanish or stall, the clock moves (up to past the
	// command timeout), the controllers restart, nodes finish terminating
	n := rapid.IntRange(2, 9).Draw(t, "c08Steps")
	d.Steps = []dStep{{Kind: "disrupt"}}
	for i := 1; i < n; i++ {
		l := fmt.Sprintf("c08step%d", i)
		kind := rapid.SampledFrom([]string{"queue", "init", "disrupt", "initOne", "queue", "lose", "advance", "finish", "restart", "loseLag", "candidateGone", "overlapStart"}).Draw(t, l+"_kind")
		st := dStep{Kind: kind}
		if kind == "advance" {
			st.Sec = rapid.SampledFrom([]int{1, 30, 300, 601, 3700}).Draw(t, l+"_sec")
		}
		d.Steps = append(d.Steps, st)
	}
	if crafted {
		// a failure-oriented prefix: the command starts, possibly loses a candidate, then its replacement fails one way
		// or another (or initializes), then the queue looks at it; the random tail follows
		prefix := []dStep{{Kind: "disrupt"}}
		if twoReplacements {
			// one of the two replacements is ready when the queue looks, the other is not (or vanishes) when it looks again
			prefix = append(prefix, dStep{Kind: "initOne"}, dStep{Kind: "queue"})
		}
		if rapid.Bool().Draw(t, "c08mrCandidateGone") {
			prefix = append(prefix, dStep{Kind: "candidateGone"})
		}
		switch rapid.IntRange(0, 3).Draw(t, "c08mrFailure") {
		case 0:
			prefix = append(prefix, dStep{Kind: "lose"})
		case 1:
			prefix = append(prefix, dStep{Kind: "loseLag"})
		case 2:
			prefix = append(prefix, dStep{Kind: "advance", Sec: 601})
		default:
			prefix = append(prefix, dStep{Kind: "init"})
		}
		prefix = append(prefix, dStep{Kind: "queue"})
		d.Steps = append(prefix, d.Steps[1:]...)
	}
	return &c08Scenario{D: d, FaultKinds: rapid.SliceOfN(rapid.IntRange(0, 3), 6, 6).Draw(t, "faultKinds")}
}

// c08MultiReplaceWorld rewrites the world so that multi-node consolidation finds a replace command with 2-3 candidates:
// identical expensive nodes, one mid-sized pod each, and a cheaper type that holds all the pods together.
func c08MultiReplaceWorld(t *rapid.T, d *dScenario) {
	w := d.World
	n := rapid.IntRange(2, 3).Draw(t, "c08mrNodes")
	w.Catalog = []sim.ITSpec{
		{Name: "big", Arch: "amd64", OS: []string{"linux"}, Family: "f1", Gen: "1", Capacity: map[string]string{"cpu": "16", "memory": "32Gi", "pods": "110"},
			Offerings: []sim.OfferingSpec{{Zone: "zone-a", CapacityType: v1.CapacityTypeOnDemand, Price: 5, Available: true}}},
		{Name: "mid", Arch: "amd64", OS: []string{"linux"}, Family: "f1", Gen: "1", Capacity: map[string]string{"cpu": "8", "memory": "16Gi", "pods": "110"},
			Offerings: []sim.OfferingSpec{{Zone: "zone-a", CapacityType: v1.CapacityTypeOnDemand, Price: rapid.SampledFrom([]float64{1, 2, 4}).Draw(t, "c08mrPrice"), Available: true}}},
	}
	pool := w.Pools[0]
	pool.Spec.Template.Spec.Requirements = nil
	pool.Spec.Template.Spec.Taints = nil
	pool.Spec.Template.Spec.StartupTaints = nil
	pool.Spec.Template.Labels = nil
	pool.Spec.Replicas = nil
	pool.Spec.Limits = nil
	pool.Spec.Disruption.ConsolidationPolicy = v1.ConsolidationPolicyWhenEmptyOrUnderutilized
	pool.Spec.Disruption.ConsolidateAfter = v1.MustParseNillableDuration("0s")
	pool.Spec.Disruption.Budgets = []v1.Budget{{Nodes: "100%"}}
	w.Pools = []*v1.NodePool{pool}
	d.Budgets = map[string][]ref.BudgetSpec{pool.Name: {{Nodes: "100%"}}}
	w.Nodes, w.Bound, w.DaemonSets, w.DaemonOn, w.Pending = nil, nil, nil, nil, nil
	d.NodeX, d.PodX, d.PDBs = map[string]dNodeX{}, map[string]dPodX{}, nil
	for i := 0; i < n; i++ {
		name := fmt.Sprintf("node-%d", i)
		w.Nodes = append(w.Nodes, sim.NodeSpec{Name: name, Pool: pool.Name, TypeName: "big", Zone: "zone-a", CT: v1.CapacityTypeOnDemand, OS: "linux", Stage: sim.StageInitialized, AgeSeconds: 4000})
		d.NodeX[name] = dNodeX{}
		p := sim.Bound(&corev1.Pod{ObjectMeta: metav1.ObjectMeta{Name: fmt.Sprintf("bound-%02d", i), Namespace: "default", UID: types.UID(fmt.Sprintf("bound-uid-%02d", i)), Labels: map[string]string{"app": "web"},
			OwnerReferences: []metav1.OwnerReference{{APIVersion: "apps/v1", Kind: "ReplicaSet", Name: "rs", UID: "rs-uid", Controller: lo_ptr(true)}}},
			Spec: corev1.PodSpec{Containers: []corev1.Container{{Name: "c", Image: "img", Resources: corev1.ResourceRequirements{Requests: corev1.ResourceList{corev1.ResourceCPU: resource.MustParse("2")}}}}}}, name)
		p.Status.Phase = corev1.PodRunning
		w.Bound = append(w.Bound, p)
	}
}

type c08Result struct {
	faultable  int
	violations []ev.Violation
	// shape of the run
	started, withReplacement, deletes, failedStarts, unsuccessful int
	faultFired                                                    bool
	faultInProtocol                                               bool
	unsynced                                                      bool
	rolledBackByQueue                                             int
	multiCandidateReplace                                         int
	overlapStarts                                                 int
	multiReplacement                                              int
}

func c08Err(kind int, c *sim.Call) error {
	switch kind {
	case 3:
		return apierrors.NewNotFound(schema.GroupResource{Resource: strings.ToLower(c.Kind)}, c.Key)
	case 1:
		return apierrors.NewConflict(schema.GroupResource{Resource: strings.ToLower(c.Kind)}, c.Key, fmt.Errorf("injected conflict"))
	default:
		return apierrors.NewInternalError(fmt.Errorf("injected 500"))
	}
}

// c08Cmd is the harness's own record of a command the controller tried to start.
type c08Cmd struct {
	method       string
	created      time.Time
	candidates   map[string]string // NodeClaim name -> provider id
	nodes        map[string]string // NodeClaim name -> Node name
	replacements []*disruption.Replacement
	entered      bool // it was seen in the queue right after the reconcile
	queued       *disruption.Command
}

func runC08(s *c08Scenario, faultIdx, kind int) *c08Result {
	res := &c08Result{}
	c := &ev.Ctx{}
	r := newDRun(s.D, c)
	w := r.b.W
	// the queue taints, un-taints and deletes the candidates of a command in parallel goroutines: what the monitors
	// record is guarded
	var recMu sync.Mutex
	violate := func(sig, format string, a ...any) {
		recMu.Lock()
		res.violations = append(res.violations, ev.Violation{Sig: sig, What: fmt.Sprintf(format, a...)})
		recMu.Unlock()
	}

	// ---- the harness's record of commands
	var cmds []*c08Cmd
	byClaim := func(name string) *c08Cmd {
		for i := len(cmds) - 1; i >= 0; i-- {
			if _, ok := cmds[i].candidates[name]; ok {
				return cmds[i]
			}
		}
		return nil
	}
	r.observers = append(r.observers, func(rd *dRound) {
		for _, cmd := range rd.Cmds {
			rec := &c08Cmd{method: rd.Method, created: rd.Exit, candidates: map[string]string{}, nodes: map[string]string{}, replacements: cmd.Replacements}
			for _, cn := range cmd.Candidates {
				rec.candidates[cn.NodeClaim.Name] = cn.ProviderID()
				if cn.Node != nil {
					rec.nodes[cn.NodeClaim.Name] = cn.Node.Name
				}
				// a node is never the subject of two concurrent actions
				if rd.Snap.InFlight[cn.ProviderID()] {
					violate("two-concurrent-actions", "step %d: %s selects %s which is a candidate of a command still in the queue", rd.Step, rd.Method, cn.Name())
				}
			}
			cmds = append(cmds, rec)
		}
	})

	// ---- the fault plan
	seen := 0
	var stickyKey string
	w.Faults = []*sim.Fault{{N: 1, Err: fmt.Errorf("placeholder")}}
	w.Faults[0].Match = func(call *sim.Call) bool {
		inProtocol := r.inStart.Load() || r.inQueue.Load()
		if !((call.IsWrite() && (r.inCtrl.Load() || r.inQueue.Load())) || (!call.IsWrite() && inProtocol)) {
			return false
		}
		seen++
		if faultIdx > 0 && seen == faultIdx {
			k := kind
			if k == 3 && call.IsWrite() {
				k = 0 // NotFound is only a faithful failure for cached reads; the API server never answers it for an object that exists
			}
			w.Faults[0].Err = c08Err(k, call)
			res.faultFired = true
			res.faultInProtocol = inProtocol
			if kind == 2 {
				stickyKey = call.Verb + "|" + call.Kind + "|" + call.Key + "|" + call.Sub
			}
			return true
		}
		return false
	}
	// persistent variant: the same operation keeps failing until the controller call returns
	sticky := &sim.Fault{Always: true, Err: apierrors.NewInternalError(fmt.Errorf("injected persistent 500"))}
	sticky.Match = func(call *sim.Call) bool {
		return stickyKey != "" && (r.inCtrl.Load() || r.inQueue.Load()) && call.Verb+"|"+call.Kind+"|"+call.Key+"|"+call.Sub == stickyKey
	}
	w.Faults = append(w.Faults, sticky)

	// ---- monitor: deletes of candidate NodeClaims issued by the orchestration queue
	w.Monitors = append(w.Monitors, func(w *sim.World, call *sim.Call) {
		if call.Kind != "NodeClaim" || call.Verb != "delete" || !r.inQueue.Load() {
			return
		}
		rec := byClaim(call.Key)
		if rec == nil {
			violate("queue-deletes-unknown-claim", "the queue deletes NodeClaim %s which is not a candidate of any command the controller computed", call.Key)
			return
		}
		recMu.Lock()
		res.deletes++
		recMu.Unlock()
		for i, rp := range rec.replacements {
			if rp.Name == "" {
				violate("candidate-deleted-before-replacement-created", "the queue deletes candidate %s of a %s command while replacement #%d was never created", call.Key, rec.method, i)
				continue
			}
			nc := w.GetNodeClaim(rp.Name)
			switch {
			case nc == nil:
				violate("candidate-deleted-with-replacement-gone", "the queue deletes candidate %s of a %s command although its replacement %s no longer exists", call.Key, rec.method, rp.Name)
			case !nc.StatusConditions().Get(v1.ConditionTypeInitialized).IsTrue():
				violate("candidate-deleted-before-replacement-initialized", "the queue deletes candidate %s of a %s command while its replacement %s is not Initialized", call.Key, rec.method, rp.Name)
			}
		}
		if age := w.Clock.Now().Sub(rec.created); age > r.queue.GetMaxRetryDuration() {
			violate("candidate-deleted-after-timeout", "the queue deletes candidate %s of a %s command %s after the command was created (timeout %s)", call.Key, rec.method, age, r.queue.GetMaxRetryDuration())
		}
	})

	// ---- play the history
	checkDisjoint := func(step int) {
		owner := map[string]*disruption.Command{}
		for _, cmd := range r.queue.GetCommands() {
			for _, cn := range cmd.Candidates {
				if o, ok := owner[cn.ProviderID()]; ok && o != cmd {
					violate("two-concurrent-actions", "step %d: %s is a candidate of two commands in the queue", step, cn.Name())
				}
				owner[cn.ProviderID()] = cmd
			}
		}
	}
	markEntered := func() {
		for _, qc := range r.queue.GetCommands() {
			for _, cn := range qc.Candidates {
				if rec := byClaim(cn.NodeClaim.Name); rec != nil && !rec.entered {
					rec.entered = true
					rec.queued = qc
				}
			}
		}
	}
	for i, st := range s.D.Steps {
		r.step = i
		switch st.Kind {
		case "disrupt":
			r.disruptOnce(nil)
			markEntered()
		case "advance":
			w.Clock.Step(time.Duration(st.Sec) * time.Second)
		case "queue":
			before := r.queue.GetCommands()
			firedBefore := res.faultFired
			r.runQueue()
			// a command that the queue gave up on WITHOUT any injected failure in this step is rolled back by the queue
			// itself, at once (the controller's sweep needs a synced cluster and may come much later)
			if res.faultFired == firedBefore {
				still := map[*disruption.Command]bool{}
				for _, qc := range r.queue.GetCommands() {
					still[qc] = true
				}
				marked := map[string]bool{}
				for _, sn := range w.Cluster.DeepCopyNodes() {
					if sn.MarkedForDeletion() {
						marked[sn.ProviderID()] = true
					}
				}
				for _, qc := range before {
					if still[qc] || qc.Succeeded {
						continue
					}
					for _, cn := range qc.Candidates {
						nc := w.GetNodeClaim(cn.NodeClaim.Name)
						if nc == nil || nc.DeletionTimestamp != nil {
							continue
						}
						res.rolledBackByQueue++
						if cond := nc.StatusConditions().Get(v1.ConditionTypeDisruptionReason); cond != nil && cond.IsTrue() {
							violate("queue-rollback:disruption-reason-left", "step %d: the queue gave up on a %s command but left the DisruptionReason condition on %s", i, qc.Reason(), nc.Name)
						}
						if cn.Node != nil {
							for _, n := range w.ListNodes() {
								if n.Name != cn.Node.Name {
									continue
								}
								for _, t := range n.Spec.Taints {
									if t.MatchTaint(&v1.DisruptedNoScheduleTaint) {
										violate("queue-rollback:taint-left", "step %d: the queue gave up on a %s command but left the disruption taint on node %s", i, qc.Reason(), n.Name)
									}
								}
							}
						}
						if marked[cn.ProviderID()] {
							violate("queue-rollback:still-marked-for-deletion", "step %d: the queue gave up on a %s command but %s is still marked for deletion", i, qc.Reason(), nc.Name)
						}
					}
				}
			}
		case "init":
			r.initReplacements()
		case "initOne":
			r.initSome(1)
		case "lose":
			r.loseReplacement()
		case "candidateGone":
			// a candidate of a command in flight leaves the cluster for an unrelated reason (interruption, manual
			// force-delete): its Node and NodeClaim disappear
			r.candidateGone()
		case "loseLag":
			// the replacement disappears from the API but the informers have not delivered the deletion yet
			r.loseReplacementNoSync()
		case "finish":
			r.finishDeleting()
		case "overlapStart":
			// a command that shares one node with a command in flight and brings one fresh node (what a caller racing
			// with the queue would hand over): StartCommand has to refuse it as a whole
			var inflight, fresh *disruption.Candidate
			var method disruption.Method
			for _, qc := range r.queue.GetCommands() {
				if len(qc.Candidates) > 0 && inflight == nil {
					inflight, method = qc.Candidates[0], qc.Method
				}
			}
			r.candObjs.Range(func(k, v any) bool {
				cn := v.(*disruption.Candidate)
				if fresh == nil && !r.queue.HasAny(k.(string)) && cn.NodeClaim != nil {
					if nc := w.GetNodeClaim(cn.NodeClaim.Name); nc != nil && nc.DeletionTimestamp.IsZero() {
						fresh = cn
					}
				}
				return true
			})
			if inflight != nil && fresh != nil {
				res.overlapStarts++
				cmd := &disruption.Command{Method: method, Candidates: []*disruption.Candidate{fresh, inflight}, CreationTimestamp: w.Clock.Now(), ID: uuid.New()}
				if err := r.queue.StartCommand(w.Ctx, cmd); err == nil {
					violate("two-concurrent-actions:overlapping-command-admitted", "step %d: StartCommand admitted a command over %s and %s although %s is the candidate of a command in flight", i, fresh.Name(), inflight.Name(), inflight.Name())
				}
			}
		case "restart":
			stickyKey = ""
			r.restart()
		}
		stickyKey = "" // a persistent failure lasts for one controller call
		checkDisjoint(i)
		if os.Getenv("VERIF_DBG") != "" {
			for _, qc := range r.queue.GetCommands() {
				var rs []string
				for _, rp := range qc.Replacements {
					st := "gone"
					if nc := w.GetNodeClaim(rp.Name); nc != nil {
						st = fmt.Sprint(nc.StatusConditions().Get(v1.ConditionTypeInitialized).IsTrue())
					}
					rs = append(rs, fmt.Sprintf("%s flagged=%v api=%s", rp.Name, rp.Initialized, st))
				}
				fmt.Printf("C08DBG fault=%d step %d %s: cmd %s candidates=%d repl=%v\n", faultIdx, i, st.Kind, qc.Reason(), len(qc.Candidates), rs)
			}
		}
	}
	res.faultable = seen

	// ---- settle: one fault-free disruption reconcile, as the statement grants
	w.Faults = nil
	// the disruption controller only acts on a synced cluster state, i.e. once every NodeClaim has been launched
	r.launchPending()
	settled := w.Cluster.Synced(w.Ctx)
	r.disruptOnce(nil)
	markEntered()
	w.Sync()
	if !settled {
		res.unsynced = true
		return res
	}

	if os.Getenv("VERIF_DBG") != "" && faultIdx > 0 {
		fmt.Printf("---- fault #%d kind %d\n", faultIdx, kind)
		for _, call := range w.CallsSnapshot() {
			if call.IsWrite() || call.Err != "" {
				fmt.Println("   ", call.Time.Format("15:04:05"), call.String())
			}
		}
		for _, e := range w.Recorder.Events {
			if strings.Contains(e.Reason, "Disruption") {
				fmt.Println("    EVENT", e.Reason, e.Message)
			}
		}
	}
	inQueue := map[string]bool{}
	for _, qc := range r.queue.GetCommands() {
		for _, cn := range qc.Candidates {
			inQueue[cn.ProviderID()] = true
		}
	}
	marked := map[string]bool{}
	for _, sn := range w.Cluster.DeepCopyNodes() {
		if sn.MarkedForDeletion() {
			marked[sn.ProviderID()] = true
		}
	}
	nodes := map[string]*corev1.Node{}
	for _, n := range w.ListNodes() {
		n := n
		nodes[n.Name] = &n
	}
	for _, rec := range cmds {
		res.started++
		if len(rec.replacements) > 0 {
			res.withReplacement++
			if len(rec.replacements) > 1 {
				res.multiReplacement++
			}
			if len(rec.candidates) > 1 {
				res.multiCandidateReplace++
			}
		}
		if !rec.entered {
			res.failedStarts++
		}
		names := make([]string, 0, len(rec.candidates))
		for n := range rec.candidates {
			names = append(names, n)
		}
		sort.Strings(names)
		for _, name := range names {
			pid := rec.candidates[name]
			if inQueue[pid] {
				continue // still (or again) the subject of an action
			}
			nc := w.GetNodeClaim(name)
			if nc == nil || nc.DeletionTimestamp != nil {
				continue // the action removed it
			}
			res.unsuccessful++
			// the action is over and did not remove the node: it must be back in service
			if cond := nc.StatusConditions().Get(v1.ConditionTypeDisruptionReason); cond != nil && cond.IsTrue() {
				violate("rollback:disruption-reason-left", "NodeClaim %s (candidate of a %s command that is no longer in the queue) still carries the DisruptionReason condition after a fault-free disruption reconcile", name, rec.method)
			}
			if n := nodes[rec.nodes[name]]; n != nil {
				for _, t := range n.Spec.Taints {
					if t.MatchTaint(&v1.DisruptedNoScheduleTaint) {
						violate("rollback:taint-left", "node %s (candidate of a %s command that is no longer in the queue) still carries the disruption taint after a fault-free disruption reconcile", n.Name, rec.method)
					}
				}
			}
			if marked[pid] {
				violate("rollback:still-marked-for-deletion", "node of NodeClaim %s (candidate of a %s command that is no longer in the queue) is still marked for deletion in the cluster state", name, rec.method)
			}
		}
	}
	return res
}

// launchPending lets the lifecycle controller launch every NodeClaim that has no provider id yet.
func (r *dRun) launchPending() {
	w := r.b.W
	for _, nc := range w.ListNodeClaims() {
		if nc.Status.ProviderID == "" && nc.DeletionTimestamp.IsZero() {
			w.ReconcileNodeClaim(r.lc, nc.Name)
		}
	}
	w.Sync()
}

// initSome initializes at most n of the replacements that are not initialized yet.
func (r *dRun) initSome(n int) {
	w := r.b.W
	done := 0
	for _, nc := range w.ListNodeClaims() {
		if done >= n {
			break
		}
		if !nc.DeletionTimestamp.IsZero() || nc.StatusConditions().Get(v1.ConditionTypeInitialized).IsTrue() || r.b.nodeByStateName(nc.Name) != nil {
			continue
		}
		name := nc.Name
		if _, _, ok := w.ReconcileNodeClaim(r.lc, name); !ok {
			continue
		}
		cur := w.GetNodeClaim(name)
		if cur == nil || cur.Status.ProviderID == "" || !cur.DeletionTimestamp.IsZero() {
			continue
		}
		node := w.JoinNode(cur, sim.JoinOpts{Ready: false})
		w.ReconcileNodeClaim(r.lc, name)
		w.MakeNodeReady(node.Name, cur)
		w.ReconcileNodeClaim(r.lc, name)
		done++
	}
	w.Sync()
}

func execC08(s *c08Scenario, c *ev.Ctx) {
	base := runC08(s, 0, 0)
	for _, v := range base.violations {
		c.Violate(v.Sig, "%s", v.What)
	}
	executions := 1
	kindsPer := 1
	if os.Getenv("VERIF_TIER") == "thorough" {
		kindsPer = 4
	}
	nt := false
	for i := 1; i <= base.faultable && len(c.Violations()) == 0; i++ {
		for k := 0; k < kindsPer; k++ {
			kind := (s.FaultKinds[i%len(s.FaultKinds)] + k) % 4
			r := runC08(s, i, kind)
			executions++
			nt = nt || (r.faultFired && r.faultInProtocol && r.withReplacement > 0)
			for _, v := range r.violations {
				c.Violate(v.Sig+fmt.Sprintf(":fault-kind-%d", kind), "fault #%d kind %d: %s", i, kind, v.What)
			}
		}
	}
	c.Add("executions", executions)
	c.Add("fault_points", base.faultable)
	c.Add("commands", base.started)
	c.Add("queue_deletes", base.deletes)
	c.ClassIf(base.withReplacement > 0, "command_with_replacement")
	c.ClassIf(base.multiCandidateReplace > 0, "multi_candidate_command_with_replacement")
	c.ClassIf(base.overlapStarts > 0, "overlapping_command_offered_to_start")
	c.ClassIf(base.multiReplacement > 0, "command_with_two_or_more_replacements")
	c.ClassIf(base.deletes > 0, "candidates_deleted")
	c.ClassIf(base.unsuccessful > 0, "action_ended_without_removing_candidate")
	c.ClassIf(base.failedStarts > 0, "start_failed")
	c.ClassIf(base.rolledBackByQueue > 0, "rolled_back_by_queue")
	for _, st := range s.D.Steps {
		c.Class("step:" + st.Kind)
	}
	c.NTIf(nt || (base.withReplacement > 0 && base.unsuccessful > 0))
	c.Sample(map[string]any{"nodes": len(s.D.World.Nodes), "steps": len(s.D.Steps), "fault_points": base.faultable, "executions": executions, "commands": base.started, "with_replacement": base.withReplacement})
}

var propC08 = ev.Prop[c08Scenario]{
	ID: "C08", Test: "TestC08", Level: "fault_enumeration",
	Rule: "rapid draws a disruption world biased to drift (dynamic and static pools) and replace-consolidation, and a history of 2-9 steps from {disruption reconcile, queue reconcile, all / one replacement becomes Initialized through the real lifecycle controller, a candidate of a command in flight vanishes, a replacement vanishes (with or without the informers having delivered the deletion), clock +1s..+61m (past the command timeout), nodes finish terminating, controller restart (new cluster state, queue, provisioner, methods), StartCommand is handed a command that shares one node with a command in flight and adds a fresh one (must be refused)}; a fault-free run counts the faultable calls (every API write of the disruption controller and queue, plus every read made between a method returning commands and the end of StartCommand and inside queue reconciles), then EACH index is failed once (quick: one drawn kind of 500 / conflict / persistent-500-until-the-controller-call-returns / NotFound, thorough: all four); " +
		"oracle: monitor at the instant of every NodeClaim delete issued by the queue - the claim is a candidate of a computed command, every replacement of that command exists and is Initialized in the API, and the command is not past its timeout; after every step no provider id belongs to two commands and no method selects a node of a command in flight; after the history and ONE fault-free disruption reconcile, every candidate of a command that is no longer in the queue and that was not deleted carries neither the disruption taint nor the DisruptionReason condition and is not marked for deletion in the cluster state; " +
		"non-trivial = the scenario started a command with a replacement and the fault landed inside the protocol (StartCommand or a queue reconcile), or such a command ended without removing its candidate; evaluations are scenarios, executions (scenario x fault) are in the counters",
	Assumptions: []string{"client-go's retry.DefaultBackoff keeps its four attempts but does not sleep real time", "calls of one command's candidates run in parallel goroutines: the fault index is an index into whatever order they took"},
	Draw:        drawC08, Exec: execC08, ReplayTries: 5,
}

func TestC08(t *testing.T) { ev.Run(t, propC08) }
