package harness

import (
	"fmt"
	"os"
	"sync"
	"testing"
	"time"

	corev1 "k8s.io/api/core/v1"
	storagev1 "k8s.io/api/storage/v1"
	apierrors "k8s.io/apimachinery/pkg/api/errors"
	metav1 "k8s.io/apimachinery/pkg/apis/meta/v1"
	"k8s.io/apimachinery/pkg/runtime/schema"
	"k8s.io/apimachinery/pkg/types"
	"pgregory.net/rapid"
	"sigs.k8s.io/controller-runtime/pkg/client"

	v1 "sigs.k8s.io/karpenter/pkg/apis/v1"
	"sigs.k8s.io/karpenter/pkg/controllers/node/termination"
	"sigs.k8s.io/karpenter/pkg/controllers/node/termination/terminator"
	"sigs.k8s.io/karpenter/pkg/controllers/nodeclaim/lifecycle"

	"verif/harness/ev"
	"verif/harness/sim"
)

// C09: nodes and instances are finalized in order and never leaked.

type c09Op struct {
	Kind string `json:"kind"` // node | claim | evict | kubelet | detach | clock | restart | notready | ready | delete
	Arg  int    `json:"arg"`
}

type c09Scenario struct {
	Stage      string   `json:"stage"` // unlaunched | launched | registered | initialized
	TGP        string   `json:"tgp"`   // "" | 30s | 10m
	Pods       []c10Pod `json:"pods"`
	VolumeOf   []int    `json:"volumeOf"` // pod indexes that use a PVC with a VolumeAttachment
	DeleteNode bool     `json:"deleteNodeFirst"`
	Deletes    int      `json:"providerDeletesNeeded"` // provider.Delete calls needed before the instance is gone
	Gone       bool     `json:"instanceAlreadyGone"`
	Ops        []c09Op  `json:"ops"`
	FaultKinds []int    `json:"faultKinds"`
}

func drawC09(t *rapid.T) *c09Scenario {
	s := &c09Scenario{Stage: rapid.SampledFrom([]string{"unlaunched", "launched", "registered", "initialized", "initialized", "initialized"}).Draw(t, "stage"),
		TGP: rapid.SampledFrom([]string{"", "", "30s", "10m"}).Draw(t, "tgp"), DeleteNode: rapid.IntRange(0, 3).Draw(t, "deleteNode") == 0,
		Deletes: rapid.IntRange(1, 3).Draw(t, "deletesNeeded"), Gone: rapid.IntRange(0, 7).Draw(t, "gone") == 0}
	n := rapid.IntRange(0, 4).Draw(t, "nPods")
	for i := 0; i < n; i++ {
		p := genC10Pod(t)
		// a pod that ran to completion stays on the node (nothing evicts it); its volume may still be attached
		p.Terminal = dpct(t, 15, "terminal")
		s.Pods = append(s.Pods, p)
		if rapid.IntRange(0, 2).Draw(t, "hasVolume") == 0 {
			s.VolumeOf = append(s.VolumeOf, i)
		}
	}
	kinds := []string{"node", "node", "node", "node", "claim", "claim", "claim", "evict", "evict", "evict", "kubelet", "kubelet", "detach", "clock", "clock", "restart", "notready", "ready", "delete", "progress", "progress", "progress", "progress", "land", "nodeThenClaimAt", "claimThenNodeAt"}
	minOps := rapid.IntRange(6, 30).Draw(t, "minOps")
	s.Ops = rapid.SliceOfN(rapid.Custom(func(t *rapid.T) c09Op {
		return c09Op{Kind: rapid.SampledFrom(kinds).Draw(t, "kind"), Arg: rapid.IntRange(0, 7).Draw(t, "arg")}
	}), minOps, 48).Draw(t, "ops")
	s.FaultKinds = rapid.SliceOfN(rapid.IntRange(0, 2), 6, 6).Draw(t, "faultKinds")
	return s
}

type c09Run struct {
	calls      int
	violations []ev.Violation
	finished   bool // both finalizers are gone at the end
	drainable  bool
	disturbed  bool
}

func hasFinalizer(o client.Object) bool {
	for _, f := range o.GetFinalizers() {
		if f == v1.TerminationFinalizer {
			return true
		}
	}
	return false
}

func runC09(s *c09Scenario, faultIdx, faultKind int) *c09Run {
	r := &c09Run{}
	violate := func(sig, f string, a ...any) {
		if len(r.violations) < 5 {
			r.violations = append(r.violations, ev.Violation{Sig: sig, What: fmt.Sprintf("[fault #%d kind %d] ", faultIdx, faultKind) + fmt.Sprintf(f, a...)})
		}
	}
	w := sim.New(sim.Options{})
	w.ApplyNodeClass()
	w.Provider.Default = c14Catalog
	w.Provider.DeletesNeeded = s.Deletes
	np := &v1.NodePool{ObjectMeta: metav1.ObjectMeta{Name: "p0", UID: "pool-uid-0"}}
	np.Spec.Template.Spec.ExpireAfter = v1.MustParseNillableDuration("Never")
	if s.TGP != "" {
		d, _ := time.ParseDuration(s.TGP)
		np.Spec.Template.Spec.TerminationGracePeriod = &metav1.Duration{Duration: d}
	}
	pool := w.ApplyPool(np)
	stage := map[string]string{"unlaunched": sim.StageUnlaunched, "launched": sim.StageLaunched, "registered": sim.StageRegistered, "initialized": sim.StageInitialized}[s.Stage]
	bn := w.ApplyNode(sim.NodeSpec{Name: "node-1", Pool: pool.Name, TypeName: "std", Zone: "zone-a", CT: "on-demand", OS: "linux", Stage: stage, AgeSeconds: 600}, pool)
	claimName := bn.NodeClaim.Name
	claimUID := bn.NodeClaim.UID
	providerID := bn.NodeClaim.Status.ProviderID
	hasNode := bn.Node != nil
	if s.Gone && providerID != "" {
		w.Provider.Instances[providerID].Exists = false
	}
	start := w.Clock.Now()
	// pods and volumes on the node
	type podTruth struct {
		spec c10Pod
		name string
		uid  types.UID
	}
	var pods []*podTruth
	sc := &c10Scenario{}
	if hasNode {
		for i, p := range s.Pods {
			obj := sc.podObject(i, p, fmt.Sprintf("pod-%d", i), start)
			for _, vi := range s.VolumeOf {
				if vi == i {
					obj.Spec.Volumes = []corev1.Volume{{Name: "data", VolumeSource: corev1.VolumeSource{PersistentVolumeClaim: &corev1.PersistentVolumeClaimVolumeSource{ClaimName: fmt.Sprintf("pvc-%d", i)}}}}
					pvName := fmt.Sprintf("pv-%d", i)
					w.Apply(&corev1.PersistentVolumeClaim{ObjectMeta: metav1.ObjectMeta{Name: fmt.Sprintf("pvc-%d", i), Namespace: "default"}, Spec: corev1.PersistentVolumeClaimSpec{VolumeName: pvName}})
					w.Apply(&storagev1.VolumeAttachment{ObjectMeta: metav1.ObjectMeta{Name: fmt.Sprintf("va-%d", i)}, Spec: storagev1.VolumeAttachmentSpec{NodeName: "node-1", Attacher: "csi.sim", Source: storagev1.VolumeAttachmentSource{PersistentVolumeName: &pvName}}})
				}
			}
			w.Apply(obj)
			if p.Terminating > 0 {
				grace := 30
				if p.Grace >= 0 {
					grace = p.Grace
				}
				w.Delete(obj)
				cur := &corev1.Pod{}
				w.Quiet(func() { _ = w.Client.Get(w.Ctx, client.ObjectKeyFromObject(obj), cur) })
				w.SetPodDeletionTime(cur, start.Add(time.Duration(grace-p.Terminating)*time.Second))
			}
			pods = append(pods, &podTruth{spec: p, name: obj.Name, uid: obj.UID})
			if !p.Static && !p.Tolerates {
				r.drainable = true
			}
		}
	}
	pdb := map[types.UID]string{}
	for _, p := range pods {
		pdb[p.uid] = p.spec.PDB
	}
	getPod := func(name string) *corev1.Pod {
		p := &corev1.Pod{}
		var err error
		w.Quiet(func() { err = w.Client.Get(w.Ctx, client.ObjectKey{Namespace: "default", Name: name}, p) })
		if err != nil {
			return nil
		}
		return p
	}
	getNode := func() *corev1.Node {
		n := &corev1.Node{}
		var err error
		w.Quiet(func() { err = w.Client.Get(w.Ctx, client.ObjectKey{Name: "node-1"}, n) })
		if err != nil {
			return nil
		}
		return n
	}
	w.Evict = func(w *sim.World, pod *corev1.Pod) error {
		cur := getPod(pod.Name)
		if cur == nil {
			return apierrors.NewNotFound(corev1.Resource("pods"), pod.Name)
		}
		if pdb[cur.UID] == "blocked" || pdb[cur.UID] == "multi" {
			return apierrors.NewTooManyRequests("Cannot evict pod as it would violate the pod's disruption budget.", 1)
		}
		return w.GracefulEvict(cur)
	}
	// ---- faults --------------------------------------------------------------------------------------------------
	inController := false
	hit := func() bool {
		if !inController {
			return false
		}
		r.calls++
		return r.calls == faultIdx
	}
	w.Faults = []*sim.Fault{{N: 1}}
	w.Faults[0].Match = func(c *sim.Call) bool {
		if c.IsWrite() && hit() {
			gr := schema.GroupResource{Resource: c.Kind}
			switch faultKind {
			case 0:
				w.Faults[0].Err = apierrors.NewInternalError(fmt.Errorf("injected 500"))
			case 1:
				w.Faults[0].Err = apierrors.NewConflict(gr, c.Key, fmt.Errorf("injected conflict"))
			default:
				w.Faults[0].Err = apierrors.NewNotFound(gr, c.Key)
			}
			r.disturbed = true
			return true
		}
		return false
	}
	w.Provider.Hook = func(verb string, _ *v1.NodeClaim, _ string) error {
		if (verb == "delete" || verb == "get" || verb == "create") && hit() {
			r.disturbed = true
			return fmt.Errorf("injected provider %s failure", verb)
		}
		return nil
	}
	lostInRestart := false
	// ---- monitors: evaluated at the instant a finalizer is about to be removed -------------------------------------
	instanceLive := func() bool {
		for _, inst := range w.Provider.InstancesFor(claimUID) {
			if inst.Exists {
				return true
			}
		}
		return providerID != "" && w.Provider.InstanceExists(providerID)
	}
	w.Monitors = append(w.Monitors, func(w *sim.World, c *sim.Call) {
		if !inController || (c.Verb != "patch" && c.Verb != "update") || c.Sub != "" {
			return
		}
		now := w.Clock.Now()
		switch obj := c.Obj.(type) {
		case *corev1.Node:
			cur := getNode()
			if cur == nil || !hasFinalizer(cur) || hasFinalizer(obj) {
				return
			}
			nc := w.GetNodeClaim(claimName)
			if nc == nil {
				return // the property speaks about nodes that have a NodeClaim
			}
			notReady := true
			for _, cond := range cur.Status.Conditions {
				if cond.Type == corev1.NodeReady && cond.Status == corev1.ConditionTrue {
					notReady = false
				}
			}
			if notReady && !instanceLive() {
				return // documented fast path: node not ready and the provider already reports the instance gone
			}
			if instanceLive() {
				violate("node-finalizer:instance-still-exists", "Node finalizer removed while the provider still has the instance (node ready=%v)", !notReady)
			}
			tainted := false
			for _, t := range cur.Spec.Taints {
				tainted = tainted || (t.Key == v1.DisruptedTaintKey && t.Effect == corev1.TaintEffectNoSchedule)
			}
			if !tainted {
				violate("node-finalizer:not-cordoned", "Node finalizer removed although the node does not carry %s:NoSchedule", v1.DisruptedTaintKey)
			}
			// the deadline by the harness' own reading: the NodeClaim's deletion instant plus its terminationGracePeriod
			// (whole seconds, as the annotation stores it); what Karpenter wrote into the annotation is not trusted
			var termination *time.Time
			if nc.Spec.TerminationGracePeriod != nil && nc.DeletionTimestamp != nil {
				t := nc.DeletionTimestamp.Add(nc.Spec.TerminationGracePeriod.Duration).Truncate(time.Second)
				termination = &t
			}
			undrainableVolumes := map[string]bool{}
			for _, p := range pods {
				pod := getPod(p.name)
				if pod == nil || pod.UID != p.uid {
					continue
				}
				stuck := pod.DeletionTimestamp != nil && now.Sub(pod.DeletionTimestamp.Time) > time.Minute
				drainable := !p.spec.Tolerates && !p.spec.Static && !stuck
				if !drainable {
					for _, v := range pod.Spec.Volumes {
						if v.PersistentVolumeClaim != nil {
							undrainableVolumes["pv-"+v.PersistentVolumeClaim.ClaimName[len("pvc-"):]] = true
						}
					}
					continue
				}
				if pod.Status.Phase != corev1.PodSucceeded && pod.Status.Phase != corev1.PodFailed {
					violate("node-finalizer:pod-still-waiting", "Node finalizer removed while drainable pod %s is still on the node (terminating=%v)", pod.Name, pod.DeletionTimestamp != nil)
				}
			}
			var vas storagev1.VolumeAttachmentList
			w.Quiet(func() { _ = w.Client.List(w.Ctx, &vas) })
			for _, va := range vas.Items {
				if va.Spec.NodeName != "node-1" || va.Spec.Source.PersistentVolumeName == nil || undrainableVolumes[*va.Spec.Source.PersistentVolumeName] {
					continue
				}
				if termination == nil || !now.After(*termination) {
					violate("node-finalizer:volume-still-attached", "Node finalizer removed while VolumeAttachment %s of a drainable pod exists and the termination grace period has not expired", va.Name)
				}
			}
		case *v1.NodeClaim:
			cur := w.GetNodeClaim(obj.Name)
			if cur == nil || !hasFinalizer(cur) || hasFinalizer(obj) {
				return
			}
			if cur.StatusConditions().Get(v1.ConditionTypeRegistered).IsTrue() {
				for _, n := range w.ListNodes() {
					if n.Spec.ProviderID == cur.Status.ProviderID && cur.Status.ProviderID != "" {
						violate("claim-finalizer:node-still-exists", "NodeClaim finalizer removed while its registered Node %s still exists", n.Name)
					}
				}
			}
			if instanceLive() {
				sig := "claim-finalizer:instance-leaked"
				if lostInRestart {
					sig += ":launch-result-lost-in-restart"
				}
				violate(sig, "NodeClaim finalizer removed while the provider still has an instance for it (status.providerID=%q)", cur.Status.ProviderID)
			}
		}
	})

	// ---- controllers ---------------------------------------------------------------------------------------------
	var lc *lifecycle.Controller
	var nodeCtrl *termination.Controller
	var q *terminator.Queue
	restart := func() {
		lc = w.NewLifecycle(nil)
		q = terminator.NewQueue(w.Clock, w.Client, w.Recorder)
		nodeCtrl = termination.NewController(w.Clock, w.Client, w.Provider, terminator.NewTerminator(w.Clock, w.Client, q, w.Recorder), w.Recorder)
	}
	restart()
	deleteStarted := false
	_ = lostInRestart
	startDelete := func() {
		if deleteStarted {
			return
		}
		deleteStarted = true
		if s.DeleteNode && getNode() != nil {
			w.Delete(getNode())
		} else if nc := w.GetNodeClaim(claimName); nc != nil {
			w.Delete(nc)
		}
	}
	if s.Stage != "unlaunched" {
		startDelete()
	}
	var doOp func(op c09Op)
	// interleaving (see nodeThenClaimAt): one permanent monitor, armed by ilK > 0
	ilK, ilSeen, ilNested, ilSecond := 0, 0, false, ""
	var ilMu sync.Mutex
	w.Monitors = append(w.Monitors, func(_ *sim.World, cl *sim.Call) {
		ilMu.Lock()
		if ilK == 0 || ilNested || !inController || !cl.IsWrite() {
			ilMu.Unlock()
			return
		}
		ilSeen++
		fire := ilSeen == ilK
		if fire {
			ilNested = true
		}
		ilMu.Unlock()
		if fire {
			doOp(c09Op{Kind: ilSecond})
			inController = true
		}
	})
	doOp = func(op c09Op) {
		switch op.Kind {
		case "progress":
			// one round of everything that moves a termination forward: node reconcile, the eviction queue on every queued
			// pod, the kubelet finishing every terminating pod, a few seconds, the NodeClaim reconcile
			doOp(c09Op{Kind: "node"})
			for i := range pods {
				doOp(c09Op{Kind: "evict", Arg: i})
			}
			for _, p := range pods {
				if pod := getPod(p.name); pod != nil && pod.DeletionTimestamp != nil && p.spec.Terminating == 0 {
					w.FinishPod(client.ObjectKeyFromObject(pod))
				}
			}
			doOp(c09Op{Kind: "clock", Arg: 0})
			doOp(c09Op{Kind: "clock", Arg: 0})
			doOp(c09Op{Kind: "claim"})
		case "nodeThenClaimAt", "claimThenNodeAt":
			// the two controllers run concurrently in the operator: one reconcile of the other controller happens at the
			// k-th API write of this one (they only meet through the API and the provider)
			first, second := "node", "claim"
			if op.Kind == "claimThenNodeAt" {
				first, second = "claim", "node"
			}
			ilK, ilSeen, ilNested, ilSecond = op.Arg%3+1, 0, false, second
			doOp(c09Op{Kind: first})
			ilK = 0
		case "land":
			// a pod is bound to the node although it is being drained (explicit spec.nodeName, or a scheduler that has not
			// seen the taint yet)
			if n := getNode(); n != nil && len(pods) < 7 {
				spec := c10Pod{Grace: -1}
				obj := sc.podObject(100+len(pods), spec, fmt.Sprintf("late-%d", len(pods)), w.Clock.Now())
				w.Apply(obj)
				pods = append(pods, &podTruth{spec: spec, name: obj.Name, uid: obj.UID})
				r.drainable = true
			}
		case "delete":
			startDelete()
		case "node":
			if n := getNode(); n != nil {
				inController = true
				w.RunBlocking(func() { _, _ = nodeCtrl.Reconcile(w.Ctx, n) }, time.Second, nil)
				inController = false
			}
		case "claim":
			if nc := w.GetNodeClaim(claimName); nc != nil {
				inController = true
				w.ReconcileNodeClaimObject(lc, nc)
				inController = false
				if cur := w.GetNodeClaim(claimName); cur != nil && cur.Status.ProviderID != "" {
					providerID = cur.Status.ProviderID
				}
			}
		case "evict":
			if len(pods) > 0 {
				var queued []*corev1.Pod
				for _, p := range pods {
					if pod := getPod(p.name); pod != nil && q.Has(pod) {
						queued = append(queued, pod)
					}
				}
				if len(queued) > 0 {
					inController = true
					_, _ = q.Reconcile(w.Ctx, queued[op.Arg%len(queued)])
					inController = false
				}
			}
		case "kubelet":
			if len(pods) > 0 {
				p := pods[op.Arg%len(pods)]
				if pod := getPod(p.name); pod != nil && pod.DeletionTimestamp != nil && !(p.spec.Terminating > 0 && op.Arg%2 == 0) {
					w.FinishPod(client.ObjectKeyFromObject(pod))
				}
			}
		case "detach":
			var vas storagev1.VolumeAttachmentList
			w.Quiet(func() { _ = w.Client.List(w.Ctx, &vas) })
			if len(vas.Items) > 0 {
				va := vas.Items[op.Arg%len(vas.Items)]
				w.Delete(&va)
			}
		case "clock":
			w.Clock.Step([]time.Duration{6 * time.Second, 40 * time.Second, 2 * time.Minute, 11 * time.Minute}[op.Arg%4])
		case "restart":
			// a launch whose result was never persisted only lives in the controller's memory
			if cur := w.GetNodeClaim(claimName); cur != nil && cur.Status.ProviderID == "" && instanceLive() {
				lostInRestart = true
			}
			restart()
			r.disturbed = true
		case "notready", "ready":
			if n := getNode(); n != nil {
				w.UpdateNode("node-1", func(n *corev1.Node) {
					st := corev1.ConditionTrue
					if op.Kind == "notready" {
						st = corev1.ConditionFalse
					}
					n.Status.Conditions = []corev1.NodeCondition{{Type: corev1.NodeReady, Status: st}}
				})
			}
		}
	}
	for _, op := range s.Ops {
		doOp(op)
	}
	// terminal check: a NodeClaim that disappeared from the API has no live instance
	if w.GetNodeClaim(claimName) == nil {
		r.finished = true
		if instanceLive() && !lostInRestart {
			violate("terminal:orphaned-instance", "the NodeClaim is gone from the API but the provider still has its instance %v", providerIDs(w, claimUID))
		}
	}
	if os.Getenv("VERIF_DBG") != "" && faultIdx == 0 {
		for _, cl := range w.CallsSnapshot() {
			fmt.Println("C09DBG", cl.String())
		}
		fmt.Println("C09DBG finished", r.finished)
	}
	return r
}

func execC09(s *c09Scenario, c *ev.Ctx) {
	base := runC09(s, 0, 0)
	for _, v := range base.violations {
		c.Violate(v.Sig, "%s", v.What)
	}
	executions := 1
	kindsPer := 1
	if os.Getenv("VERIF_TIER") == "thorough" {
		kindsPer = 3
	}
	for i := 1; i <= base.calls && len(c.Violations()) == 0; i++ {
		for k := 0; k < kindsPer; k++ {
			r := runC09(s, i, (s.FaultKinds[i%len(s.FaultKinds)]+k)%3)
			executions++
			for _, v := range r.violations {
				c.Violate(v.Sig, "%s", v.What)
			}
		}
	}
	c.Add("executions", executions)
	c.Add("fault_points", base.calls)
	c.Class("stage:" + s.Stage)
	c.ClassIf(base.finished, "deletion_completed")
	c.ClassIf(base.drainable, "drainable_pod")
	terminalWithVolume := false
	for _, vi := range s.VolumeOf {
		if vi < len(s.Pods) && s.Pods[vi].Terminal && !s.Pods[vi].Tolerates && !s.Pods[vi].Static {
			terminalWithVolume = true
		}
	}
	c.ClassIf(terminalWithVolume, "completed_pod_with_attached_volume")
	c.ClassIf(terminalWithVolume && base.finished, "completed_pod_with_attached_volume:deletion_completed")
	c.NTIf(base.drainable && (base.calls > 0 || base.disturbed))
	c.Sample(map[string]any{"stage": s.Stage, "tgp": s.TGP, "pods": len(s.Pods), "ops": len(s.Ops), "fault_points": base.calls, "finished": base.finished})
}

var propC09 = ev.Prop[c09Scenario]{
	ID: "C09", Test: "TestC09", Level: "fault_enumeration",
	Rule: "rapid draws a NodeClaim at {unlaunched, launched, registered, initialized} with its Node, 0-4 pods (as C10: drainable / do-not-disrupt / daemon / critical / stuck terminating / tolerating / static, PDBs), VolumeAttachments of some pods, terminationGracePeriod none/30s/10m, instance already gone or needing 1-3 provider deletes, deletion started on the NodeClaim or on the Node, and 6-48 operations from {node-termination reconcile, NodeClaim-lifecycle reconcile, eviction-queue reconcile, kubelet finishes a pod, attach-detach removes a VA, clock +6s/40s/2m/11m, a pod bound to the node during the drain, a progress round (node reconcile + eviction queue + kubelet + clock + NodeClaim reconcile), one controller's reconcile running at the k-th API write of the other's, controller restart (fresh controllers, eviction queue lost), node Ready/NotReady, delete}; a fault-free run counts the controllers' API writes and provider calls and EVERY index is failed once (quick: one drawn kind of 500/conflict/not-found, thorough: all three); " +
		"oracle (monitors at the instant a finalizer is about to be removed): Node finalizer (node has a NodeClaim) only when cordoned, no drainable non-terminal pod left, no VolumeAttachment of a drainable pod unless past the termination time (computed by the harness as NodeClaim deletionTimestamp + terminationGracePeriod, not read from the annotation Karpenter writes), instance gone - or the fast path node NotReady and instance already gone; NodeClaim finalizer only when its registered Node is gone and no instance the provider ever created for it exists; a NodeClaim gone from the API has no live instance; " +
		"non-trivial = >=1 drainable pod and >=1 injected fault / restart before completion",
	Assumptions: []string{"stuck-terminating = deletionTimestamp more than one minute in the past, as documented in the code"},
	Draw:        drawC09, Exec: execC09, ReplayTries: 3,
}

func TestC09(t *testing.T) { ev.Run(t, propC09) }
