package harness

import (
	"fmt"
	"net/http"
	"testing"
	"time"

	corev1 "k8s.io/api/core/v1"
	apierrors "k8s.io/apimachinery/pkg/api/errors"
	metav1 "k8s.io/apimachinery/pkg/apis/meta/v1"
	"k8s.io/apimachinery/pkg/types"
	"pgregory.net/rapid"
	"sigs.k8s.io/controller-runtime/pkg/client"

	v1 "sigs.k8s.io/karpenter/pkg/apis/v1"
	"sigs.k8s.io/karpenter/pkg/controllers/node/termination/terminator"

	"verif/harness/ev"
	"verif/harness/sim"
)

// C10: drain honours PDBs, do-not-disrupt and ordering until the deadline.

type c10Pod struct {
	Critical bool   `json:"critical,omitempty"`
	Daemon   bool   `json:"daemon,omitempty"`
	Grace    int    `json:"grace"` // -1 = nil
	DND      string `json:"dnd,omitempty"`
	// AgeSec: how long the pod has been running (for duration-valued do-not-disrupt)
	AgeSec      int    `json:"ageSec,omitempty"`
	Static      bool   `json:"static,omitempty"`
	Tolerates   bool   `json:"tolerates,omitempty"`
	Terminating int    `json:"terminating,omitempty"` // 0 = no; otherwise deletion was requested this many seconds ago
	Terminal    bool   `json:"terminal,omitempty"`
	PDB         string `json:"pdb,omitempty"` // "" allowed | blocked | multi
}

type c10Op struct {
	Kind string `json:"kind"` // drain | reconcile | clock | land | replace | kubelet | unblock
	Arg  int    `json:"arg"`
}

type c10Scenario struct {
	Pods       []c10Pod `json:"pods"`
	Ops        []c10Op  `json:"ops"`
	FaultKinds []int    `json:"faultKinds"`
}

var c10Deadlines = []int{-1, -30, 20, 60, 900} // seconds after start; -1 = no deadline (first entry)

func genC10Pod(t *rapid.T) c10Pod {
	p := c10Pod{Critical: rapid.IntRange(0, 3).Draw(t, "critical") == 0, Daemon: rapid.IntRange(0, 3).Draw(t, "daemon") == 0,
		Grace: rapid.SampledFrom([]int{-1, 0, 30, 30, 600}).Draw(t, "grace")}
	switch rapid.IntRange(0, 9).Draw(t, "dnd") {
	case 0:
		p.DND = "true"
	case 1:
		p.DND = rapid.SampledFrom([]string{"1m", "10m", "1h"}).Draw(t, "dndDur")
		p.AgeSec = rapid.SampledFrom([]int{10, 59, 61, 599, 601, 7200}).Draw(t, "age")
	case 2:
		p.DND = "garbage"
	}
	p.Static = rapid.IntRange(0, 11).Draw(t, "static") == 0
	p.Tolerates = rapid.IntRange(0, 9).Draw(t, "tolerates") == 0
	if rapid.IntRange(0, 6).Draw(t, "terminating") == 0 {
		p.Terminating = rapid.SampledFrom([]int{5, 50, 90, 300}).Draw(t, "terminatingAgo")
	}
	p.Terminal = rapid.IntRange(0, 11).Draw(t, "terminal") == 0
	p.PDB = rapid.SampledFrom([]string{"", "", "", "blocked", "blocked", "multi"}).Draw(t, "pdb")
	return p
}

func drawC10(t *rapid.T) *c10Scenario {
	s := &c10Scenario{}
	n := rapid.IntRange(2, 8).Draw(t, "nPods")
	for i := 0; i < n; i++ {
		s.Pods = append(s.Pods, genC10Pod(t))
	}
	kinds := []string{"drain", "drain", "drain", "reconcile", "reconcile", "reconcile", "reconcile", "clock", "clock", "land", "replace", "kubelet", "unblock"}
	minOps := rapid.IntRange(4, 20).Draw(t, "minOps")
	s.Ops = rapid.SliceOfN(rapid.Custom(func(t *rapid.T) c10Op {
		return c10Op{Kind: rapid.SampledFrom(kinds).Draw(t, "kind"), Arg: rapid.IntRange(0, 9).Draw(t, "arg")}
	}), minOps, 36).Draw(t, "ops")
	s.FaultKinds = rapid.SliceOfN(rapid.IntRange(0, 1), 6, 6).Draw(t, "faultKinds")
	return s
}

type c10Truth struct {
	spec      c10Pod
	name      string
	uid       types.UID
	deadlines []time.Time // non-nil deadlines of every drain pass that found or put the pod in the queue (a superset of what the queue was told)
	// certain: deadlines the queue was certainly told for this pod: the drain pass put it into the queue, queued it for
	// direct deletion, or it belongs to the tier that every pass hands over (non-critical, non-daemon)
	certain []time.Time
	nilQueued bool
}

func (s *c10Scenario) podObject(i int, p c10Pod, name string, now time.Time) *corev1.Pod {
	pod := &corev1.Pod{ObjectMeta: metav1.ObjectMeta{Name: name, Namespace: "default", Labels: map[string]string{"app": name}, Finalizers: []string{"verif/kubelet"}},
		Spec: corev1.PodSpec{NodeName: "node-1", Containers: []corev1.Container{{Name: "c", Image: "img"}}}}
	if p.Grace >= 0 {
		g := int64(p.Grace)
		pod.Spec.TerminationGracePeriodSeconds = &g
	}
	if p.Critical {
		pod.Spec.PriorityClassName = "system-cluster-critical"
	}
	switch {
	case p.Static:
		pod.OwnerReferences = []metav1.OwnerReference{{APIVersion: "v1", Kind: "Node", Name: "node-1", UID: "node-uid", Controller: ptrTo(true)}}
	case p.Daemon:
		pod.OwnerReferences = []metav1.OwnerReference{{APIVersion: "apps/v1", Kind: "DaemonSet", Name: "ds", UID: "ds-uid", Controller: ptrTo(true)}}
	default:
		pod.OwnerReferences = []metav1.OwnerReference{{APIVersion: "apps/v1", Kind: "ReplicaSet", Name: "rs", UID: "rs-uid", Controller: ptrTo(true)}}
	}
	if p.DND != "" {
		pod.Annotations = map[string]string{v1.DoNotDisruptAnnotationKey: p.DND}
	}
	if p.Tolerates {
		pod.Spec.Tolerations = []corev1.Toleration{{Key: v1.DisruptedTaintKey, Operator: corev1.TolerationOpExists}}
	}
	pod.Status.Phase = corev1.PodRunning
	start := metav1.NewTime(now.Add(-time.Duration(p.AgeSec) * time.Second))
	pod.Status.StartTime = &start
	if p.Terminal {
		pod.Status.Phase = corev1.PodSucceeded
	}
	return pod
}

// refDNDActive: the do-not-disrupt annotation protects the pod right now ("true", or a duration not yet elapsed since
// the pod started; an unparsable value protects nothing).
func refDNDActive(p c10Pod, startedAgo time.Duration) bool {
	switch p.DND {
	case "":
		return false
	case "true":
		return true
	}
	d, err := time.ParseDuration(p.DND)
	if err != nil {
		return false
	}
	return startedAgo < d
}

type c10Run struct {
	writes     int
	violations []ev.Violation
	tiers      map[string]bool
	pdbBlocked bool
	crossed    bool
	// dueReconciles: reconciles of a running pod past the delete time of the earliest deadline it was queued under
	dueReconciles int
}

func runC10(s *c10Scenario, faultIdx, faultKind int) *c10Run {
	r := &c10Run{tiers: map[string]bool{}}
	violate := func(sig, f string, a ...any) {
		if len(r.violations) < 5 {
			r.violations = append(r.violations, ev.Violation{Sig: sig, What: fmt.Sprintf("[write fault #%d] ", faultIdx) + fmt.Sprintf(f, a...)})
		}
	}
	w := sim.New(sim.Options{})
	start := w.Clock.Now()
	node := &corev1.Node{ObjectMeta: metav1.ObjectMeta{Name: "node-1", UID: "node-uid", Labels: map[string]string{v1.NodePoolLabelKey: "p0"}},
		Spec: corev1.NodeSpec{ProviderID: "sim://zone-a/n1", Taints: []corev1.Taint{v1.DisruptedNoScheduleTaint}}}
	w.Apply(node)
	truth := map[types.UID]*c10Truth{}
	byIdx := []*c10Truth{}
	addPod := func(p c10Pod, name string) {
		obj := s.podObject(len(byIdx), p, name, w.Clock.Now())
		w.Apply(obj)
		if p.Terminating > 0 {
			// deletion was requested Terminating seconds ago with the pod's own grace period
			grace := 30
			if p.Grace >= 0 {
				grace = p.Grace
			}
			w.Delete(obj)
			cur := &corev1.Pod{}
			w.Quiet(func() { _ = w.Client.Get(w.Ctx, client.ObjectKeyFromObject(obj), cur) })
			w.SetPodDeletionTime(cur, w.Clock.Now().Add(time.Duration(grace-p.Terminating)*time.Second))
		}
		tr := &c10Truth{spec: p, name: name, uid: obj.UID}
		truth[obj.UID] = tr
		byIdx = append(byIdx, tr)
	}
	for i, p := range s.Pods {
		addPod(p, fmt.Sprintf("pod-%d", i))
	}
	pdb := map[types.UID]string{}
	for _, tr := range byIdx {
		pdb[tr.uid] = tr.spec.PDB
	}
	getPod := func(name string) *corev1.Pod {
		p := &corev1.Pod{}
		var err error
		w.Quiet(func() { err = w.Client.Get(w.Ctx, client.ObjectKey{Namespace: "default", Name: name}, p) })
		if err != nil {
			return nil
		}
		return p
	}
	inController := false
	hit := func() bool {
		if !inController {
			return false
		}
		r.writes++
		return r.writes == faultIdx
	}
	w.Faults = []*sim.Fault{{N: 1}}
	w.Faults[0].Match = func(c *sim.Call) bool {
		if c.IsWrite() && hit() {
			if faultKind == 0 {
				w.Faults[0].Err = apierrors.NewInternalError(fmt.Errorf("injected 500"))
			} else {
				w.Faults[0].Err = apierrors.NewTooManyRequests("injected 429", 1)
			}
			return true
		}
		return false
	}
	// eviction API emulation
	w.Evict = func(w *sim.World, pod *corev1.Pod) error {
		cur := getPod(pod.Name)
		if cur == nil {
			return apierrors.NewNotFound(corev1.Resource("pods"), pod.Name)
		}
		if cur.UID != pod.UID {
			return apierrors.NewConflict(corev1.Resource("pods"), pod.Name, fmt.Errorf("uid precondition"))
		}
		switch pdb[cur.UID] {
		case "blocked":
			r.pdbBlocked = true
			return apierrors.NewTooManyRequests("Cannot evict pod as it would violate the pod's disruption budget.", 1)
		case "multi":
			r.pdbBlocked = true
			return &apierrors.StatusError{ErrStatus: metav1.Status{Status: metav1.StatusFailure, Code: http.StatusInternalServerError, Reason: metav1.StatusReasonInternalError,
				Message: "This pod has more than one PodDisruptionBudget, which the eviction subresource does not support."}}
		}
		return w.GracefulEvict(cur)
	}
	deleteSeen := map[types.UID]bool{}
	active := func(p *corev1.Pod) bool {
		return p != nil && p.DeletionTimestamp == nil && p.Status.Phase != corev1.PodSucceeded && p.Status.Phase != corev1.PodFailed
	}
	// monitors on every pod-removing call the controller issues
	w.Monitors = append(w.Monitors, func(w *sim.World, c *sim.Call) {
		if !inController || c.Kind != "Pod" {
			return
		}
		now := w.Clock.Now()
		pod, _ := c.Obj.(*corev1.Pod)
		if pod == nil {
			return
		}
		cur := getPod(pod.Name)
		switch {
		case c.Verb == "subcreate" && c.Sub == "eviction":
			if cur == nil || cur.UID != pod.UID {
				return // the API server answers 404 / 409, nothing is evicted
			}
			tr := truth[cur.UID]
			if tr == nil {
				return
			}
			started := now.Sub(cur.Status.StartTime.Time)
			switch {
			case refDNDActive(tr.spec, started):
				violate("evicted:do-not-disrupt", "eviction issued for pod %s whose do-not-disrupt annotation %q is active (running for %s)", cur.Name, tr.spec.DND, started)
			case tr.spec.Static:
				violate("evicted:static-pod", "eviction issued for static pod %s", cur.Name)
			case tr.spec.Tolerates:
				violate("evicted:tolerates-disruption-taint", "eviction issued for pod %s, which tolerates the disruption taint", cur.Name)
			case cur.Status.Phase == corev1.PodSucceeded || cur.Status.Phase == corev1.PodFailed:
				violate("evicted:terminal", "eviction issued for terminal pod %s", cur.Name)
			case cur.DeletionTimestamp != nil:
				violate("evicted:terminating", "eviction issued for pod %s, which is already terminating", cur.Name)
			}
		case c.Verb == "delete":
			deleteSeen[pod.UID] = true
			if c.GracePeriod == nil || *c.GracePeriod < 1 {
				violate("delete:zero-grace", "pod %s deleted directly with grace period %v", pod.Name, c.GracePeriod)
			}
			if cur == nil || cur.UID != pod.UID {
				return
			}
			tr := truth[cur.UID]
			if tr == nil {
				return
			}
			if len(tr.deadlines) == 0 {
				violate("delete:without-deadline", "pod %s deleted directly although it was never queued under a node deadline (no terminationGracePeriod)", cur.Name)
				return
			}
			eff := tr.deadlines[0]
			for _, d := range tr.deadlines {
				if d.Before(eff) {
					eff = d
				}
			}
			if cur.DeletionTimestamp != nil {
				if !cur.DeletionTimestamp.After(eff) {
					violate("delete:terminating-within-deadline", "terminating pod %s (gone by %s) deleted directly although it finishes before the node deadline %s", cur.Name, cur.DeletionTimestamp.Format(time.RFC3339), eff.Format(time.RFC3339))
				}
			} else {
				if cur.Spec.TerminationGracePeriodSeconds == nil {
					violate("delete:no-pod-grace", "pod %s without a grace period deleted directly", cur.Name)
				} else if g := time.Duration(*cur.Spec.TerminationGracePeriodSeconds) * time.Second; !now.After(eff.Add(-g)) {
					violate("delete:too-early", "pod %s (grace %s) deleted directly at %s, earlier than node deadline %s minus its grace period", cur.Name, g, now.Sub(start), eff.Sub(start))
				}
			}
			if c.GracePeriod != nil {
				remaining := int64(eff.Sub(now).Seconds())
				if remaining < 1 {
					remaining = 1
				}
				if *c.GracePeriod > remaining {
					violate("delete:later-deadline-used", "pod %s deleted with grace %ds, but the earliest deadline it was queued under leaves only %ds", cur.Name, *c.GracePeriod, remaining)
				}
			}
		}
	})

	recorder := w.Recorder
	q := terminator.NewQueue(w.Clock, w.Client, recorder)
	term := terminator.NewTerminator(w.Clock, w.Client, q, recorder)
	landed := 0
	for _, op := range s.Ops {
		switch op.Kind {
		case "drain":
			var deadline *time.Time
			if d := c10Deadlines[op.Arg%len(c10Deadlines)]; d != -1 {
				t := start.Add(time.Duration(d) * time.Second)
				deadline = &t
			}
			// classification of the pods on the node right now, by the harness' own reading of the documentation
			type live struct {
				tr         *c10Truth
				pod        *corev1.Pod
				waiting    bool
				deleteElig bool
				hasBefore  bool
			}
			var lives []*live
			for _, tr := range byIdx {
				cur := getPod(tr.name)
				if cur == nil || cur.UID != tr.uid {
					continue
				}
				l := &live{tr: tr, pod: cur}
				terminalNow := cur.Status.Phase == corev1.PodSucceeded || cur.Status.Phase == corev1.PodFailed
				stuck := cur.DeletionTimestamp != nil && w.Clock.Now().Sub(cur.DeletionTimestamp.Time) > time.Minute
				l.waiting = !terminalNow && !tr.spec.Tolerates && !tr.spec.Static && !stuck
				if deadline != nil {
					if cur.DeletionTimestamp != nil {
						l.deleteElig = cur.DeletionTimestamp.After(*deadline)
					} else if cur.Spec.TerminationGracePeriodSeconds != nil {
						l.deleteElig = w.Clock.Now().After(deadline.Add(-time.Duration(*cur.Spec.TerminationGracePeriodSeconds) * time.Second))
					}
				}
				l.hasBefore = q.Has(cur)
				lives = append(lives, l)
				if l.waiting {
					tier := "noncritical-nondaemon"
					if tr.spec.Critical || tr.spec.Daemon {
						tier = "critical-or-daemon"
					}
					r.tiers[tier] = true
				}
			}
			inController = true
			_ = term.Drain(w.Ctx, node, deadline)
			inController = false
			firstTierWaiting := false
			for _, l := range lives {
				if l.waiting && !l.deleteElig && !l.tr.spec.Critical && !l.tr.spec.Daemon {
					firstTierWaiting = true
				}
			}
			for _, l := range lives {
				newly := !l.hasBefore && q.Has(l.pod)
				if q.Has(l.pod) {
					if deadline != nil {
						l.tr.deadlines = append(l.tr.deadlines, *deadline)
						if l.waiting && (newly || l.deleteElig || (!l.tr.spec.Critical && !l.tr.spec.Daemon)) {
							l.tr.certain = append(l.tr.certain, *deadline)
						}
					} else {
						l.tr.nilQueued = true
					}
				}
				if newly && !l.deleteElig && (l.tr.spec.Critical || l.tr.spec.Daemon) && firstTierWaiting {
					violate("order:critical-or-daemon-before-workloads", "pod %s (critical=%v daemon=%v) was queued for graceful eviction while non-critical non-daemon pods are still waiting on the node", l.tr.name, l.tr.spec.Critical, l.tr.spec.Daemon)
				}
				if newly && !l.waiting {
					violate("queued:not-drainable", "pod %s was queued for drain although it is terminal, static, stuck terminating or tolerates the disruption taint", l.tr.name)
				}
			}
		case "reconcile":
			if len(byIdx) == 0 {
				continue
			}
			tr := byIdx[op.Arg%len(byIdx)]
			// the workqueue mostly delivers pods that were enqueued; now and then any pod (same-name replacement races)
			var queued []*c10Truth
			for _, x := range byIdx {
				if p := getPod(x.name); p != nil && q.Has(p) {
					queued = append(queued, x)
				}
			}
			if len(queued) > 0 && op.Arg != 9 {
				tr = queued[op.Arg%len(queued)]
			}
			cur := getPod(tr.name)
			if cur == nil {
				continue
			}
			// a running pod that was queued under a deadline is deleted directly by the first reconcile after that
			// deadline minus its grace period has passed, however often it was re-queued under later deadlines since
			due := false
			if ctr := truth[cur.UID]; ctr != nil && faultIdx == 0 && active(cur) && len(ctr.certain) > 0 && cur.Spec.TerminationGracePeriodSeconds != nil {
				eff := ctr.certain[0]
				for _, d := range ctr.certain {
					if d.Before(eff) {
						eff = d
					}
				}
				due = w.Clock.Now().After(eff.Add(-time.Duration(*cur.Spec.TerminationGracePeriodSeconds) * time.Second))
			}
			delete(deleteSeen, cur.UID)
			inController = true
			_, _ = q.Reconcile(w.Ctx, cur)
			inController = false
			if due {
				r.dueReconciles++
				if !deleteSeen[cur.UID] {
					violate("delete:earlier-deadline-forgotten", "pod %s was queued under a node deadline whose delete time has passed, but the reconcile at %s did not delete it (it is handled under a later deadline or none)", cur.Name, w.Clock.Now().Sub(start))
				}
			}
		case "clock":
			before := w.Clock.Now()
			w.Clock.Step([]time.Duration{5 * time.Second, 30 * time.Second, 2 * time.Minute, 15 * time.Minute}[op.Arg%4])
			for _, tr := range byIdx {
				for _, d := range tr.deadlines {
					g := time.Duration(max(tr.spec.Grace, 0)) * time.Second
					if before.Before(d.Add(-g)) && !w.Clock.Now().Before(d.Add(-g)) {
						r.crossed = true
					}
				}
			}
		case "land":
			if landed < 2 {
				landed++
				p := s.Pods[op.Arg%len(s.Pods)]
				p.Terminating, p.Terminal = 0, false
				addPod(p, fmt.Sprintf("late-%d", landed))
				pdb[byIdx[len(byIdx)-1].uid] = p.PDB
			}
		case "replace":
			tr := byIdx[op.Arg%len(byIdx)]
			if cur := getPod(tr.name); cur != nil && cur.UID == tr.uid {
				w.FinishPod(client.ObjectKeyFromObject(cur))
				if getPod(tr.name) == nil {
					p := tr.spec
					p.Terminating, p.Terminal = 0, false
					obj := s.podObject(0, p, tr.name, w.Clock.Now())
					w.Apply(obj)
					ntr := &c10Truth{spec: p, name: tr.name, uid: obj.UID}
					truth[obj.UID] = ntr
					byIdx = append(byIdx, ntr)
					pdb[obj.UID] = p.PDB
				}
			}
		case "kubelet":
			tr := byIdx[op.Arg%len(byIdx)]
			if cur := getPod(tr.name); cur != nil && cur.DeletionTimestamp != nil {
				w.FinishPod(client.ObjectKeyFromObject(cur))
			}
		case "unblock":
			tr := byIdx[op.Arg%len(byIdx)]
			pdb[tr.uid] = ""
		}
		// the deadline guarantee covers a pod for as long as it stays queued; once handled and dequeued it starts afresh
		for _, tr := range byIdx {
			if cur := getPod(tr.name); cur == nil || cur.UID != tr.uid || (!q.Has(cur) && !active(cur)) {
				tr.deadlines, tr.certain, tr.nilQueued = nil, nil, false
			}
		}
	}
	return r
}

func execC10(s *c10Scenario, c *ev.Ctx) {
	base := runC10(s, 0, 0)
	for _, v := range base.violations {
		c.Violate(v.Sig, "%s", v.What)
	}
	executions := 1
	for i := 1; i <= base.writes && len(c.Violations()) == 0; i++ {
		r := runC10(s, i, s.FaultKinds[i%len(s.FaultKinds)])
		executions++
		for _, v := range r.violations {
			c.Violate(v.Sig, "%s", v.What)
		}
	}
	c.Add("executions", executions)
	c.Add("write_fault_points", base.writes)
	c.ClassIf(len(base.tiers) >= 2, "two_tiers")
	c.ClassIf(base.pdbBlocked, "pdb_blocked")
	c.ClassIf(base.crossed, "crossed_deadline_minus_grace")
	c.ClassIf(base.dueReconciles > 0, "reconcile_past_delete_time_of_earliest_deadline")
	c.NTIf(len(base.tiers) >= 2 && (base.pdbBlocked || base.crossed))
	c.Sample(map[string]any{"pods": len(s.Pods), "ops": len(s.Ops), "writes": base.writes, "executions": executions})
}

var propC10 = ev.Prop[c10Scenario]{
	ID: "C10", Test: "TestC10", Level: "fault_enumeration",
	Rule: "rapid draws a node with 2-8 pods over {critical, daemon, grace nil/0/30/600, do-not-disrupt true/duration-vs-age/garbage, static, tolerating the disruption taint, terminating since t, terminal, PDB allowed/blocking/two PDBs} and 4-36 operations from {Terminator.Drain with deadline none/past/+20s/+60s/+15m (later calls may tighten or loosen it), eviction Queue.Reconcile of a chosen pod, clock +5s/30s/2m/15m, a new pod lands, a pod is replaced under the same name with a new UID, kubelet finishes a terminating pod, a PDB unblocks}; the eviction sub-resource is emulated (429 / multi-PDB 500 / graceful delete); a fault-free run counts the controller's API writes and EVERY write index is failed once (500 or 429); " +
		"oracle (monitors at the instant of every pod-removing call): only evictions and deletes with grace >=1; no eviction of do-not-disrupt-active, static, taint-tolerating, terminal or terminating pods; direct delete only for a pod queued under a node deadline, no earlier than earliest deadline minus pod grace (or terminating past the deadline), with grace <= what the EARLIEST deadline leaves; a running pod stays covered by the earliest deadline it was queued under until it is evicted, deleted or gone, and the first reconcile past that deadline minus its grace deletes it; after each Drain a daemon/critical pod newly queued for graceful eviction implies no waiting non-critical non-daemon pod; nothing undrainable is queued; " +
		"non-trivial = both tiers present and (a PDB blocked an eviction or the clock crossed deadline-grace)",
	Assumptions: []string{"the finer four-tier order the code implements is not judged, only the two-tier order the property states"},
	Draw:        drawC10, Exec: execC10, ReplayTries: 3,
}

func TestC10(t *testing.T) { ev.Run(t, propC10) }
