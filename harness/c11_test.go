package harness

import (
	"encoding/json"
	"fmt"
	storagev1 "k8s.io/api/storage/v1"
	"sort"
	"strings"
	"testing"

	appsv1 "k8s.io/api/apps/v1"
	corev1 "k8s.io/api/core/v1"
	"k8s.io/apimachinery/pkg/api/resource"
	metav1 "k8s.io/apimachinery/pkg/apis/meta/v1"
	"k8s.io/apimachinery/pkg/types"
	"pgregory.net/rapid"
	"sigs.k8s.io/controller-runtime/pkg/client"
	"sigs.k8s.io/controller-runtime/pkg/reconcile"

	v1 "sigs.k8s.io/karpenter/pkg/apis/v1"
	"sigs.k8s.io/karpenter/pkg/controllers/state"
	"sigs.k8s.io/karpenter/pkg/controllers/state/informer"
	"sigs.k8s.io/karpenter/pkg/state/cost"

	"verif/harness/ev"
	"verif/harness/sim"
)

// C11: after any delivery order of Node / NodeClaim / Pod / DaemonSet changes, once everything is observed the in-memory
// cluster state equals a fresh recomputation from the API objects.

type c11Op struct {
	Kind string `json:"kind"`
	A    int    `json:"a"`
	B    int    `json:"b"`
	C    int    `json:"c"`
}

type c11Scenario struct {
	Ops []c11Op `json:"ops"`
}

var c11Kinds = []string{
	"claimCreate", "claimCreate", "claimLaunch", "claimDelete", "claimGone", "claimRelabel",
	"nodeCreate", "nodeCreate", "nodeLabel", "nodeCapacity", "nodeTaint", "nodeDelete", "nodeGone", "nodeProviderID",
	"podCreate", "podCreate", "podCreate", "podBind", "podBind", "podRebind", "podRecreate", "podRecreateInPlace", "podRecreateInPlace", "podComplete", "podDelete", "podAnnotate", "podAnnotate", "daemonPod",
	"mark", "unmark",
	"deliver", "deliver", "deliver", "deliver", "deliver", "deliver", "quiesce",
}

func drawC11(t *rapid.T) *c11Scenario {
	minOps := rapid.IntRange(8, 40).Draw(t, "minOps")
	return &c11Scenario{Ops: rapid.SliceOfN(rapid.Custom(func(t *rapid.T) c11Op {
		return c11Op{Kind: rapid.SampledFrom(c11Kinds).Draw(t, "kind"), A: rapid.IntRange(0, 3).Draw(t, "a"), B: rapid.IntRange(0, 7).Draw(t, "b"), C: rapid.IntRange(0, 3).Draw(t, "c")}
	}), minOps, 70).Draw(t, "ops")}
}

type c11Key struct{ kind, ns, name string }

type c11World struct {
	w         *sim.World
	pending   map[c11Key]bool
	order     []c11Key
	marks     map[string]bool // explicit MarkForDeletion by provider id
	claimUsed map[int]bool
	c         *ev.Ctx
}

func (x *c11World) touch(kind, ns, name string) {
	k := c11Key{kind, ns, name}
	if !x.pending[k] {
		x.pending[k] = true
		x.order = append(x.order, k)
	}
}

func claimName(i int) string { return fmt.Sprintf("claim-%d", i) }
func nodeName(i int) string  { return fmt.Sprintf("node-%d", i) }
func podName(i int) string   { return fmt.Sprintf("pod-%d", i) }
func provID(i, gen int) string {
	return fmt.Sprintf("sim://zone-a/inst-%d-%d", i, gen)
}

func (x *c11World) getClaim(i int) *v1.NodeClaim { return x.w.GetNodeClaim(claimName(i)) }
func (x *c11World) getNode(i int) *corev1.Node {
	n := &corev1.Node{}
	var err error
	x.w.Quiet(func() { err = x.w.Client.Get(x.w.Ctx, client.ObjectKey{Name: nodeName(i)}, n) })
	if err != nil {
		return nil
	}
	return n
}
func (x *c11World) getPod(i int) *corev1.Pod {
	p := &corev1.Pod{}
	var err error
	x.w.Quiet(func() { err = x.w.Client.Get(x.w.Ctx, client.ObjectKey{Namespace: "default", Name: podName(i)}, p) })
	if err != nil {
		return nil
	}
	return p
}

var c11Requests = []string{"100m", "250m", "1", "2"}

func c11Pod(i int, op c11Op) *corev1.Pod {
	p := &corev1.Pod{ObjectMeta: metav1.ObjectMeta{Name: podName(i), Namespace: "default", Labels: map[string]string{"app": "a"}, Finalizers: []string{"verif/kubelet"}},
		Spec: corev1.PodSpec{Containers: []corev1.Container{{Name: "c", Image: "img", Resources: corev1.ResourceRequirements{
			Requests: corev1.ResourceList{corev1.ResourceCPU: resource.MustParse(c11Requests[op.B%len(c11Requests)]), corev1.ResourceMemory: resource.MustParse("128Mi")},
			Limits:   corev1.ResourceList{corev1.ResourceCPU: resource.MustParse("2")}}}}}}
	if op.C == 1 {
		p.Spec.Containers[0].Ports = []corev1.ContainerPort{{ContainerPort: 80, HostPort: int32(8000 + op.B%3), Protocol: corev1.ProtocolTCP}}
	}
	if op.C == 2 {
		p.Annotations = map[string]string{"controller.kubernetes.io/pod-deletion-cost": fmt.Sprint(100 * (op.B + 1))}
	}
	// a PVC-backed volume, shared between pods (B odd) - the node's volume usage is an aggregate over its pods
	if op.B%2 == 1 {
		claim := "pvc-0" // most volume-carrying pods share one claim
		if op.B%4 == 3 {
			claim = fmt.Sprintf("pvc-%d", op.A%2)
		}
		p.Spec.Volumes = []corev1.Volume{{Name: "data", VolumeSource: corev1.VolumeSource{PersistentVolumeClaim: &corev1.PersistentVolumeClaimVolumeSource{ClaimName: claim}}}}
		if op.B == 7 {
			p.Spec.Volumes = append(p.Spec.Volumes, corev1.Volume{Name: "extra", VolumeSource: corev1.VolumeSource{PersistentVolumeClaim: &corev1.PersistentVolumeClaimVolumeSource{ClaimName: "pvc-2"}}})
		}
	}
	if op.C == 3 {
		p.Spec.Affinity = &corev1.Affinity{PodAntiAffinity: &corev1.PodAntiAffinity{RequiredDuringSchedulingIgnoredDuringExecution: []corev1.PodAffinityTerm{{TopologyKey: corev1.LabelHostname, LabelSelector: &metav1.LabelSelector{MatchLabels: map[string]string{"app": "a"}}}}}}
	}
	p.Status.Phase = corev1.PodPending
	return p
}

func (x *c11World) apply(o client.Object, kind string) {
	x.w.Apply(o)
	x.touch(kind, o.GetNamespace(), o.GetName())
}

func (x *c11World) step(op c11Op) {
	w := x.w
	switch op.Kind {
	case "claimCreate":
		// NodeClaim names come from GenerateName: never reused
		if x.getClaim(op.A) != nil || x.claimUsed[op.A] {
			return
		}
		x.claimUsed[op.A] = true
		nc := &v1.NodeClaim{ObjectMeta: metav1.ObjectMeta{Name: claimName(op.A), Finalizers: []string{v1.TerminationFinalizer}, Labels: map[string]string{v1.NodePoolLabelKey: fmt.Sprintf("p%d", op.B%2), corev1.LabelInstanceTypeStable: "std"}},
			Spec: v1.NodeClaimSpec{NodeClassRef: sim.NodeClassRef(), Requirements: []v1.NodeSelectorRequirementWithMinValues{{Key: corev1.LabelInstanceTypeStable, Operator: corev1.NodeSelectorOpIn, Values: []string{"std"}}}}}
		nc.Spec.ExpireAfter = v1.MustParseNillableDuration("Never")
		if op.C%2 == 1 {
			nc.Status.ProviderID = provID(op.A, 0)
			nc.Status.Capacity = corev1.ResourceList{corev1.ResourceCPU: resource.MustParse("4"), corev1.ResourceMemory: resource.MustParse("8Gi"), corev1.ResourcePods: resource.MustParse("10")}
			nc.Status.Allocatable = nc.Status.Capacity
			nc.StatusConditions().SetTrue(v1.ConditionTypeLaunched)
		}
		x.apply(nc, "NodeClaim")
	case "claimLaunch":
		// the provider id appears later, or (rarely) changes
		if nc := x.getClaim(op.A); nc != nil {
			if nc.Status.ProviderID == "" || op.C == 3 {
				nc.Status.ProviderID = provID(op.A, op.C)
				nc.Status.Capacity = corev1.ResourceList{corev1.ResourceCPU: resource.MustParse("4"), corev1.ResourceMemory: resource.MustParse("8Gi"), corev1.ResourcePods: resource.MustParse("10")}
				nc.Status.Allocatable = nc.Status.Capacity
				nc.StatusConditions().SetTrue(v1.ConditionTypeLaunched)
				x.apply(nc, "NodeClaim")
				x.c.Class("provider_id_late_or_changed")
			}
		}
	case "claimRelabel":
		if nc := x.getClaim(op.A); nc != nil {
			// (the nodepool label of a NodeClaim never changes in a real cluster)
			if op.C%2 == 0 && nc.DeletionTimestamp != nil {
				// (only the finalization paths set InstanceTerminating, i.e. on a NodeClaim that is being deleted)
				nc.StatusConditions().SetTrue(v1.ConditionTypeInstanceTerminating)
			} else {
				nc.Labels["ex.io/touched"] = fmt.Sprint(op.B)
			}
			x.apply(nc, "NodeClaim")
		}
	case "claimDelete":
		if nc := x.getClaim(op.A); nc != nil && nc.DeletionTimestamp == nil {
			w.Delete(nc)
			x.touch("NodeClaim", "", nc.Name)
		}
	case "claimGone":
		if nc := x.getClaim(op.A); nc != nil {
			w.Remove(nc)
			x.touch("NodeClaim", "", nc.Name)
		}
	case "nodeCreate":
		if x.getNode(op.A) != nil {
			return
		}
		n := &corev1.Node{ObjectMeta: metav1.ObjectMeta{Name: nodeName(op.A), Finalizers: []string{v1.TerminationFinalizer}, Labels: map[string]string{corev1.LabelHostname: nodeName(op.A), corev1.LabelInstanceTypeStable: "std", corev1.LabelTopologyZone: "zone-a"}},
			Status: corev1.NodeStatus{Capacity: corev1.ResourceList{corev1.ResourceCPU: resource.MustParse("4"), corev1.ResourceMemory: resource.MustParse("8Gi"), corev1.ResourcePods: resource.MustParse("10")}}}
		n.Status.Allocatable = n.Status.Capacity
		switch op.C {
		case 0: // unmanaged
			n.Spec.ProviderID = "unmanaged://" + n.Name
		default: // node of claim op.A (whatever provider id that claim has or will have)
			n.Labels[v1.NodePoolLabelKey] = fmt.Sprintf("p%d", op.B%2)
			n.Spec.ProviderID = provID(op.A, 0)
			if nc := x.getClaim(op.A); nc != nil && nc.Status.ProviderID != "" {
				n.Spec.ProviderID = nc.Status.ProviderID
			}
			if op.C >= 2 {
				n.Labels[v1.NodeRegisteredLabelKey] = "true"
			}
			if op.C == 3 {
				n.Labels[v1.NodeInitializedLabelKey] = "true"
			}
		}
		x.apply(n, "Node")
	case "nodeLabel":
		if n := x.getNode(op.A); n != nil {
			switch op.C {
			case 0:
				n.Labels[v1.NodeRegisteredLabelKey] = "true"
			case 1:
				n.Labels[v1.NodeInitializedLabelKey] = "true"
				n.Labels[v1.NodeRegisteredLabelKey] = "true"
			case 2:
				n.Labels["ex.io/touched"] = fmt.Sprint(op.B)
			default:
				delete(n.Labels, v1.NodeInitializedLabelKey)
			}
			x.apply(n, "Node")
		}
	case "nodeCapacity":
		if n := x.getNode(op.A); n != nil {
			n.Status.Capacity[corev1.ResourceCPU] = resource.MustParse([]string{"2", "4", "8", "0"}[op.B%4])
			n.Status.Allocatable = n.Status.Capacity
			x.apply(n, "Node")
		}
	case "nodeTaint":
		if n := x.getNode(op.A); n != nil {
			if op.B%2 == 0 {
				n.Spec.Taints = append(n.Spec.Taints, corev1.Taint{Key: "k", Value: fmt.Sprint(op.B), Effect: corev1.TaintEffectNoSchedule})
			} else {
				n.Spec.Taints = nil
			}
			x.apply(n, "Node")
		}
	case "nodeProviderID":
		// kubelet / cloud-controller fills the provider id of a node late
		if n := x.getNode(op.A); n != nil && n.Spec.ProviderID == "" {
			n.Spec.ProviderID = provID(op.A, 0)
			x.apply(n, "Node")
		}
	case "nodeDelete":
		if n := x.getNode(op.A); n != nil && n.DeletionTimestamp == nil {
			w.Delete(n)
			x.touch("Node", "", n.Name)
		}
	case "nodeGone":
		if n := x.getNode(op.A); n != nil {
			w.Remove(n)
			x.touch("Node", "", n.Name)
		}
	case "podCreate":
		if x.getPod(op.B) == nil {
			x.apply(c11Pod(op.B, op), "Pod")
		}
	case "daemonPod":
		// (daemon pods have generated names of their own: a name is never shared between a daemon and a workload pod)
		if x.getPod(100+op.B%3) == nil && x.getNode(op.A) != nil {
			p := c11Pod(100+op.B%3, op)
			p.OwnerReferences = []metav1.OwnerReference{{APIVersion: "apps/v1", Kind: "DaemonSet", Name: "ds", UID: "ds-uid", Controller: ptrTo(true)}}
			sim.Bound(p, nodeName(op.A))
			x.apply(p, "Pod")
		}
	case "podBind":
		if p := x.getPod(op.B); p != nil && p.Spec.NodeName == "" && x.getNode(op.A) != nil {
			sim.Bound(p, nodeName(op.A))
			x.apply(p, "Pod")
		}
	case "podRebind":
		// the pod is deleted and re-created under the same name, bound to another node
		if p := x.getPod(op.B); p != nil && x.getNode(op.A) != nil && p.Spec.NodeName != nodeName(op.A) {
			w.FinishPod(client.ObjectKeyFromObject(p))
			if x.getPod(op.B) == nil {
				np := c11Pod(op.B, op)
				sim.Bound(np, nodeName(op.A))
				x.apply(np, "Pod")
				x.c.Class("pod_recreated_on_other_node")
			}
		}
	case "podRecreate":
		// a bound pod is deleted and re-created under the same name; the new pod is still pending
		if p := x.getPod(op.B); p != nil && p.Spec.NodeName != "" {
			w.FinishPod(client.ObjectKeyFromObject(p))
			if x.getPod(op.B) == nil {
				x.apply(c11Pod(op.B, op), "Pod")
				x.c.Class("pod_recreated_unbound")
			}
		}
	case "podRecreateInPlace":
		// a bound pod is deleted and re-created under the same name on the SAME node with another spec (a StatefulSet
		// pod after a template change): Karpenter may only ever see the latest object
		if p := x.getPod(op.B); p != nil && p.Spec.NodeName != "" {
			node := p.Spec.NodeName
			w.FinishPod(client.ObjectKeyFromObject(p))
			if x.getPod(op.B) == nil {
				np := c11Pod(op.B, c11Op{A: op.A, B: op.B, C: op.C})
				np.Spec.NodeName = node
				np.Status.Phase = corev1.PodRunning
				x.apply(np, "Pod")
				x.c.Class("pod_recreated_in_place")
			}
		}
	case "podComplete":
		if op.C == 3 {
			op.B = 100 + op.B%3
		}
		if p := x.getPod(op.B); p != nil {
			p.Status.Phase = corev1.PodSucceeded
			x.apply(p, "Pod")
		}
	case "podDelete":
		if op.A == 3 {
			op.B = 100 + op.B%3
		}
		if p := x.getPod(op.B); p != nil {
			if op.C == 0 && p.DeletionTimestamp == nil {
				w.Delete(p) // terminating
			} else {
				w.FinishPod(client.ObjectKeyFromObject(p))
			}
			x.touch("Pod", "default", p.Name)
		}
	case "podAnnotate":
		if p := x.getPod(op.B); p != nil {
			if p.Annotations == nil {
				p.Annotations = map[string]string{}
			}
			// includes costs that turn the pod's eviction cost non-positive (<= -2^27) and back
			costs := []int{50, -2147483647, 0, -300000000, 2147483647, -134217728}
			p.Annotations["controller.kubernetes.io/pod-deletion-cost"] = fmt.Sprint(costs[op.C%len(costs)])
			x.apply(p, "Pod")
		}
	case "mark", "unmark":
		if nc := x.getClaim(op.A); nc != nil && nc.Status.ProviderID != "" && x.known(nc.Status.ProviderID) {
			// callers only mark nodes they got from the cluster state
			if op.Kind == "mark" {
				w.Cluster.MarkForDeletion(nc.Status.ProviderID)
				x.marks[nc.Status.ProviderID] = true
			} else if x.marks[nc.Status.ProviderID] {
				// only what was marked is ever unmarked (disruption queue roll-back)
				w.Cluster.UnmarkForDeletion(nc.Status.ProviderID)
				delete(x.marks, nc.Status.ProviderID)
			}
		}
	case "deliver":
		if len(x.order) == 0 {
			return
		}
		i := (op.A*8 + op.B) % len(x.order)
		k := x.order[i]
		x.deliver(k)
		if op.C != 0 { // op.C == 0 keeps the key pending: the event is delivered again later (duplicate)
			x.order = append(x.order[:i], x.order[i+1:]...)
			delete(x.pending, k)
		}
	}
}

// pruneMarks: an explicit mark lives on the state node; when the cluster forgets the node the mark is gone with it
func (x *c11World) pruneMarks() {
	for id := range x.marks {
		if !x.known(id) {
			delete(x.marks, id)
		}
	}
}

func (x *c11World) known(providerID string) bool {
	for n := range x.w.Cluster.Nodes() {
		if n.ProviderID() == providerID {
			return true
		}
	}
	return false
}

func (x *c11World) deliver(k c11Key) bool {
	res, err := x.w.InformerDeliver(k.kind, types.NamespacedName{Namespace: k.ns, Name: k.name})
	//nolint:staticcheck
	return err != nil || res.Requeue
}

// quiesce delivers every pending key (each changed object is observed at its latest version at least once), in an order
// derived from the op (rotation / reversal), re-delivering only keys whose reconcile asked for a requeue. There is no
// convenient full resync: that is exactly what "once the latest version of every object has been observed" grants.
func (x *c11World) quiesce(op c11Op) {
	keys := append([]c11Key{}, x.order...)
	if n := len(keys); n > 1 {
		r := (op.A*8 + op.B) % n
		keys = append(keys[r:], keys[:r]...)
		if op.C%2 == 1 {
			for i, j := 0, n-1; i < j; i, j = i+1, j-1 {
				keys[i], keys[j] = keys[j], keys[i]
			}
		}
	}
	x.order, x.pending = nil, map[c11Key]bool{}
	for round := 0; round < 6 && len(keys) > 0; round++ {
		var again []c11Key
		for _, k := range keys {
			if x.deliver(k) {
				again = append(again, k)
			}
			x.pruneMarks()
		}
		keys = again
	}
}

func digestCluster(cl *state.Cluster, w *sim.World, pools []string) map[string]string {
	out := map[string]string{}
	for _, n := range cl.DeepCopyNodes() {
		labels, _ := json.Marshal(n.Labels())
		taints, _ := json.Marshal(n.Taints())
		hp := fmt.Sprintf("%+v", n.HostPortUsage())
		vu := fmt.Sprintf("%+v", n.VolumeUsage())
		nodeNm, claimNm := "", ""
		if n.Node != nil {
			nodeNm = n.Node.Name
		}
		if n.NodeClaim != nil {
			claimNm = n.NodeClaim.Name
		}
		out["node/"+n.ProviderID()] = strings.Join([]string{"node=" + nodeNm, "claim=" + claimNm, string(labels), string(taints), "cap=" + rlString(n.Capacity()), "alloc=" + rlString(n.Allocatable()), "req=" + rlString(n.PodRequests()), "lim=" + rlString(n.PodLimits()),
			"dsreq=" + rlString(n.DaemonSetRequests()), "dslim=" + rlString(n.DaemonSetLimits()), "hp=" + hp, "vol=" + vu, "marked=" + fmt.Sprint(n.MarkedForDeletion()), "init=" + fmt.Sprint(n.Initialized(), n.Registered(), n.Managed()), fmt.Sprintf("cost=%.6f", n.DisruptionCost())}, " | ")
	}
	for _, p := range pools {
		out["poolres/"+p] = rlString(cl.NodePoolResourcesFor(p))
		a, d, pd := cl.NodePoolState.GetNodeCount(p)
		out["poolcount/"+p] = fmt.Sprint(a, d, pd)
	}
	return out
}

func (x *c11World) compare(stepNo int) {
	w := x.w
	// a second cluster built from the same API objects, NodeClaims -> Nodes -> Pods in canonical order
	fresh := state.NewCluster(w.Clock, w.Client, w.Provider)
	cc := cost.NewClusterCost(w.Ctx, w.Provider, w.Client)
	ncCtrl := informer.NewNodeClaimController(w.Client, w.Provider, fresh, cc)
	nodeCtrl := informer.NewNodeController(w.Client, fresh)
	podCtrl := informer.NewPodController(w.Client, fresh)
	w.Quiet(func() {
		for round := 0; round < 2; round++ {
			for _, nc := range w.ListNodeClaims() {
				_, _ = ncCtrl.Reconcile(w.Ctx, reconcile.Request{NamespacedName: types.NamespacedName{Name: nc.Name}})
			}
			for _, n := range w.ListNodes() {
				_, _ = nodeCtrl.Reconcile(w.Ctx, reconcile.Request{NamespacedName: types.NamespacedName{Name: n.Name}})
			}
			for _, p := range w.ListPods() {
				_, _ = podCtrl.Reconcile(w.Ctx, reconcile.Request{NamespacedName: types.NamespacedName{Namespace: p.Namespace, Name: p.Name}})
			}
		}
	})
	ids := make([]string, 0, len(x.marks))
	for id := range x.marks {
		ids = append(ids, id)
	}
	fresh.MarkForDeletion(ids...)
	live, want := digestCluster(w.Cluster, w, []string{"p0", "p1"}), digestCluster(fresh, w, []string{"p0", "p1"})
	keys := map[string]bool{}
	for k := range live {
		keys[k] = true
	}
	for k := range want {
		keys[k] = true
	}
	sorted := make([]string, 0, len(keys))
	for k := range keys {
		sorted = append(sorted, k)
	}
	sort.Strings(sorted)
	for _, k := range sorted {
		if live[k] == want[k] {
			continue
		}
		// name the first differing field: that is the root-cause signature
		field := "presence"
		lf, wf := strings.Split(live[k], " | "), strings.Split(want[k], " | ")
		if len(lf) == len(wf) {
			for i := range lf {
				if lf[i] != wf[i] {
					field = strings.SplitN(lf[i], "=", 2)[0]
					if strings.HasPrefix(lf[i], "{") || strings.HasPrefix(lf[i], "[") || strings.HasPrefix(lf[i], "null") {
						field = []string{"", "", "labels", "taints"}[min(i, 3)]
					}
					break
				}
			}
		}
		kind := strings.SplitN(k, "/", 2)[0]
		x.c.Violate("state-diverged:"+kind+":"+field, "after step %d (quiesced) cluster state differs from a fresh recomputation at %s:\n  live : %s\n  fresh: %s", stepNo, k, live[k], want[k])
		return
	}
}

func execC11(s *c11Scenario, c *ev.Ctx) {
	w := sim.New(sim.Options{})
	w.ApplyNodeClass()
	w.Provider.Default = c14Catalog
	// storage: one CSI storage class and three claims the pods share
	w.Apply(&storagev1.StorageClass{ObjectMeta: metav1.ObjectMeta{Name: "sc"}, Provisioner: "csi.ex.io"})
	for i := 0; i < 3; i++ {
		w.Apply(&corev1.PersistentVolumeClaim{ObjectMeta: metav1.ObjectMeta{Name: fmt.Sprintf("pvc-%d", i), Namespace: "default"}, Spec: corev1.PersistentVolumeClaimSpec{StorageClassName: ptrTo("sc")}})
	}
	for i := 0; i < 2; i++ {
		np := &v1.NodePool{ObjectMeta: metav1.ObjectMeta{Name: fmt.Sprintf("p%d", i), UID: types.UID(fmt.Sprintf("pool-uid-%d", i))}}
		np.Spec.Template.Spec.ExpireAfter = v1.MustParseNillableDuration("Never")
		w.ApplyPool(np)
	}
	w.Apply(&appsv1.DaemonSet{ObjectMeta: metav1.ObjectMeta{Name: "ds", Namespace: "default", UID: "ds-uid"}, Spec: appsv1.DaemonSetSpec{Selector: &metav1.LabelSelector{MatchLabels: map[string]string{"app": "a"}},
		Template: corev1.PodTemplateSpec{ObjectMeta: metav1.ObjectMeta{Labels: map[string]string{"app": "a"}}, Spec: corev1.PodSpec{Containers: []corev1.Container{{Name: "c", Image: "img"}}}}}})
	x := &c11World{w: w, pending: map[c11Key]bool{}, marks: map[string]bool{}, claimUsed: map[int]bool{}, c: c}
	quiesced := 0
	outOfOrder := false
	for i, op := range s.Ops {
		if op.Kind == "quiesce" {
			x.quiesce(op)
			x.compare(i)
			quiesced++
			if len(c.Violations()) > 0 {
				return
			}
			continue
		}
		if op.Kind == "deliver" && len(x.order) > 1 && (op.A*8+op.B)%len(x.order) != 0 {
			outOfOrder = true
		}
		x.step(op)
		x.pruneMarks()
	}
	x.quiesce(c11Op{A: len(s.Ops) % 4, B: len(s.Ops) % 8, C: len(s.Ops) % 2})
	x.compare(len(s.Ops))
	c.ClassIf(outOfOrder, "out_of_order_delivery")
	c.NTIf(outOfOrder)
	c.Add("comparisons", quiesced+1)
	c.Sample(map[string]any{"ops": len(s.Ops), "comparisons": quiesced + 1})
}

var propC11 = ev.Prop[c11Scenario]{
	ID: "C11", Test: "TestC11",
	Rule: "rapid draws 8-70 operations over <=4 NodeClaims, <=4 Nodes, <=8 Pods: create / launch late / change provider id / relabel / delete / remove NodeClaims; create (unmanaged, unregistered, registered, initialized) / relabel / resize / taint / late provider id / delete / remove Nodes; create / bind / re-create under the same name on another node or still unbound / complete / terminate / remove / annotate (deletion cost) pods incl. daemon pods, host ports, anti-affinity; explicit MarkForDeletion / Unmark; each mutation enqueues a reconcile key and 'deliver' ops deliver ANY pending key (out of order, duplicates kept) to the real informer controllers; at 'quiesce' ops and at the end every key is delivered until no requeue; " +
		"oracle (differential): a second state.Cluster is built from the same API objects in canonical order (NodeClaims, Nodes, Pods) with the same explicit marks, and compared through exported accessors per provider id (node / claim identity, labels, taints, capacity, allocatable, pod requests / limits, daemon requests / limits, host ports, volumes, marks, initialized / registered / managed, disruption cost) and per pool (resources, node counts); " +
		"non-trivial = some key was delivered out of FIFO order",
	Assumptions: []string{"the fresh cluster is produced by the same code in canonical order (differential oracle): an error that is order-independent is not detected here"},
	Draw:        drawC11, Exec: execC11, ReplayTries: 3,
}

func TestC11(t *testing.T) { ev.Run(t, propC11) }
