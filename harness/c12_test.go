package harness

import (
	"fmt"
	"math"
	"sort"
	"strconv"
	"testing"

	corev1 "k8s.io/api/core/v1"
	metav1 "k8s.io/apimachinery/pkg/apis/meta/v1"
	"k8s.io/component-helpers/scheduling/corev1/nodeaffinity"
	"pgregory.net/rapid"

	v1 "sigs.k8s.io/karpenter/pkg/apis/v1"
	"sigs.k8s.io/karpenter/pkg/scheduling"

	"verif/harness/ev"
	"verif/harness/ref"
)

// ---------------------------------------------------------------------------------------------------------------------
// generators shared by C12 / C13
// ---------------------------------------------------------------------------------------------------------------------

var (
	reqOps       = []string{"In", "NotIn", "Exists", "DoesNotExist", "Gt", "Lt", "Gte", "Lte"}
	reqIntVals   = []string{"0", "1", "2", "3", "4", "5", "6", "10", strconv.Itoa(math.MaxInt - 1), strconv.Itoa(math.MaxInt)}
	reqPadVals   = []string{"00", "03", "05", "005", "010"}
	reqOddVals   = []string{"a", "b", "", "1.5", "1e3", " 1", "+5", "-1", "-3"}
	reqBoundVals = []string{"0", "1", "2", "3", "4", "5", "6", "10", "05", "003", strconv.Itoa(math.MaxInt - 1), strconv.Itoa(math.MaxInt)}
	reqNegBounds = []string{"-1", "-3", "-05"}
	customKeys   = []string{"ex.io/tier", "ex.io/gen"}
	wellKnownKey = []string{corev1.LabelTopologyZone, v1.CapacityTypeLabelKey}
	aliasKeys    = map[string]string{"beta.kubernetes.io/arch": corev1.LabelArchStable, corev1.LabelFailureDomainBetaZone: corev1.LabelTopologyZone}
)

func isBoundOp(op string) bool { return op == "Gt" || op == "Lt" || op == "Gte" || op == "Lte" }

func genValue(t *rapid.T, label string) string {
	switch rapid.IntRange(0, 9).Draw(t, label+"_cls") {
	case 0, 1, 2, 3, 4:
		return rapid.SampledFrom(reqIntVals).Draw(t, label)
	case 5, 6:
		return rapid.SampledFrom(reqPadVals).Draw(t, label)
	default:
		return rapid.SampledFrom(reqOddVals).Draw(t, label)
	}
}

// genPrim draws one primitive. negBounds admits the negative-bound sub-domain (accepted by the pod API for preferred terms).
func genPrim(t *rapid.T, label string, negBounds bool) ref.Prim {
	op := rapid.SampledFrom(reqOps).Draw(t, label+"_op")
	switch {
	case op == "Exists" || op == "DoesNotExist":
		return ref.Prim{Op: op}
	case isBoundOp(op):
		if negBounds && rapid.IntRange(0, 3).Draw(t, label+"_neg") == 0 {
			return ref.Prim{Op: op, Values: []string{rapid.SampledFrom(reqNegBounds).Draw(t, label+"_b")}}
		}
		return ref.Prim{Op: op, Values: []string{rapid.SampledFrom(reqBoundVals).Draw(t, label+"_b")}}
	default:
		// the Kubernetes API rejects In/NotIn with an empty value list
		n := rapid.IntRange(1, 3).Draw(t, label+"_n")
		vals := make([]string, 0, n)
		for i := 0; i < n; i++ {
			vals = append(vals, genValue(t, fmt.Sprintf("%s_v%d", label, i)))
		}
		return ref.Prim{Op: op, Values: vals}
	}
}

func genCompound(t *rapid.T, label string, negBounds bool) []ref.Prim {
	n := rapid.IntRange(1, 4).Draw(t, label+"_len")
	if rapid.IntRange(0, 2).Draw(t, label+"_single") == 0 {
		n = 1
	}
	out := make([]ref.Prim, 0, n)
	for i := 0; i < n; i++ {
		out = append(out, genPrim(t, fmt.Sprintf("%s%d", label, i), negBounds))
	}
	return out
}

func cloneVals(v []string) []string { return append([]string(nil), v...) }

// kReq builds Karpenter's requirement for a compound: left fold of Intersection over the primitives.
func kReq(key string, ps []ref.Prim, minValues *int) *scheduling.Requirement {
	var r *scheduling.Requirement
	for i, p := range ps {
		var mv *int
		if i == 0 {
			mv = minValues
		}
		q := scheduling.NewRequirementWithFlexibility(key, corev1.NodeSelectorOperator(p.Op), mv, cloneVals(p.Values)...)
		if r == nil {
			r = q
		} else {
			r = r.Intersection(q)
		}
	}
	return r
}

func primClass(p ref.Prim) string {
	switch {
	case isBoundOp(p.Op):
		return "bound"
	case p.Op == "In" || p.Op == "NotIn":
		return "list"
	default:
		return "presence"
	}
}

// compoundShape names the shape of a compound for signatures: sorted distinct operator names.
func compoundShape(ps []ref.Prim) string {
	m := map[string]bool{}
	for _, p := range ps {
		m[p.Op] = true
	}
	ops := make([]string, 0, len(m))
	for o := range m {
		ops = append(ops, o)
	}
	sort.Strings(ops)
	s := ""
	for i, o := range ops {
		if i > 0 {
			s += "+"
		}
		s += o
	}
	return s
}

// kAbsent is the absent-label bit as Karpenter's Compatible derives it from Operator().
func kAbsent(r *scheduling.Requirement) bool {
	op := r.Operator()
	return op == corev1.NodeSelectorOpNotIn || op == corev1.NodeSelectorOpDoesNotExist
}

// presenceLossKind classifies why Karpenter's absent bit differs from the denotation's (root cause, not input).
func presenceLossKind(r *scheduling.Requirement, d ref.Set) string {
	if kAbsent(r) == d.Absent {
		return ""
	}
	if r.Operator() == corev1.NodeSelectorOpDoesNotExist {
		return "empty-set-read-as-DoesNotExist"
	}
	if r.Operator() == corev1.NodeSelectorOpNotIn {
		return "complement-with-exclusions-read-as-NotIn"
	}
	return "other"
}

// ---------------------------------------------------------------------------------------------------------------------
// C12a: single-key algebra
// ---------------------------------------------------------------------------------------------------------------------

type c12aScenario struct {
	Key       string     `json:"key"`
	A         []ref.Prim `json:"a"`
	B         []ref.Prim `json:"b"`
	C         []ref.Prim `json:"c"`
	MinA      *int       `json:"minA,omitempty"`
	MinB      *int       `json:"minB,omitempty"`
	NegBounds bool       `json:"negBounds"`
}

func drawC12a(t *rapid.T) *c12aScenario {
	s := &c12aScenario{}
	s.Key = rapid.SampledFrom(append(append([]string{}, customKeys...), corev1.LabelTopologyZone, "beta.kubernetes.io/arch")).Draw(t, "key")
	s.NegBounds = rapid.IntRange(0, 4).Draw(t, "negdomain") == 0
	s.A = genCompound(t, "a", s.NegBounds)
	s.B = genCompound(t, "b", s.NegBounds)
	s.C = genCompound(t, "c", s.NegBounds)
	if rapid.IntRange(0, 3).Draw(t, "hasMinA") == 0 {
		v := rapid.IntRange(1, 4).Draw(t, "minA")
		s.MinA = &v
	}
	if rapid.IntRange(0, 3).Draw(t, "hasMinB") == 0 {
		v := rapid.IntRange(1, 4).Draw(t, "minB")
		s.MinB = &v
	}
	return s
}

func sameHas(u []string, x, y *scheduling.Requirement) (string, bool) {
	for _, v := range u {
		if x.Has(v) != y.Has(v) {
			return v, false
		}
	}
	return "", true
}

func nontrivialCompound(ps []ref.Prim) bool {
	classes := map[string]bool{}
	for _, p := range ps {
		classes[primClass(p)] = true
	}
	if len(classes) >= 2 {
		return true
	}
	// a bound adjacent to a listed value
	var bounds, listed []int64
	for _, p := range ps {
		for _, v := range p.Values {
			if n, err := strconv.ParseInt(v, 10, 64); err == nil {
				if isBoundOp(p.Op) {
					bounds = append(bounds, n)
				} else {
					listed = append(listed, n)
				}
			}
		}
	}
	for _, b := range bounds {
		for _, l := range listed {
			if d := b - l; d >= -1 && d <= 1 {
				return true
			}
		}
	}
	return false
}

func execC12a(s *c12aScenario, c *ev.Ctx) {
	all := append(append(append([]ref.Prim{}, s.A...), s.B...), s.C...)
	u := ref.ProbeUniverse(all...)
	dA, dB, dC := ref.FromPrims(s.A), ref.FromPrims(s.B), ref.FromPrims(s.C)
	rA, rB, rC := kReq(s.Key, s.A, s.MinA), kReq(s.Key, s.B, s.MinB), kReq(s.Key, s.C, nil)

	c.ClassIf(len(s.A) > 1 || len(s.B) > 1, "compound")
	c.ClassIf(s.NegBounds, "neg_bound_domain")
	c.ClassIf(dA.Empty() || dB.Empty(), "empty_operand")
	c.ClassIf(!dA.Overlaps(dB), "disjoint")
	c.NTIf(nontrivialCompound(append(append([]ref.Prim{}, s.A...), s.B...)))

	// key normalisation
	wantKey := s.Key
	if n, ok := aliasKeys[s.Key]; ok {
		wantKey = n
		c.Class("alias_key")
	}
	if rA.Key != wantKey {
		c.Violate("alias:key-not-normalised", "key %q built as %q, want %q", s.Key, rA.Key, wantKey)
	}

	// (1) membership
	for name, pair := range map[string]struct {
		r  *scheduling.Requirement
		d  ref.Set
		ps []ref.Prim
	}{"a": {rA, dA, s.A}, "b": {rB, dB, s.B}} {
		for _, v := range u {
			if got, want := pair.r.Has(v), pair.d.Has(v); got != want {
				c.Violate("has:"+compoundShape(pair.ps), "%s=%v: Has(%q)=%v, Kubernetes semantics say %v (denotation %s, karpenter %s)", name, pair.ps, v, got, want, pair.d, pair.r)
				break
			}
		}
		// Values()/Len() coherent with a finite denotation
		if vals, finite := pair.d.Finite(); finite {
			got := pair.r.Values()
			sort.Strings(got)
			if fmt.Sprint(got) != fmt.Sprint(vals) || pair.r.Len() != len(vals) {
				c.Violate("values:"+compoundShape(pair.ps), "%s=%v: Values()=%v Len()=%d, denotation %v", name, pair.ps, got, pair.r.Len(), vals)
			}
			wantOp := corev1.NodeSelectorOpIn
			if len(vals) == 0 {
				wantOp = corev1.NodeSelectorOpDoesNotExist
			}
			if pair.r.Operator() != wantOp {
				c.Violate("operator:finite", "%s=%v: Operator()=%s for finite denotation %v", name, pair.ps, pair.r.Operator(), vals)
			}
		} else if op := pair.r.Operator(); op != corev1.NodeSelectorOpNotIn && op != corev1.NodeSelectorOpExists {
			c.Violate("operator:cofinite", "%s=%v: Operator()=%s for co-finite denotation %s", name, pair.ps, op, pair.d)
		}
	}

	// (2) intersection = set intersection, both ways
	dAB := dA.And(dB)
	rAB, rBA := rA.Intersection(rB), rB.Intersection(rA)
	for _, v := range u {
		if got, want := rAB.Has(v), dAB.Has(v); got != want {
			c.Violate("intersection:"+compoundShape(s.A)+"^"+compoundShape(s.B), "(%v)∩(%v): Has(%q)=%v want %v", s.A, s.B, v, got, want)
			break
		}
	}
	if v, ok := sameHas(u, rAB, rBA); !ok {
		c.Violate("commutative", "(%v)∩(%v) differs from reverse at %q", s.A, s.B, v)
	}
	// (3) quick overlap test agrees with non-emptiness (decided symbolically over all strings)
	if got, want := rA.HasIntersection(rB), !dAB.Empty(); got != want {
		c.Violate("hasintersection", "HasIntersection(%v, %v)=%v but intersection %s emptiness=%v", s.A, s.B, got, dAB, dAB.Empty())
	}
	if rA.HasIntersection(rB) != rB.HasIntersection(rA) {
		c.Violate("hasintersection:asymmetric", "HasIntersection(%v,%v) is not symmetric", s.A, s.B)
	}
	// (4) associativity and idempotence w.r.t. the admitted sets
	left, right := rAB.Intersection(rC), rA.Intersection(rB.Intersection(rC))
	if v, ok := sameHas(u, left, right); !ok {
		c.Violate("associative", "((%v)∩(%v))∩(%v) differs at %q", s.A, s.B, s.C, v)
	}
	dABC := dAB.And(dC)
	for _, v := range u {
		if left.Has(v) != dABC.Has(v) {
			c.Violate("intersection3", "((%v)∩(%v))∩(%v): Has(%q)=%v want %v", s.A, s.B, s.C, v, left.Has(v), dABC.Has(v))
			break
		}
	}
	if left.HasIntersection(rC) != !dABC.Empty() {
		// (a∩b∩c) ∩ c is non-empty iff a∩b∩c is
		c.Violate("hasintersection:idem", "HasIntersection(a∩b∩c, c)=%v but a∩b∩c=%s", left.HasIntersection(rC), dABC)
	}
	if v, ok := sameHas(u, rA.Intersection(rA), rA); !ok {
		c.Violate("idempotent", "(%v)∩itself differs at %q", s.A, v)
	}
	// (5) minValues = max
	want := s.MinA
	if s.MinB != nil && (want == nil || *s.MinB > *want) {
		want = s.MinB
	}
	got := rAB.MinValues
	if (got == nil) != (want == nil) || (got != nil && *got != *want) {
		c.Violate("minvalues:max", "minValues of intersection = %v want %v", ptrStr(got), ptrStr(want))
	}
	// (6) primitives against the Kubernetes library for the six core operators
	if len(s.A) == 1 {
		p := s.A[0]
		if p.Op != "Gte" && p.Op != "Lte" {
			sel, err := nodeaffinity.NewNodeSelector(&corev1.NodeSelector{NodeSelectorTerms: []corev1.NodeSelectorTerm{{MatchExpressions: []corev1.NodeSelectorRequirement{{Key: "k", Operator: corev1.NodeSelectorOperator(p.Op), Values: p.Values}}}}})
			if err == nil {
				c.Count("k8s_library_crosschecks")
				for _, v := range u {
					node := &corev1.Node{ObjectMeta: metav1.ObjectMeta{Labels: map[string]string{"k": v}}}
					if k8s := sel.Match(node); k8s != rA.Has(v) {
						c.Violate("has:k8s-library:"+p.Op, "%v: Has(%q)=%v, k8s nodeaffinity says %v", p, v, rA.Has(v), k8s)
						break
					}
				}
				// and the harness' own denotation (oracle health)
				absent := sel.Match(&corev1.Node{ObjectMeta: metav1.ObjectMeta{Labels: map[string]string{}}})
				if absent != dA.Absent {
					panic(fmt.Sprintf("oracle bug: absent bit of %v: ref %v k8s %v", p, dA.Absent, absent))
				}
			}
		}
	}
	c.Sample(map[string]any{"key": s.Key, "a": fmt.Sprint(s.A), "b": fmt.Sprint(s.B), "c": fmt.Sprint(s.C), "a∩b": dAB.String()})
}

func ptrStr(p *int) string {
	if p == nil {
		return "nil"
	}
	return strconv.Itoa(*p)
}

var propC12a = ev.Prop[c12aScenario]{
	ID: "C12", Test: "TestC12a",
	Rule: "rapid draws three compound requirements (1-4 primitives over 8 operators, integer/padded/non-integer/negative values, minValues, alias keys) on one key; " +
		"oracle: symbolic set denotation built from the primitives, probed on every mentioned value and bound±1 in 3 spellings plus fresh strings, and the k8s nodeaffinity library for single primitives; " +
		"non-trivial = a compound mixing >=2 operator classes (list/bound/presence) or with a bound adjacent to a listed value",
	Assumptions: []string{"Gt/Lt/Gte/Lte carry exactly one integer value (validated domain); negative bounds only in a labelled sub-domain", "emptiness is decided over all strings (an integer has unboundedly many spellings)"},
	Draw:        drawC12a, Exec: execC12a,
}

func TestC12a(t *testing.T) { ev.Run(t, propC12a) }

// ---------------------------------------------------------------------------------------------------------------------
// C12b: requirement sets: Add, Compatible, Intersects
// ---------------------------------------------------------------------------------------------------------------------

type c12bScenario struct {
	A              map[string][]ref.Prim `json:"a"`
	B              map[string][]ref.Prim `json:"b"`
	AllowUndefined bool                  `json:"allowUndefined"`
}

func genReqSet(t *rapid.T, label string) map[string][]ref.Prim {
	keys := append(append([]string{}, customKeys...), wellKnownKey...)
	out := map[string][]ref.Prim{}
	for _, k := range keys {
		if rapid.IntRange(0, 1).Draw(t, label+"_has_"+k) == 1 {
			out[k] = genCompound(t, label+"_"+k, false)
		}
	}
	return out
}

func drawC12b(t *rapid.T) *c12bScenario {
	return &c12bScenario{A: genReqSet(t, "A"), B: genReqSet(t, "B"), AllowUndefined: rapid.Bool().Draw(t, "allowUndefined")}
}

func kReqs(m map[string][]ref.Prim) scheduling.Requirements {
	// built the way callers do: one Add per primitive
	keys := make([]string, 0, len(m))
	for k := range m {
		keys = append(keys, k)
	}
	sort.Strings(keys)
	r := scheduling.NewRequirements()
	for _, k := range keys {
		for _, p := range m[k] {
			r.Add(scheduling.NewRequirement(k, corev1.NodeSelectorOperator(p.Op), cloneVals(p.Values)...))
		}
	}
	return r
}

func execC12b(s *c12bScenario, c *ev.Ctx) {
	rA, rB := kReqs(s.A), kReqs(s.B)
	var all []ref.Prim
	for _, ps := range s.A {
		all = append(all, ps...)
	}
	for _, ps := range s.B {
		all = append(all, ps...)
	}
	u := ref.ProbeUniverse(all...)
	// Add = key-wise intersection
	for k, ps := range s.A {
		d := ref.FromPrims(ps)
		for _, v := range u {
			if rA.Get(k).Has(v) != d.Has(v) {
				c.Violate("add:"+compoundShape(ps), "Requirements.Add on %s %v: Has(%q)=%v want %v", k, ps, v, rA.Get(k).Has(v), d.Has(v))
				break
			}
		}
	}
	if len(rA) != len(s.A) {
		c.Violate("add:keys", "Requirements has %d keys, want %d", len(rA), len(s.A))
	}

	// reference compatibility. absentOf decides "a node without the label satisfies it" per key; the truth uses the
	// denotation, the diagnostic variants substitute Karpenter's Operator()-derived bit for one loss kind at a time so
	// that a mismatch can be attributed to its root cause.
	type absentFn func(r *scheduling.Requirement, d ref.Set) bool
	truth := func(r *scheduling.Requirement, d ref.Set) bool { return d.Absent }
	lossy := func(kinds ...string) absentFn {
		return func(r *scheduling.Requirement, d ref.Set) bool {
			k := presenceLossKind(r, d)
			for _, x := range kinds {
				if k == x {
					return kAbsent(r)
				}
			}
			return d.Absent
		}
	}
	refCompat := func(checkUndefined bool, absentOf absentFn, emptyAsDNE bool) (bool, string) {
		ok := true
		why := ""
		for k, pb := range s.B {
			dB := ref.FromPrims(pb)
			bAbs := absentOf(rB.Get(k), dB)
			if pa, def := s.A[k]; def {
				dA := ref.FromPrims(pa)
				if !(dA.Overlaps(dB) || (absentOf(rA.Get(k), dA) && bAbs)) {
					ok = false
					why += fmt.Sprintf("[%s: %s vs %s] ", k, dA, dB)
				}
				continue
			}
			if !checkUndefined {
				continue
			}
			if s.AllowUndefined && v1.WellKnownLabels.Has(k) {
				// any value may still be chosen for the label, or it may stay absent
				if dB.Empty() && !bAbs {
					ok = false
					why += fmt.Sprintf("[%s undefined but %s unsatisfiable] ", k, dB)
				}
				continue
			}
			if !bAbs {
				ok = false
				why += fmt.Sprintf("[%s undefined, %s needs the label] ", k, dB)
			}
		}
		return ok, why
	}
	const lossEmpty, lossCompl = "empty-set-read-as-DoesNotExist", "complement-with-exclusions-read-as-NotIn"
	attribute := func(got bool, checkUndefined bool) string {
		for _, try := range []struct {
			sig   string
			kinds []string
		}{{"presence-lost:" + lossEmpty, []string{lossEmpty}}, {"presence-lost:" + lossCompl, []string{lossCompl}}, {"presence-lost:both", []string{lossEmpty, lossCompl}}} {
			if ok, _ := refCompat(checkUndefined, lossy(try.kinds...), true); ok == got {
				return try.sig
			}
		}
		return ""
	}

	var gotCompat bool
	if s.AllowUndefined {
		gotCompat = rA.Compatible(rB, scheduling.AllowUndefinedWellKnownLabels) == nil
	} else {
		gotCompat = rA.Compatible(rB) == nil
	}
	want, why := refCompat(true, truth, false)
	c.ClassIf(want, "compatible")
	c.ClassIf(!want, "incompatible")
	shared := 0
	undefined := 0
	for k := range s.B {
		if _, ok := s.A[k]; ok {
			shared++
		} else {
			undefined++
		}
	}
	c.ClassIf(shared > 0, "shared_key")
	c.ClassIf(undefined > 0, "undefined_key")
	c.NTIf(shared > 0 && undefined > 0 || shared >= 2)
	if gotCompat != want {
		sig := "compatible"
		if a := attribute(gotCompat, true); a != "" {
			sig = a
		}
		c.Violate(sig, "Compatible(%v, %v, allowUndefined=%v)=%v, reference %v %s", s.A, s.B, s.AllowUndefined, gotCompat, want, why)
	}
	gotInter := rA.Intersects(rB) == nil
	wantI, whyI := refCompat(false, truth, false)
	if gotInter != wantI {
		sig := "intersects"
		if a := attribute(gotInter, false); a != "" {
			sig = a
		}
		c.Violate(sig, "Intersects(%v, %v)=%v, reference %v %s", s.A, s.B, gotInter, wantI, whyI)
	}
	c.Sample(map[string]any{"A": fmt.Sprint(s.A), "B": fmt.Sprint(s.B), "allowUndefined": s.AllowUndefined, "compatible": gotCompat})
}

var propC12b = ev.Prop[c12bScenario]{
	ID: "C12", Test: "TestC12b",
	Rule: "rapid draws two requirement sets over 2 custom + 2 well-known keys (each key a compound) and the AllowUndefined option; " +
		"oracle: Compatible ⇔ ∀k∈B: defined in A ⇒ sets overlap or both admit an absent label; undefined ⇒ well-known & allowed, or B[k] admits an absent label; " +
		"non-trivial = both a shared and an undefined key, or >=2 shared keys",
	Assumptions: []string{"'admits an absent label' of a compound is the AND over its primitives (Kubernetes ANDs match expressions of one term)"},
	Draw:        drawC12b, Exec: execC12b,
}

func TestC12b(t *testing.T) { ev.Run(t, propC12b) }

// ---------------------------------------------------------------------------------------------------------------------
// C12c: exhaustive ordered pairs of primitives over a 9-value universe
// ---------------------------------------------------------------------------------------------------------------------

type c12cScenario struct {
	A ref.Prim `json:"a"`
	B ref.Prim `json:"b"`
}

func allPrims() []ref.Prim {
	vals := []string{"0", "1", "2", "05", "a", ""}
	bounds := []string{"0", "1", "2", strconv.Itoa(math.MaxInt)}
	var out []ref.Prim
	out = append(out, ref.Prim{Op: "Exists"}, ref.Prim{Op: "DoesNotExist"})
	for _, op := range []string{"In", "NotIn"} {
		for i, v := range vals {
			out = append(out, ref.Prim{Op: op, Values: []string{v}})
			for _, w := range vals[i+1:] {
				out = append(out, ref.Prim{Op: op, Values: []string{v, w}})
			}
		}
	}
	for _, op := range []string{"Gt", "Lt", "Gte", "Lte"} {
		for _, b := range bounds {
			out = append(out, ref.Prim{Op: op, Values: []string{b}})
		}
	}
	return out
}

func execC12c(s *c12cScenario, c *ev.Ctx) {
	u := ref.ProbeUniverse(s.A, s.B)
	dA, dB := ref.FromPrim(s.A), ref.FromPrim(s.B)
	rA, rB := kReq("k", []ref.Prim{s.A}, nil), kReq("k", []ref.Prim{s.B}, nil)
	d := dA.And(dB)
	r := rA.Intersection(rB)
	c.NTIf(primClass(s.A) != primClass(s.B) || s.A.Op != s.B.Op)
	for _, v := range u {
		if rA.Has(v) != dA.Has(v) {
			c.Violate("has:"+s.A.Op, "%v Has(%q)=%v want %v", s.A, v, rA.Has(v), dA.Has(v))
			break
		}
		if r.Has(v) != d.Has(v) {
			c.Violate("intersection:"+s.A.Op+"^"+s.B.Op, "%v∩%v Has(%q)=%v want %v", s.A, s.B, v, r.Has(v), d.Has(v))
			break
		}
	}
	if rA.HasIntersection(rB) != !d.Empty() {
		c.Violate("hasintersection", "HasIntersection(%v,%v)=%v want %v", s.A, s.B, rA.HasIntersection(rB), !d.Empty())
	}
	c.Sample(map[string]any{"a": s.A.String(), "b": s.B.String(), "a∩b": d.String()})
}

var propC12c = ev.Prop[c12cScenario]{
	ID: "C12", Test: "TestC12c",
	Rule:        "complete enumeration of all ordered pairs of primitives (8 operators; value lists of size 1-2 over {0,1,2,05,a,\"\"}; bounds {0,1,2,MaxInt}); non-trivial = the two primitives use different operators",
	Assumptions: []string{"same oracle as C12a"},
	Exec:        execC12c,
}

func TestC12c(t *testing.T) {
	ps := allPrims()
	ev.RunExhaustive(t, propC12c, func(yield func(*c12cScenario) bool) {
		for _, a := range ps {
			for _, b := range ps {
				if !yield(&c12cScenario{A: a, B: b}) {
					return
				}
			}
		}
	})
}
