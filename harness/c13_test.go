package harness

import (
	"fmt"
	"sort"
	"strconv"
	"testing"

	corev1 "k8s.io/api/core/v1"
	"pgregory.net/rapid"

	"sigs.k8s.io/karpenter/pkg/scheduling"

	"verif/harness/ev"
	"verif/harness/ref"
)

// C13a: in-memory requirements -> NodeClaim.spec.requirements -> parsed back admit exactly the same label values.

type c13aScenario struct {
	Reqs map[string][]ref.Prim `json:"reqs"`
	Min  map[string]int        `json:"min,omitempty"`
}

// validated-domain values: what NodePool validation (IsValidLabelValue, non-negative integer bounds) and the pod
// validation in Provisioner.Validate let through.
var (
	c13ListVals  = []string{"0", "1", "2", "3", "4", "5", "6", "10", "05", "003", "a", "b", "x1"}
	c13BoundVals = []string{"0", "1", "2", "3", "4", "5", "6", "10", "05", strconv.Itoa(int(^uint(0)>>1) - 1), strconv.Itoa(int(^uint(0) >> 1))}
)

func genValidPrim(t *rapid.T, label string) ref.Prim {
	op := rapid.SampledFrom(reqOps).Draw(t, label+"_op")
	switch {
	case op == "Exists" || op == "DoesNotExist":
		return ref.Prim{Op: op}
	case isBoundOp(op):
		return ref.Prim{Op: op, Values: []string{rapid.SampledFrom(c13BoundVals).Draw(t, label+"_b")}}
	default:
		n := rapid.IntRange(1, 3).Draw(t, label+"_n")
		vals := make([]string, 0, n)
		for i := 0; i < n; i++ {
			vals = append(vals, rapid.SampledFrom(c13ListVals).Draw(t, fmt.Sprintf("%s_v%d", label, i)))
		}
		return ref.Prim{Op: op, Values: vals}
	}
}

func drawC13a(t *rapid.T) *c13aScenario {
	s := &c13aScenario{Reqs: map[string][]ref.Prim{}, Min: map[string]int{}}
	keys := append(append([]string{}, customKeys...), corev1.LabelTopologyZone)
	for _, k := range keys {
		if rapid.IntRange(0, 3).Draw(t, "has_"+k) == 0 {
			continue
		}
		n := rapid.IntRange(1, 4).Draw(t, "n_"+k)
		for i := 0; i < n; i++ {
			s.Reqs[k] = append(s.Reqs[k], genValidPrim(t, fmt.Sprintf("%s_%d", k, i)))
		}
		if rapid.IntRange(0, 3).Draw(t, "hasmin_"+k) == 0 {
			s.Min[k] = rapid.IntRange(1, 3).Draw(t, "min_"+k)
		}
	}
	if len(s.Reqs) == 0 {
		s.Reqs[customKeys[0]] = []ref.Prim{genValidPrim(t, "fallback")}
	}
	return s
}

// serialiseSig names the root cause of a round-trip loss from the shape of the in-memory requirement.
func serialiseSig(d ref.Set) string {
	bounded := d.Lo != nil || d.Hi != nil
	switch {
	case d.Co && bounded && len(d.Vals) > 0:
		return "serialize:exclusions-dropped-when-bounded"
	case d.Co && bounded:
		return "serialize:bounds"
	case d.Co:
		return "serialize:complement"
	default:
		return "serialize:concrete"
	}
}

func execC13a(s *c13aScenario, c *ev.Ctx) {
	reqs := scheduling.NewRequirements()
	keys := make([]string, 0, len(s.Reqs))
	for k := range s.Reqs {
		keys = append(keys, k)
	}
	sort.Strings(keys)
	var all []ref.Prim
	for _, k := range keys {
		var mv *int
		if m, ok := s.Min[k]; ok {
			mv = &m
		}
		reqs.Add(kReq(k, s.Reqs[k], mv))
		all = append(all, s.Reqs[k]...)
	}
	u := ref.ProbeUniverse(all...)
	ser := reqs.NodeSelectorRequirements()
	back := scheduling.NewNodeSelectorRequirementsWithMinValues(ser...)
	for _, k := range keys {
		d := ref.FromPrims(s.Reqs[k])
		in := reqs.Get(k)
		c.ClassIf(d.Co && (d.Lo != nil || d.Hi != nil) && len(d.Vals) > 0, "exclusion+bound")
		c.ClassIf(d.Lo != nil && d.Hi != nil, "two_bounds")
		c.ClassIf(in.MinValues != nil, "minvalues")
		c.NTIf((d.Co && (d.Lo != nil || d.Hi != nil) && len(d.Vals) > 0) || (d.Lo != nil && d.Hi != nil) || in.MinValues != nil)
		if !back.Has(k) {
			c.Violate("serialize:key-dropped", "key %s missing after round trip", k)
			continue
		}
		out := back.Get(k)
		for _, v := range u {
			if in.Has(v) != d.Has(v) {
				// in-memory algebra already wrong: that is C12's business, do not double-report here
				break
			}
			if out.Has(v) != in.Has(v) {
				c.Violate(serialiseSig(d), "key %s %v: in-memory admits(%q)=%v but serialised %v re-parsed admits=%v", k, s.Reqs[k], v, in.Has(v), fmtSer(ser, k), out.Has(v))
				break
			}
		}
		if (in.MinValues == nil) != (out.MinValues == nil) || (in.MinValues != nil && *in.MinValues != *out.MinValues) {
			c.Violate("serialize:minvalues", "key %s: minValues %s became %s", k, ptrStr(in.MinValues), ptrStr(out.MinValues))
		}
		// Any(): used to resolve concrete labels for custom keys; must not panic and must pick an admitted value
		func() {
			defer func() {
				if r := recover(); r != nil {
					c.Violate("any:panic", "Requirement.Any() panicked for %s %v (%s): %v", k, s.Reqs[k], in, r)
				}
			}()
			for i := 0; i < 4; i++ {
				v := in.Any()
				op := in.Operator()
				if op == corev1.NodeSelectorOpDoesNotExist {
					continue
				}
				if !d.Has(v) && !hasCanonicalInt(d) {
					// every canonically spelled integer within the bounds is excluded: no answer Any() could give
					c.Class("any_no_canonical_value")
					break
				}
				if !d.Has(v) {
					sig := "any:not-admitted"
					if d.Co && d.Vals[v] {
						sig = "any:returns-excluded-value"
					}
					c.Violate(sig, "Requirement.Any()=%q for %s %v is not admitted by %s", v, k, s.Reqs[k], d)
					break
				}
			}
		}()
	}
	if len(back) != len(reqs) {
		c.Violate("serialize:keys", "round trip has %d keys, want %d", len(back), len(reqs))
	}
	c.Sample(map[string]any{"reqs": fmt.Sprint(s.Reqs), "serialised": fmt.Sprint(ser)})
}

// hasCanonicalInt reports whether a bounded co-finite set admits at least one canonically spelled integer.
func hasCanonicalInt(d ref.Set) bool {
	if !d.Co || d.None || (d.Lo == nil && d.Hi == nil) {
		return true
	}
	lo, hi := int64(0), int64(^uint64(0)>>1)
	if d.Hi != nil {
		hi = *d.Hi
		if hi < lo {
			lo = hi
		}
	}
	if d.Lo != nil {
		lo = *d.Lo
	}
	if hi < lo {
		return false
	}
	if hi-lo < 0 || hi-lo > int64(len(d.Vals)) {
		return true
	}
	for n := lo; ; n++ {
		if !d.Vals[strconv.FormatInt(n, 10)] {
			return true
		}
		if n == hi {
			break
		}
	}
	return false
}

func fmtSer(ser any, key string) string { return fmt.Sprintf("%v", ser) }

var propC13a = ev.Prop[c13aScenario]{
	ID: "C13", Test: "TestC13a",
	Rule: "rapid draws 1-3 keys, each a compound of 1-4 validated primitives (label-valid values, non-negative integer bounds incl. MaxInt) with optional minValues; " +
		"oracle: NodeSelectorRequirements() re-parsed with NewNodeSelectorRequirementsWithMinValues admits exactly the same strings (probe universe as C12) with the same minValues, and Any() never panics and returns an admitted value; " +
		"non-trivial = a key whose in-memory requirement combines exclusions with a bound, has two bounds, or carries minValues",
	Assumptions: []string{"values restricted to what NodePool/pod validation accepts (IsValidLabelValue, non-negative single integer for Gt/Lt/Gte/Lte)"},
	Draw:        drawC13a, Exec: execC13a,
}

func TestC13a(t *testing.T) { ev.Run(t, propC13a) }
