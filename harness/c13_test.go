package harness

import (
	"context"

	"encoding/json"
	"fmt"
	metav1 "k8s.io/apimachinery/pkg/apis/meta/v1"
	"os"
	"reflect"
	"sigs.k8s.io/karpenter/pkg/operator/options"
	"sort"
	"strconv"
	"testing"

	corev1 "k8s.io/api/core/v1"
	"pgregory.net/rapid"
	"sigs.k8s.io/controller-runtime/pkg/client"

	v1 "sigs.k8s.io/karpenter/pkg/apis/v1"
	pscheduling "sigs.k8s.io/karpenter/pkg/controllers/provisioning/scheduling"
	"sigs.k8s.io/karpenter/pkg/scheduling"

	"verif/harness/ev"
	"verif/harness/gen"
	"verif/harness/ref"
	"verif/harness/sim"
)

// C13a: in-memory requirements -> NodeClaim.spec.requirements -> parsed back admit exactly the same label values.

type c13aScenario struct {
	Reqs map[string][]ref.Prim `json:"reqs"`
	Min  map[string]int        `json:"min,omitempty"`
}

// validated-domain values: what NodePool validation (IsValidLabelValue, non-negative integer bounds) and the pod
// validation in Provisioner.Validate let through.
var (
	c13ListVals  = []string{"0", "1", "2", "3", "4", "5", "6", "10", "05", "003", "a", "b", "x1"}
	c13BoundVals = []string{"0", "1", "2", "3", "4", "5", "6", "10", "05", strconv.Itoa(int(^uint(0)>>1) - 1), strconv.Itoa(int(^uint(0) >> 1))}
)

func genValidPrim(t *rapid.T, label string) ref.Prim {
	op := rapid.SampledFrom(reqOps).Draw(t, label+"_op")
	switch {
	case op == "Exists" || op == "DoesNotExist":
		return ref.Prim{Op: op}
	case isBoundOp(op):
		return ref.Prim{Op: op, Values: []string{rapid.SampledFrom(c13BoundVals).Draw(t, label+"_b")}}
	default:
		n := rapid.IntRange(1, 3).Draw(t, label+"_n")
		vals := make([]string, 0, n)
		for i := 0; i < n; i++ {
			vals = append(vals, rapid.SampledFrom(c13ListVals).Draw(t, fmt.Sprintf("%s_v%d", label, i)))
		}
		return ref.Prim{Op: op, Values: vals}
	}
}

func drawC13a(t *rapid.T) *c13aScenario {
	s := &c13aScenario{Reqs: map[string][]ref.Prim{}, Min: map[string]int{}}
	keys := append(append([]string{}, customKeys...), corev1.LabelTopologyZone)
	for _, k := range keys {
		if rapid.IntRange(0, 3).Draw(t, "has_"+k) == 0 {
			continue
		}
		n := rapid.IntRange(1, 4).Draw(t, "n_"+k)
		for i := 0; i < n; i++ {
			s.Reqs[k] = append(s.Reqs[k], genValidPrim(t, fmt.Sprintf("%s_%d", k, i)))
		}
		if rapid.IntRange(0, 3).Draw(t, "hasmin_"+k) == 0 {
			s.Min[k] = rapid.IntRange(1, 3).Draw(t, "min_"+k)
		}
	}
	if len(s.Reqs) == 0 {
		s.Reqs[customKeys[0]] = []ref.Prim{genValidPrim(t, "fallback")}
	}
	return s
}

// serialiseSig names the root cause of a round-trip loss from the shape of the in-memory requirement.
func serialiseSig(d ref.Set) string {
	bounded := d.Lo != nil || d.Hi != nil
	switch {
	case d.Co && bounded && len(d.Vals) > 0:
		return "serialize:exclusions-dropped-when-bounded"
	case d.Co && bounded:
		return "serialize:bounds"
	case d.Co:
		return "serialize:complement"
	default:
		return "serialize:concrete"
	}
}

func execC13a(s *c13aScenario, c *ev.Ctx) {
	reqs := scheduling.NewRequirements()
	keys := make([]string, 0, len(s.Reqs))
	for k := range s.Reqs {
		keys = append(keys, k)
	}
	sort.Strings(keys)
	var all []ref.Prim
	for _, k := range keys {
		var mv *int
		if m, ok := s.Min[k]; ok {
			mv = &m
		}
		reqs.Add(kReq(k, s.Reqs[k], mv))
		all = append(all, s.Reqs[k]...)
	}
	u := ref.ProbeUniverse(all...)
	ser := reqs.NodeSelectorRequirements()
	back := scheduling.NewNodeSelectorRequirementsWithMinValues(ser...)
	for _, k := range keys {
		d := ref.FromPrims(s.Reqs[k])
		in := reqs.Get(k)
		c.ClassIf(d.Co && (d.Lo != nil || d.Hi != nil) && len(d.Vals) > 0, "exclusion+bound")
		c.ClassIf(d.Lo != nil && d.Hi != nil, "two_bounds")
		c.ClassIf(in.MinValues != nil, "minvalues")
		c.NTIf((d.Co && (d.Lo != nil || d.Hi != nil) && len(d.Vals) > 0) || (d.Lo != nil && d.Hi != nil) || in.MinValues != nil)
		if !back.Has(k) {
			c.Violate("serialize:key-dropped", "key %s missing after round trip", k)
			continue
		}
		out := back.Get(k)
		for _, v := range u {
			if in.Has(v) != d.Has(v) {
				// in-memory algebra already wrong: that is C12's business, do not double-report here
				break
			}
			if out.Has(v) != in.Has(v) {
				c.Violate(serialiseSig(d), "key %s %v: in-memory admits(%q)=%v but serialised %v re-parsed admits=%v", k, s.Reqs[k], v, in.Has(v), fmtSer(ser, k), out.Has(v))
				break
			}
		}
		if (in.MinValues == nil) != (out.MinValues == nil) || (in.MinValues != nil && *in.MinValues != *out.MinValues) {
			c.Violate("serialize:minvalues", "key %s: minValues %s became %s", k, ptrStr(in.MinValues), ptrStr(out.MinValues))
		}
		// Any(): used to resolve concrete labels for custom keys; must not panic and must pick an admitted value
		func() {
			defer func() {
				if r := recover(); r != nil {
					c.Violate("any:panic", "Requirement.Any() panicked for %s %v (%s): %v", k, s.Reqs[k], in, r)
				}
			}()
			for i := 0; i < 4; i++ {
				v := in.Any()
				op := in.Operator()
				if op == corev1.NodeSelectorOpDoesNotExist {
					continue
				}
				if !d.Has(v) && !hasCanonicalInt(d) {
					// every canonically spelled integer within the bounds is excluded: no answer Any() could give
					c.Class("any_no_canonical_value")
					break
				}
				if !d.Has(v) {
					sig := "any:not-admitted"
					if d.Co && d.Vals[v] {
						sig = "any:returns-excluded-value"
					}
					c.Violate(sig, "Requirement.Any()=%q for %s %v is not admitted by %s", v, k, s.Reqs[k], d)
					break
				}
			}
		}()
	}
	if len(back) != len(reqs) {
		c.Violate("serialize:keys", "round trip has %d keys, want %d", len(back), len(reqs))
	}
	c.Sample(map[string]any{"reqs": fmt.Sprint(s.Reqs), "serialised": fmt.Sprint(ser)})
}

// hasCanonicalInt reports whether a bounded co-finite set admits at least one canonically spelled integer.
func hasCanonicalInt(d ref.Set) bool {
	if !d.Co || d.None || (d.Lo == nil && d.Hi == nil) {
		return true
	}
	lo, hi := int64(0), int64(^uint64(0)>>1)
	if d.Hi != nil {
		hi = *d.Hi
		if hi < lo {
			lo = hi
		}
	}
	if d.Lo != nil {
		lo = *d.Lo
	}
	if hi < lo {
		return false
	}
	if hi-lo < 0 || hi-lo > int64(len(d.Vals)) {
		return true
	}
	for n := lo; ; n++ {
		if !d.Vals[strconv.FormatInt(n, 10)] {
			return true
		}
		if n == hi {
			break
		}
	}
	return false
}

func fmtSer(ser any, key string) string { return fmt.Sprintf("%v", ser) }

var propC13a = ev.Prop[c13aScenario]{
	ID: "C13", Test: "TestC13a",
	Rule: "rapid draws 1-3 keys, each a compound of 1-4 validated primitives (label-valid values, non-negative integer bounds incl. MaxInt) with optional minValues; " +
		"oracle: NodeSelectorRequirements() re-parsed with NewNodeSelectorRequirementsWithMinValues admits exactly the same strings (probe universe as C12) with the same minValues, and Any() never panics and returns an admitted value; " +
		"non-trivial = a key whose in-memory requirement combines exclusions with a bound, has two bounds, or carries minValues",
	Assumptions: []string{"values restricted to what NodePool/pod validation accepts (IsValidLabelValue, non-negative single integer for Gt/Lt/Gte/Lte)"},
	Draw:        drawC13a, Exec: execC13a,
}

func TestC13a(t *testing.T) { ev.Run(t, propC13a) }

// ---------------------------------------------------------------------------------------------------------------------
// C13b: the NodeClaim written to the API carries the scheduler's decision (end to end)
// ---------------------------------------------------------------------------------------------------------------------

type c13bScenario struct {
	World    *gen.SchedWorld `json:"world"`
	MaxTypes int             `json:"maxInstanceTypes"`
}

func drawC13b(t *rapid.T) *c13bScenario {
	k := gen.DefaultKnobs()
	k.MaxNodes = 2
	k.CustomKeyHeavy = true
	w := gen.World(t, k)
	// template annotations: arbitrary ones, and - as happens when a manifest is pasted from an existing NodeClaim - the
	// keys Karpenter itself maintains
	for i, np := range w.Pools {
		if !dpct(t, 30, fmt.Sprintf("c13b_annotated%d", i)) {
			continue
		}
		np.Spec.Template.Annotations = map[string]string{"ex.io/owner": "team-a"}
		if dpct(t, 50, fmt.Sprintf("c13b_hashKeys%d", i)) {
			np.Spec.Template.Annotations[v1.NodePoolHashAnnotationKey] = "1234567890"
			np.Spec.Template.Annotations[v1.NodePoolHashVersionAnnotationKey] = rapid.SampledFrom([]string{"v1", "v3"}).Draw(t, fmt.Sprintf("c13b_hashVersion%d", i))
		}
	}
	return &c13bScenario{World: w, MaxTypes: rapid.SampledFrom([]int{2, 3, 5, 600}).Draw(t, "maxInstanceTypes")}
}

type memClaim struct {
	pool     string
	reqs     map[string]*scheduling.Requirement
	options  []string
	pods     []*corev1.Pod
	template *v1.NodePool
}

func execC13b(s *c13bScenario, c *ev.Ctx) {
	old := pscheduling.MaxInstanceTypes
	pscheduling.MaxInstanceTypes = s.MaxTypes
	defer func() { pscheduling.MaxInstanceTypes = old }()
	b := build(s.World, c)
	w := b.W
	res, err := b.Provisioner.Schedule(w.Ctx)
	if err != nil || len(res.NewNodeClaims) == 0 {
		c.Class("no_new_claims")
		return
	}
	// snapshot the in-memory decision (ToNodeClaim narrows the in-memory requirements while serialising)
	var mem []memClaim
	for _, nc := range res.NewNodeClaims {
		m := memClaim{pool: nc.NodePoolName, reqs: map[string]*scheduling.Requirement{}, pods: b.originals(nc.Pods), template: b.Pools[nc.NodePoolName]}
		for k, r := range nc.Requirements {
			cp := *r
			m.reqs[k] = cp.Intersection(&cp) // deep copy through the algebra
		}
		for _, it := range nc.InstanceTypeOptions {
			m.options = append(m.options, it.Name)
		}
		mem = append(mem, m)
	}
	names, err := b.Provisioner.CreateNodeClaims(w.Ctx, res.NewNodeClaims)
	if err != nil {
		c.Class("create_error")
		c.Logf("create: %v", err)
	}
	compound := false
	for i, m := range mem {
		if i >= len(names) || names[i] == "" {
			continue
		}
		api := &v1.NodeClaim{}
		var gerr error
		w.Quiet(func() { gerr = w.Client.Get(w.Ctx, client.ObjectKey{Name: names[i]}, api) })
		if gerr != nil {
			c.Violate("e2e:nodeclaim-missing", "CreateNodeClaims returned %s but it is not in the API: %v", names[i], gerr)
			continue
		}
		apiReqs := scheduling.NewNodeSelectorRequirementsWithMinValues(api.Spec.Requirements...)
		strict := !s.World.Options.MinValuesBestEffort
		var probes []string
		for _, r := range m.reqs {
			probes = append(probes, r.Values()...)
		}
		probes = append(probes, "zone-a", "zone-b", "zone-c", "on-demand", "spot", "reserved", "amd64", "arm64", "linux", "windows", "f1", "f2", "f3", "0", "1", "2", "3", "4", "5", "6", "05", "a", "b", "c", "x", "y", "zz", "")
		for k, r := range m.reqs {
			if k == v1.NodeRegisteredLabelKey || k == v1.NodeInitializedLabelKey || k == corev1.LabelHostname {
				if apiReqs.Has(k) {
					c.Violate("e2e:simulation-key-leaked", "NodeClaim %s carries scheduling-simulation key %s", api.Name, k)
				}
				continue
			}
			if r.MinValues != nil || len(r.Values()) > 1 && r.Operator() != corev1.NodeSelectorOpIn {
				compound = true
			}
			if !apiReqs.Has(k) {
				c.Violate("e2e:key-dropped", "NodeClaim %s lost requirement key %s (%s)", api.Name, k, r)
				continue
			}
			ar := apiReqs.Get(k)
			switch k {
			case corev1.LabelInstanceTypeStable:
				vals := ar.Values()
				for _, v := range vals {
					if !contains(m.options, v) {
						c.Violate("e2e:instance-type-not-an-option", "NodeClaim %s lists instance type %s that is not among the scheduler's options %v", api.Name, v, m.options)
					}
				}
				if ar.Operator() != corev1.NodeSelectorOpIn || len(vals) == 0 {
					c.Violate("e2e:instance-type-requirement", "NodeClaim %s instance-type requirement is %s", api.Name, ar)
				}
				want := len(m.options)
				if want > s.MaxTypes {
					want = s.MaxTypes
				}
				if len(vals) != want {
					c.Violate("e2e:instance-type-count", "NodeClaim %s lists %d instance types, scheduler had %d options and the cap is %d", api.Name, len(vals), len(m.options), s.MaxTypes)
				}
				// cheapest prefix: no kept type dearer than a dropped option (C19)
				var zones, cts []string
				for _, z := range gen.Zones {
					if zr, ok := m.reqs[corev1.LabelTopologyZone]; !ok || zr.Has(z) {
						zones = append(zones, z)
					}
				}
				for _, ct := range []string{"on-demand", "spot", "reserved"} {
					if cr, ok := m.reqs[v1.CapacityTypeLabelKey]; !ok || cr.Has(ct) {
						cts = append(cts, ct)
					}
				}
				for _, dropped := range m.options {
					if contains(vals, dropped) {
						continue
					}
					c.Class("options_truncated")
					ds, _ := b.itSpec(dropped)
					for _, kept := range vals {
						ks, _ := b.itSpec(kept)
						if pk, pd := refMinPrice(ks, zones, cts), refMinPrice(ds, zones, cts); pk > pd {
							c.Violate("e2e:dearer-type-kept", "NodeClaim %s keeps %s (%v) but dropped the cheaper option %s (%v)", api.Name, kept, pk, dropped, pd)
						}
					}
				}
			case v1.CapacityTypeLabelKey:
				// may be narrowed to the capacity types actually offered, never widened
				for _, v := range probes {
					if ar.Has(v) && !r.Has(v) {
						c.Violate("e2e:capacity-type-widened", "NodeClaim %s admits capacity type %q that the scheduler's requirement %s does not", api.Name, v, r)
					}
				}
			default:
				for _, v := range probes {
					if ar.Has(v) != r.Has(v) {
						c.Violate("e2e:requirement-differs", "NodeClaim %s key %s: API requirement %s admits(%q)=%v, in-memory %s admits=%v", api.Name, k, ar, v, ar.Has(v), r, r.Has(v))
						break
					}
				}
			}
			if strict && k != v1.CapacityTypeLabelKey && ((r.MinValues == nil) != (ar.MinValues == nil) || (r.MinValues != nil && *r.MinValues != *ar.MinValues)) {
				c.Violate("e2e:minvalues", "NodeClaim %s key %s: minValues %s in memory, %s in the API", api.Name, k, ptrStr(r.MinValues), ptrStr(ar.MinValues))
			}
			// strict minValues floors still hold for the listed instance types
			if strict && r.MinValues != nil {
				distinct := map[string]bool{}
				for _, n := range apiReqs.Get(corev1.LabelInstanceTypeStable).Values() {
					it, _ := b.itSpec(n)
					switch k {
					case corev1.LabelInstanceTypeStable:
						distinct[it.Name] = true
					case sim.LabelFamily:
						if it.Family != "" {
							distinct[it.Family] = true
						}
					}
				}
				if (k == corev1.LabelInstanceTypeStable || k == sim.LabelFamily) && len(distinct) < *r.MinValues {
					c.Violate("e2e:minvalues-floor", "NodeClaim %s: %d distinct %s among its instance types, minValues %d", api.Name, len(distinct), k, *r.MinValues)
				}
			}
		}
		for k := range apiReqs {
			if _, ok := m.reqs[k]; !ok && k != corev1.LabelInstanceTypeStable && k != v1.CapacityTypeLabelKey {
				c.Violate("e2e:key-invented", "NodeClaim %s has requirement key %s the scheduler did not decide", api.Name, k)
			}
		}
		// resource requests cover the pods placed on it
		want := ref.SumRequests(m.pods...)
		for rn, q := range want {
			if got := api.Spec.Resources.Requests[rn]; got.Cmp(q) < 0 {
				c.Violate("e2e:requests-too-small", "NodeClaim %s requests %s=%s but its pods %s need %s", api.Name, rn, got.String(), shortPods(m.pods), q.String())
			}
		}
		// ... plus daemon overhead: on whatever node the claim becomes (listed type x launchable offering x value of the
		// user-defined labels) Kubernetes runs the DaemonSets that select it; the requests cover the pods plus at least the
		// SMALLEST such overhead (daemons that only match through a label a pod induced are left out: known finding C01)
		nc := res.NewNodeClaims[i]
		poolKeys := b.poolPrims(m.pool)
		minOverheadOver := func(types []string) corev1.ResourceList {
			var minOverhead corev1.ResourceList
			for _, name := range types {
				it, ok := b.itSpec(name)
				if !ok {
					continue
				}
				for _, ch := range launchable(it, nc.Requirements) {
					for _, custom := range customCombos(nc.Requirements) {
						node := newNodeView(nc, it, ch, custom)
						var daemons []*corev1.Pod
						for _, ds := range b.DaemonSets {
							if !daemonRunsOn(ds, node) {
								continue
							}
							induced := false
							for k := range custom {
								if _, defined := poolKeys[k]; !defined && mentionsKey(daemonTemplatePod(ds), k) {
									induced = true
								}
							}
							if !induced {
								daemons = append(daemons, daemonTemplatePod(ds))
							}
						}
						overhead := ref.SumRequests(daemons...)
						if minOverhead == nil {
							minOverhead = overhead
							continue
						}
						for rn, q := range minOverhead {
							if o, ok := overhead[rn]; !ok {
								delete(minOverhead, rn)
							} else if o.Cmp(q) < 0 {
								minOverhead[rn] = o
							}
						}
					}
				}
			}
			return minOverhead
		}
		if os.Getenv("VERIF_DBG") != "" {
			fmt.Printf("C13DBG %s options=%v listed=%v requests=%v pods=%s\n", api.Name, m.options, apiReqs.Get(corev1.LabelInstanceTypeStable).Values(), api.Spec.Resources.Requests, shortPods(m.pods))
		}
		listed := minOverheadOver(apiReqs.Get(corev1.LabelInstanceTypeStable).Values())
		// Provisioner.Schedule truncates the options to the MaxInstanceTypes cheapest AFTER the requests were finalized over
		// all options: what every type the requirements (without the instance-type list) admit would need at least
		var admitted []string
		if len(m.options) >= s.MaxTypes {
			for _, it := range s.World.Catalog {
				admitted = append(admitted, it.Name)
			}
		} else {
			admitted = m.options
		}
		saved := nc.Requirements
		widened := scheduling.NewRequirements()
		for k, r := range saved {
			if k != corev1.LabelInstanceTypeStable {
				widened[k] = r
			}
		}
		nc.Requirements = widened
		decided := minOverheadOver(admitted)
		nc.Requirements = saved
		for _, rn := range []corev1.ResourceName{corev1.ResourceCPU, corev1.ResourceMemory, corev1.ResourcePods} {
			o, ok := listed[rn]
			if !ok || o.IsZero() {
				continue
			}
			c.Class("daemon_overhead_judged")
			q := want[rn].DeepCopy()
			q.Add(o)
			if got := api.Spec.Resources.Requests[rn]; got.Cmp(q) < 0 {
				sig := "e2e:requests-without-daemon-overhead"
				if d, ok := decided[rn]; !ok || d.Cmp(o) < 0 {
					// the overhead was the minimum over the scheduler's options; truncating the launch list to the cheapest
					// types afterwards removed the types with the smaller overhead
					sig += ":computed-before-truncation"
				}
				c.Violate(sig, "NodeClaim %s requests %s=%s, but its pods %s need %s and every node it can become runs daemons needing at least %s more", api.Name, rn, got.String(), shortPods(m.pods), ptrTo(want[rn]).String(), o.String())
			}
		}
		// template fidelity
		np := m.template
		if np != nil {
			tmpl := np.Spec.Template
			for k, v := range tmpl.Labels {
				if api.Labels[k] != v {
					c.Violate("e2e:template-label", "NodeClaim %s label %s=%q, template says %q", api.Name, k, api.Labels[k], v)
				}
			}
			if api.Labels[v1.NodePoolLabelKey] != np.Name || api.Labels[v1.NodeClassLabelKey(tmpl.Spec.NodeClassRef.GroupKind())] != tmpl.Spec.NodeClassRef.Name {
				c.Violate("e2e:pool-labels", "NodeClaim %s nodepool / nodeclass labels are %v", api.Name, api.Labels)
			}
			if fmt.Sprint(api.Spec.Taints) != fmt.Sprint(tmpl.Spec.Taints) || fmt.Sprint(api.Spec.StartupTaints) != fmt.Sprint(tmpl.Spec.StartupTaints) {
				c.Violate("e2e:taints", "NodeClaim %s taints %v / %v differ from the template %v / %v", api.Name, api.Spec.Taints, api.Spec.StartupTaints, tmpl.Spec.Taints, tmpl.Spec.StartupTaints)
			}
			if !reflect.DeepEqual(api.Spec.NodeClassRef, tmpl.Spec.NodeClassRef) || !reflect.DeepEqual(api.Spec.TerminationGracePeriod, tmpl.Spec.TerminationGracePeriod) || jsonOf(api.Spec.ExpireAfter) != jsonOf(tmpl.Spec.ExpireAfter) {
				c.Violate("e2e:template-spec", "NodeClaim %s nodeClassRef/terminationGracePeriod/expireAfter differ from the template", api.Name)
			}
			for k, v := range tmpl.Annotations {
				if k != v1.NodePoolHashAnnotationKey && k != v1.NodePoolHashVersionAnnotationKey && api.Annotations[k] != v {
					c.Violate("e2e:template-annotation", "NodeClaim %s annotation %s=%q, template says %q", api.Name, k, api.Annotations[k], v)
				}
			}
			if api.Annotations[v1.NodePoolHashAnnotationKey] != np.Hash() || api.Annotations[v1.NodePoolHashVersionAnnotationKey] != v1.NodePoolHashVersion {
				c.Violate("e2e:hash", "NodeClaim %s hash annotations %q/%q, NodePool hash %q/%q", api.Name, api.Annotations[v1.NodePoolHashAnnotationKey], api.Annotations[v1.NodePoolHashVersionAnnotationKey], np.Hash(), v1.NodePoolHashVersion)
			}
			owned := false
			for _, o := range api.OwnerReferences {
				owned = owned || (o.Kind == "NodePool" && o.Name == np.Name)
			}
			if !owned {
				c.Violate("e2e:owner", "NodeClaim %s is not owned by NodePool %s", api.Name, np.Name)
			}
		}
		// every concrete label value satisfies the requirement on its key
		for k, v := range api.Labels {
			if apiReqs.Has(k) && !apiReqs.Get(k).Has(v) {
				// a bounded complement whose every canonical integer is excluded still admits non-canonical spellings
				// ("02"); Any() has no canonical value to offer there (same exemption as in C13a)
				var prims []ref.Prim
				for _, r := range api.Spec.Requirements {
					if r.Key == k {
						prims = append(prims, ref.Prim{Op: string(r.Operator), Values: r.Values})
					}
				}
				if !hasCanonicalInt(ref.FromPrims(prims)) {
					c.Class("no_canonical_integer_value")
					continue
				}
				c.Violate("e2e:label-outside-requirement", "NodeClaim %s label %s=%q is not admitted by its own requirement %s", api.Name, k, v, apiReqs.Get(k))
			}
		}
	}
	c.ClassIf(compound, "compound_requirement")
	c.NTIf(compound)
	c.Class("created")
	c.Sample(map[string]any{"claims": len(mem), "maxInstanceTypes": s.MaxTypes, "pools": len(s.World.Pools)})
}

var propC13b = ev.Prop[c13bScenario]{
	ID: "C13", Test: "TestC13b",
	Rule: "rapid draws a scheduler world (custom-key heavy pools: In/NotIn/Exists/Gt/Lt on user labels, minValues) and MaxInstanceTypes in {2,3,5,600}; Provisioner.Schedule then CreateNodeClaims run; every NodeClaim is read back from the API and compared with a snapshot of the scheduler's in-memory NodeClaim: " +
		"per key the serialised requirement admits exactly the in-memory set (instance-type = explicit cheapest subset of the options, capacity-type only narrowed, simulation-only keys dropped), minValues kept and floors met (strict), requests >= sum of its pods plus the smallest daemon overhead over the nodes it can become, labels/taints/startupTaints/nodeClassRef/TGP/expireAfter/hash/owner from the NodePool template, every label admitted by its own requirement, no panic; " +
		"non-trivial = a key with minValues or a multi-value complement requirement",
	Assumptions: []string{"daemon overhead inside spec.resources.requests is judged as a lower bound: the smallest overhead over every node the claim can become"},
	Draw:        drawC13b, Exec: execC13b, ReplayTries: 5,
}

func TestC13b(t *testing.T) { ev.Run(t, propC13b) }

func jsonOf(v any) string {
	b, _ := json.Marshal(v)
	return string(b)
}

// ---------------------------------------------------------------------------------------------------------------------
// C13c: the launch list after truncation (the same generator and oracle as C19b, judged here for the clause "its
// instance-type list is a subset of the scheduler's options that still meets every minValues floor under the strict
// policy"; the drawn scenarios always carry a minValues floor)
// ---------------------------------------------------------------------------------------------------------------------

func drawC13c(t *rapid.T) *c19bScenario {
	s := drawC19b(t)
	if s.MinKey == "" {
		s.MinKey = corev1.LabelInstanceTypeStable
		s.MinValues = rapid.IntRange(1, 4).Draw(t, "c13cMinValues")
	}
	return s
}

var propC13c = ev.Prop[c19bScenario]{
	ID: "C13", Test: "TestC13c",
	Rule: "the Truncate scenarios of C19b, always with a minValues floor on instance-type or family: catalog of 1-9 types with tied / inverted prices and unavailable offerings, zone / capacity-type requirements, maxItems 1-6, both minValues policies; InstanceTypes.Truncate runs on a shuffled copy; " +
		"oracle: the result is a duplicate-free subset of the options, under the strict policy it still holds the floor's number of distinct values, and an error is returned iff the cheapest prefix cannot hold it; non-trivial = truncation dropped at least one type",
	Assumptions: []string{"price ties may be broken either way"},
	Draw:        drawC13c, Exec: execC19b,
}

func TestC13c(t *testing.T) { ev.Run(t, propC13c) }

// ---- C13d: "building it never panics for any NodePool that passes validation" ----------------------------------------
//
// NodePool template requirements of ARBITRARY shape (every operator incl. Gte / Lte, 0-3 values that are integers,
// negative, non-numeric, overflowing, padded; minValues) are offered to NodePool.RuntimeValidate; whatever it accepts is
// turned into a NodeClaimTemplate, into scheduling requirements and back into node selector requirements.

type c13dReq struct {
	Key       string   `json:"key"`
	Op        string   `json:"op"`
	Values    []string `json:"values,omitempty"`
	MinValues int      `json:"minValues,omitempty"`
}

type c13dScenario struct {
	Reqs []c13dReq `json:"reqs"`
}

func drawC13d(t *rapid.T) *c13dScenario {
	s := &c13dScenario{}
	vals := []string{"0", "1", "5", "42", "-1", "a", "1.5", "007", "", "9223372036854775807", "9223372036854775808", "zone-a", "spot", "on-demand", "amd64"}
	for i := 0; i < rapid.IntRange(1, 4).Draw(t, "nReqs"); i++ {
		r := c13dReq{Key: rapid.SampledFrom([]string{"ex.io/rank", "ex.io/rank", "ex.io/tier", corev1.LabelTopologyZone, v1.CapacityTypeLabelKey, corev1.LabelArchStable, sim.LabelGen}).Draw(t, "key"),
			Op: rapid.SampledFrom([]string{"In", "NotIn", "Exists", "DoesNotExist", "Gt", "Lt", "Gte", "Lte", "Gt", "Lt", "Gte", "Lte"}).Draw(t, "op")}
		for j := 0; j < rapid.SampledFrom([]int{0, 1, 1, 1, 2, 3}).Draw(t, "nValues"); j++ {
			r.Values = append(r.Values, rapid.SampledFrom(vals).Draw(t, "value"))
		}
		if dpct(t, 15, "minValues") {
			r.MinValues = rapid.IntRange(1, 3).Draw(t, "minValuesV")
		}
		s.Reqs = append(s.Reqs, r)
	}
	return s
}

func execC13d(s *c13dScenario, c *ev.Ctx) {
	np := &v1.NodePool{ObjectMeta: metav1.ObjectMeta{Name: "p0", UID: "pool-uid-0"}}
	np.Spec.Template.Spec.NodeClassRef = sim.NodeClassRef()
	np.Spec.Template.Spec.ExpireAfter = v1.MustParseNillableDuration("Never")
	for _, r := range s.Reqs {
		e := v1.NodeSelectorRequirementWithMinValues{Key: r.Key, Operator: corev1.NodeSelectorOperator(r.Op), Values: r.Values}
		if r.MinValues > 0 {
			e.MinValues = ptrTo(r.MinValues)
		}
		np.Spec.Template.Spec.Requirements = append(np.Spec.Template.Spec.Requirements, e)
	}
	ctx := options.ToContext(context.Background(), sim.DefaultOptions())
	if err := np.DeepCopy().RuntimeValidate(ctx); err != nil {
		c.Class("rejected_by_validation")
		return
	}
	c.Class("accepted_by_validation")
	bounded := false
	for _, r := range s.Reqs {
		switch r.Op {
		case "Gt", "Lt", "Gte", "Lte":
			bounded = true
			c.Class("accepted:" + r.Op)
			// the documented rule for the numeric operators: exactly one value, a non-negative integer
			ok := len(r.Values) == 1
			if ok {
				n, err := strconv.Atoi(r.Values[0])
				ok = err == nil && n >= 0
			}
			if !ok {
				c.Violate("validation:accepts-malformed-bound:"+r.Op, "RuntimeValidate accepts requirement %s %s %q, which is not a single non-negative integer: the requirement built from it admits something else than the manifest says", r.Key, r.Op, r.Values)
			}
		}
	}
	func() {
		defer func() {
			if p := recover(); p != nil {
				c.Violate("build:panic", "a NodePool that passes RuntimeValidate makes NewNodeClaimTemplate / requirement conversion panic: %v (requirements %+v)", p, s.Reqs)
			}
		}()
		nct := pscheduling.NewNodeClaimTemplate(np)
		_ = nct.Requirements.NodeSelectorRequirements()
		for _, r := range nct.Requirements {
			_ = r.Any()
			_ = r.String()
		}
		reqs := scheduling.NewNodeSelectorRequirementsWithMinValues(np.Spec.Template.Spec.Requirements...)
		_ = reqs.NodeSelectorRequirements()
	}()
	c.NTIf(bounded)
	c.Sample(map[string]any{"reqs": len(s.Reqs)})
}

var propC13d = ev.Prop[c13dScenario]{
	ID: "C13", Test: "TestC13d",
	Rule: "rapid draws 1-4 NodePool template requirements of arbitrary shape (In / NotIn / Exists / DoesNotExist / Gt / Lt / Gte / Lte over custom and well-known keys, 0-3 values from integers, negative, non-numeric, fractional, zero-padded, empty, MaxInt64, MaxInt64+1, minValues); " +
		"oracle: if NodePool.RuntimeValidate accepts the pool, (1) every numeric-operator requirement carries exactly one non-negative integer (the documented rule), (2) NewNodeClaimTemplate, the conversion to scheduling requirements and back, Any() and String() do not panic; " +
		"non-trivial = the accepted pool carries a numeric-operator requirement",
	Draw: drawC13d, Exec: execC13d, ReplayTries: 1,
}

func TestC13d(t *testing.T) { ev.Run(t, propC13d) }
