package harness

import (
	"fmt"
	"os"
	"testing"
	"time"

	corev1 "k8s.io/api/core/v1"
	apierrors "k8s.io/apimachinery/pkg/api/errors"
	"k8s.io/apimachinery/pkg/api/resource"
	metav1 "k8s.io/apimachinery/pkg/apis/meta/v1"
	"k8s.io/apimachinery/pkg/runtime/schema"
	"k8s.io/apimachinery/pkg/types"
	"pgregory.net/rapid"

	v1 "sigs.k8s.io/karpenter/pkg/apis/v1"
	"sigs.k8s.io/karpenter/pkg/cloudprovider"

	"verif/harness/ev"
	"verif/harness/gen"
	"verif/harness/sim"
)

// C14: a NodeClaim launches one instance and its lifecycle only moves forward (fault enumeration).

type c14Step struct {
	Kind string `json:"kind"` // reconcile | stale | join | ready | untaint | gpu | clock | notready
	Arg  int    `json:"arg,omitempty"`
}

type c14Scenario struct {
	StartupTaint bool      `json:"startupTaint"`
	PoolTaint    bool      `json:"poolTaint"`
	WantGPU      bool      `json:"wantGPU"`
	Outcomes     []string  `json:"outcomes"` // provider Create outcomes in order: ok | ice | ncnr | createerr | err | createerr-ice | wrapped-ice
	JoinNoTaint  bool      `json:"joinWithoutUnregisteredTaint"`
	Steps        []c14Step `json:"steps"`
	FaultKinds   []int     `json:"faultKinds"` // error kind per fault index (quick tier)
}

var c14Catalog = []sim.ITSpec{
	{Name: "std", Arch: "amd64", OS: []string{"linux"}, Family: "f1", Gen: "1", Capacity: map[string]string{"cpu": "4", "memory": "8Gi", "pods": "10"}, KubeReserved: map[string]string{"cpu": "100m"},
		Offerings: []sim.OfferingSpec{{Zone: "zone-a", CapacityType: "on-demand", Price: 1, Available: true}, {Zone: "zone-b", CapacityType: "spot", Price: 0.5, Available: true}}},
	{Name: "gpu", Arch: "amd64", OS: []string{"linux"}, Family: "f2", Gen: "2", Capacity: map[string]string{"cpu": "8", "memory": "16Gi", "pods": "10", gen.GPU: "2"},
		Offerings: []sim.OfferingSpec{{Zone: "zone-a", CapacityType: "on-demand", Price: 3, Available: true}}},
}

func drawC14(t *rapid.T) *c14Scenario {
	s := &c14Scenario{StartupTaint: rapid.Bool().Draw(t, "startupTaint"), PoolTaint: rapid.IntRange(0, 3).Draw(t, "poolTaint") == 0, WantGPU: rapid.IntRange(0, 2).Draw(t, "gpu") == 0,
		JoinNoTaint: rapid.IntRange(0, 5).Draw(t, "joinNoTaint") == 0}
	nOut := rapid.IntRange(1, 3).Draw(t, "nOutcomes")
	for i := 0; i < nOut; i++ {
		s.Outcomes = append(s.Outcomes, rapid.SampledFrom([]string{"ok", "ok", "ok", "ok", "ice", "ncnr", "createerr", "err", "createerr-ice", "wrapped-ice"}).Draw(t, "outcome"))
	}
	// a mostly-happy skeleton with generated perturbations
	kinds := []string{"reconcile", "reconcile", "reconcile", "stale", "join", "ready", "untaint", "gpu", "clock", "notready", "readyUnknown"}
	minSteps := rapid.IntRange(6, 16).Draw(t, "minSteps")
	s.Steps = rapid.SliceOfN(rapid.Custom(func(t *rapid.T) c14Step {
		return c14Step{Kind: rapid.SampledFrom(kinds).Draw(t, "kind"), Arg: rapid.IntRange(0, 3).Draw(t, "arg")}
	}), minSteps, 24).Draw(t, "steps")
	s.FaultKinds = rapid.SliceOfN(rapid.IntRange(0, 2), 8, 8).Draw(t, "faultKinds")
	return s
}

func c14Error(kind int, c *sim.Call) error {
	gr := schema.GroupResource{Group: "karpenter.sh", Resource: c.Kind}
	switch kind {
	case 0:
		return apierrors.NewConflict(gr, c.Key, fmt.Errorf("injected conflict"))
	case 1:
		return apierrors.NewInternalError(fmt.Errorf("injected 500"))
	default:
		return apierrors.NewNotFound(gr, c.Key)
	}
}

type c14Run struct {
	calls        int // faultable calls seen (API writes by the controller + provider calls)
	createOK     int
	violations   []ev.Violation
	faultAfterOK bool // the injected fault hit after a successful provider Create and before Launched was persisted
	outOfOrder   bool
}

// runC14 executes the scenario once, failing the faultIdx-th faultable call (0 = none).
func runC14(s *c14Scenario, faultIdx, faultKind int) *c14Run {
	r := &c14Run{}
	violate := func(sig, f string, a ...any) {
		if len(r.violations) < 5 {
			r.violations = append(r.violations, ev.Violation{Sig: sig, What: fmt.Sprintf("[fault #%d kind %d] ", faultIdx, faultKind) + fmt.Sprintf(f, a...)})
		}
	}
	w := sim.New(sim.Options{})
	w.ApplyNodeClass()
	w.Provider.Default = c14Catalog
	np := &v1.NodePool{ObjectMeta: metav1.ObjectMeta{Name: "p0", UID: "pool-uid-0"}}
	np.Spec.Template.Spec.ExpireAfter = v1.MustParseNillableDuration("Never")
	if s.StartupTaint {
		np.Spec.Template.Spec.StartupTaints = []corev1.Taint{{Key: "startup.ex.io/agent", Effect: corev1.TaintEffectNoSchedule}}
	}
	if s.PoolTaint {
		np.Spec.Template.Spec.Taints = []corev1.Taint{{Key: "dedicated", Value: "x", Effect: corev1.TaintEffectNoSchedule}}
	}
	pool := w.ApplyPool(np)
	nc := &v1.NodeClaim{
		ObjectMeta: metav1.ObjectMeta{Name: "claim-1", Labels: map[string]string{v1.NodePoolLabelKey: pool.Name, "team": "x"},
			OwnerReferences: []metav1.OwnerReference{{APIVersion: "karpenter.sh/v1", Kind: "NodePool", Name: pool.Name, UID: pool.UID, BlockOwnerDeletion: ptrTo(true)}}},
		Spec: v1.NodeClaimSpec{NodeClassRef: sim.NodeClassRef(), Taints: pool.Spec.Template.Spec.Taints, StartupTaints: pool.Spec.Template.Spec.StartupTaints,
			Requirements: []v1.NodeSelectorRequirementWithMinValues{{Key: corev1.LabelInstanceTypeStable, Operator: corev1.NodeSelectorOpIn, Values: []string{"std", "gpu"}}},
			Resources:    v1.ResourceRequirements{Requests: corev1.ResourceList{corev1.ResourceCPU: resource.MustParse("1")}}},
	}
	if s.WantGPU {
		nc.Spec.Resources.Requests[corev1.ResourceName(gen.GPU)] = resource.MustParse("1")
	}
	w.Apply(nc)
	uid := nc.UID
	// provider script
	outcomes := append([]string{}, s.Outcomes...)
	iceSeen, deletedAfterICE := false, false
	capacityErrNow := false
	inControllerCall := false
	staleRead := false
	hit := func() bool {
		if !inControllerCall {
			return false
		}
		r.calls++
		return r.calls == faultIdx
	}
	w.Provider.Hook = func(verb string, n *v1.NodeClaim, id string) error {
		if verb != "create" && verb != "delete" {
			return nil
		}
		if verb == "create" {
			// never before the termination finalizer is on the NodeClaim stored in the API
			cur := w.GetNodeClaim("claim-1")
			hasFin := false
			if cur != nil {
				for _, f := range cur.Finalizers {
					hasFin = hasFin || f == v1.TerminationFinalizer
				}
			}
			if !hasFin {
				violate("create-before-finalizer", "provider.Create called while the NodeClaim in the API has finalizers %v", finalizersOf(cur))
			}
			if deletedAfterICE && !staleRead {
				violate("create-after-capacity-error-delete", "provider.Create called again after a capacity error had already deleted the NodeClaim")
			}
		}
		if hit() {
			return fmt.Errorf("injected provider %s failure", verb)
		}
		if verb == "create" {
			out := "ok"
			if len(outcomes) > 0 {
				out, outcomes = outcomes[0], outcomes[1:]
			}
			switch out {
			case "ice":
				iceSeen = true
				capacityErrNow = true
				return cloudprovider.NewInsufficientCapacityError(fmt.Errorf("scripted ICE"))
			case "ncnr":
				iceSeen = true
				capacityErrNow = true
				return cloudprovider.NewNodeClassNotReadyError(fmt.Errorf("scripted NodeClassNotReady"))
			case "createerr-ice":
				// providers wrap what went wrong in a CreateError carrying a reason for the condition; the cause is still a
				// capacity error
				iceSeen = true
				capacityErrNow = true
				return cloudprovider.NewCreateError(fmt.Errorf("creating instance failed, %w", cloudprovider.NewInsufficientCapacityError(fmt.Errorf("scripted ICE"))), "ScriptedReason", "scripted message")
			case "wrapped-ice":
				iceSeen = true
				capacityErrNow = true
				return fmt.Errorf("launching, %w", cloudprovider.NewInsufficientCapacityError(fmt.Errorf("scripted ICE")))
			case "createerr":
				return cloudprovider.NewCreateError(fmt.Errorf("scripted create error"), "ScriptedReason", "scripted message")
			case "err":
				return fmt.Errorf("scripted generic error")
			}
		}
		return nil
	}
	// API faults on controller writes + monitors
	prevTrue := map[string]bool{}
	w.Faults = []*sim.Fault{{Match: func(c *sim.Call) bool { return inControllerCall && c.IsWrite() && hit() }, N: 1}}
	w.Faults[0].Err = fmt.Errorf("placeholder")
	check := func() {
		cur := w.GetNodeClaim("claim-1")
		if cur == nil {
			return
		}
		node := nodeForProviderID(w, cur.Status.ProviderID)
		for _, ct := range []string{v1.ConditionTypeLaunched, v1.ConditionTypeRegistered, v1.ConditionTypeInitialized} {
			isTrue := cur.StatusConditions().Get(ct).IsTrue()
			if prevTrue[ct] && !isTrue {
				sig := "condition-regressed:" + ct
				if staleRead {
					sig += ":stale-read"
				}
				violate(sig, "%s was True and is now %v", ct, cur.StatusConditions().Get(ct))
				prevTrue[ct] = false // reported once; the condition may legitimately become True again
			}
			if isTrue && !prevTrue[ct] {
				switch ct {
				case v1.ConditionTypeLaunched:
					if cur.Status.ProviderID == "" || !w.Provider.InstanceExists(cur.Status.ProviderID) {
						violate("launched-without-instance", "Launched=True with provider id %q but no such instance exists", cur.Status.ProviderID)
					}
				case v1.ConditionTypeRegistered:
					if !cur.StatusConditions().Get(v1.ConditionTypeLaunched).IsTrue() {
						violate("registered-before-launched", "Registered=True while Launched is %v", cur.StatusConditions().Get(v1.ConditionTypeLaunched))
					}
					if node == nil {
						violate("registered-without-node", "Registered=True but no Node has provider id %q", cur.Status.ProviderID)
					} else {
						if node.Labels[v1.NodeRegisteredLabelKey] != "true" {
							violate("registered-node-not-labelled", "Registered=True but the node lacks %s", v1.NodeRegisteredLabelKey)
						}
						for _, t := range node.Spec.Taints {
							if t.MatchTaint(&v1.UnregisteredNoExecuteTaint) {
								violate("registered-with-unregistered-taint", "Registered=True but the node still carries %s", v1.UnregisteredTaintKey)
							}
						}
						for k, v := range cur.Labels {
							if node.Labels[k] != v {
								violate("registered-node-not-synced", "Registered=True but node label %s=%q, NodeClaim says %q", k, node.Labels[k], v)
								break
							}
						}
						for _, t := range cur.Spec.Taints {
							found := false
							for _, nt := range node.Spec.Taints {
								found = found || nt.MatchTaint(&t)
							}
							if !found {
								violate("registered-node-not-synced", "Registered=True but the node lacks NodeClaim taint %s", t.Key)
							}
						}
						owned := false
						for _, o := range node.OwnerReferences {
							owned = owned || (o.Kind == "NodeClaim" && o.Name == cur.Name)
						}
						if !owned {
							violate("registered-node-not-synced", "Registered=True but the node is not owned by the NodeClaim")
						}
					}
				case v1.ConditionTypeInitialized:
					if !cur.StatusConditions().Get(v1.ConditionTypeRegistered).IsTrue() {
						violate("initialized-before-registered", "Initialized=True while Registered is %v", cur.StatusConditions().Get(v1.ConditionTypeRegistered))
					}
					if node == nil {
						violate("initialized-without-node", "Initialized=True but there is no node")
					} else {
						ready := false
						for _, cond := range node.Status.Conditions {
							ready = ready || (cond.Type == corev1.NodeReady && cond.Status == corev1.ConditionTrue)
						}
						if !ready {
							violate("initialized-node-not-ready", "Initialized=True but the node is not Ready")
						}
						for _, t := range node.Spec.Taints {
							for _, st := range cur.Spec.StartupTaints {
								if st.MatchTaint(&t) {
									violate("initialized-with-startup-taint", "Initialized=True but startup taint %s is still on the node", t.Key)
								}
							}
							if isEphemeralTaint(t) {
								violate("initialized-with-ephemeral-taint", "Initialized=True but ephemeral taint %s is still on the node", t.Key)
							}
						}
						for rn, q := range cur.Spec.Resources.Requests {
							if a := node.Status.Allocatable[rn]; !q.IsZero() && a.IsZero() {
								violate("initialized-resource-not-registered", "Initialized=True but requested resource %s is zero in the node's allocatable", rn)
							}
						}
					}
				}
			}
			prevTrue[ct] = prevTrue[ct] || isTrue
		}
	}
	w.After = append(w.After, func(w *sim.World, c *sim.Call) {
		if c.Kind == "NodeClaim" && c.Verb == "delete" && iceSeen {
			deletedAfterICE = true
		}
		if c.Kind == "NodeClaim" || c.Kind == "Node" {
			check()
		}
	})
	// the fault error needs the call for its text; patch it lazily
	w.Faults[0].Match = func(c *sim.Call) bool {
		if inControllerCall && c.IsWrite() && hit() {
			w.Faults[0].Err = c14Error(faultKind, c)
			return true
		}
		return false
	}

	lc := w.NewLifecycle(nil)
	var snapshots []*v1.NodeClaim
	joined, readyDone := false, false
	var nodeName string
	for _, st := range s.Steps {
		switch st.Kind {
		case "reconcile", "stale":
			cur := w.GetNodeClaim("claim-1")
			if cur == nil {
				continue
			}
			obj := cur
			staleRead = false
			if st.Kind == "stale" && len(snapshots) > 0 {
				// informer cache lag: the cache has not moved since the previous reconcile, which therefore observes the
				// same version again (a cache never goes back to a version older than one it already served)
				obj = snapshots[len(snapshots)-1].DeepCopy()
				staleRead = true
			}
			snapshots = append(snapshots, obj.DeepCopy())
			before := r.createOK
			inControllerCall = true
			capacityErrNow = false
			callsBefore := r.calls
			w.ReconcileNodeClaimObject(lc, obj)
			inControllerCall = false
			if capacityErrNow && !(faultIdx > callsBefore && faultIdx <= r.calls) {
				// a capacity error deletes the NodeClaim instead of retrying forever
				if after := w.GetNodeClaim("claim-1"); after != nil && after.DeletionTimestamp.IsZero() {
					violate("capacity-error-not-deleted", "provider.Create returned a capacity error but the NodeClaim is neither deleted nor deleting after the reconcile")
				}
			}
			r.createOK = successfulCreates(w, uid)
			if r.createOK > before && faultIdx > 0 && r.calls >= faultIdx {
				if c := w.GetNodeClaim("claim-1"); c != nil && !c.StatusConditions().Get(v1.ConditionTypeLaunched).IsTrue() {
					r.faultAfterOK = true
				}
			}
		case "join":
			cur := w.GetNodeClaim("claim-1")
			if cur == nil || cur.Status.ProviderID == "" || joined || !w.Provider.InstanceExists(cur.Status.ProviderID) {
				continue
			}
			n := w.JoinNode(cur, sim.JoinOpts{WithoutUnregisteredTaint: s.JoinNoTaint, ZeroResources: []string{gen.GPU}})
			nodeName, joined = n.Name, true
		case "ready":
			if joined {
				if !readyDone && st.Arg == 3 {
					r.outOfOrder = true
				}
				w.UpdateNode(nodeName, func(n *corev1.Node) {
					n.Status.Conditions = []corev1.NodeCondition{{Type: corev1.NodeReady, Status: corev1.ConditionTrue}}
					n.Spec.Taints = rejectTaint(n.Spec.Taints, corev1.TaintNodeNotReady)
				})
				readyDone = true
			}
		case "notready":
			if joined {
				r.outOfOrder = true
				w.UpdateNode(nodeName, func(n *corev1.Node) {
					n.Status.Conditions = []corev1.NodeCondition{{Type: corev1.NodeReady, Status: corev1.ConditionFalse}}
					n.Spec.Taints = append(rejectTaint(n.Spec.Taints, corev1.TaintNodeNotReady), corev1.Taint{Key: corev1.TaintNodeNotReady, Effect: corev1.TaintEffectNoSchedule})
				})
			}
		case "readyUnknown":
			// the kubelet stopped reporting (Ready Unknown) or has not posted a status yet (no Ready condition), and the
			// node lifecycle controller has not (re-)applied its taints: the conditions alone say "not Ready"
			if joined {
				r.outOfOrder = true
				w.UpdateNode(nodeName, func(n *corev1.Node) {
					n.Status.Conditions = nil
					if st.Arg%2 == 0 {
						n.Status.Conditions = []corev1.NodeCondition{{Type: corev1.NodeReady, Status: corev1.ConditionUnknown}}
					}
					n.Spec.Taints = rejectTaint(n.Spec.Taints, corev1.TaintNodeNotReady)
				})
			}
		case "untaint":
			if joined {
				w.UpdateNode(nodeName, func(n *corev1.Node) { n.Spec.Taints = rejectTaint(n.Spec.Taints, "startup.ex.io/agent") })
			}
		case "gpu":
			if joined {
				w.UpdateNode(nodeName, func(n *corev1.Node) {
					if cur := w.GetNodeClaim("claim-1"); cur != nil {
						if inst := w.Provider.Instances[cur.Status.ProviderID]; inst != nil {
							n.Status.Capacity = inst.Option.Type.CapacityOf(inst.Option.Offering)
							n.Status.Allocatable = inst.Option.Type.Allocatable(inst.Option.Offering)
						}
					}
				})
			}
		case "clock":
			w.Clock.Step([]time.Duration{10 * time.Second, 2 * time.Minute, 6 * time.Minute, 16 * time.Minute}[st.Arg%4])
		}
		check()
	}
	r.createOK = successfulCreates(w, uid)
	if r.createOK > 1 {
		violate("double-launch", "provider.Create succeeded %d times for one NodeClaim while the controller kept running: %v", r.createOK, providerIDs(w, uid))
	}
	return r
}

func ptrTo[T any](v T) *T { return &v }

func finalizersOf(nc *v1.NodeClaim) []string {
	if nc == nil {
		return nil
	}
	return nc.Finalizers
}

func rejectTaint(ts []corev1.Taint, key string) []corev1.Taint {
	var out []corev1.Taint
	for _, t := range ts {
		if t.Key != key {
			out = append(out, t)
		}
	}
	return out
}

func successfulCreates(w *sim.World, uid types.UID) int {
	n := 0
	for _, c := range w.Provider.CallsSnapshot() {
		if c.Verb == "create" && c.Err == "" && c.UID == uid {
			n++
		}
	}
	return n
}

func providerIDs(w *sim.World, uid types.UID) []string {
	var out []string
	for _, i := range w.Provider.InstancesFor(uid) {
		out = append(out, i.ProviderID)
	}
	return out
}

func nodeForProviderID(w *sim.World, id string) *corev1.Node {
	if id == "" {
		return nil
	}
	for _, n := range w.ListNodes() {
		if n.Spec.ProviderID == id {
			n := n
			return &n
		}
	}
	return nil
}

func execC14(s *c14Scenario, c *ev.Ctx) {
	base := runC14(s, 0, 0)
	for _, v := range base.violations {
		c.Violate(v.Sig, "%s", v.What)
	}
	executions := 1
	nt := base.outOfOrder
	kindsPer := 1
	if os.Getenv("VERIF_TIER") == "thorough" {
		kindsPer = 3
	}
	for i := 1; i <= base.calls && len(c.Violations()) == 0; i++ {
		for k := 0; k < kindsPer; k++ {
			kind := (s.FaultKinds[i%len(s.FaultKinds)] + k) % 3
			r := runC14(s, i, kind)
			executions++
			nt = nt || r.faultAfterOK
			for _, v := range r.violations {
				c.Violate(v.Sig, "%s", v.What)
			}
		}
	}
	c.Add("executions", executions)
	c.Add("fault_points", base.calls)
	c.ClassIf(base.createOK > 0, "launched")
	c.ClassIf(nt, "fault_between_create_and_persist_or_out_of_order")
	c.NTIf(nt)
	c.Sample(map[string]any{"outcomes": s.Outcomes, "steps": len(s.Steps), "fault_points": base.calls, "executions": executions})
}

var propC14 = ev.Prop[c14Scenario]{
	ID: "C14", Test: "TestC14", Level: "fault_enumeration",
	Rule: "rapid draws a NodeClaim (startup / template taints, GPU request), a provider script (ok | ICE | NodeClassNotReady | CreateError | generic), and 6-24 steps from {lifecycle reconcile, reconcile of a STALE copy, node joins (with/without the unregistered taint, GPU unreported), Ready, NotReady, Ready Unknown / not reported without a not-ready taint, startup taint removed, GPU reported, clock +10s/2m/6m/16m}; a fault-free run counts the API writes and provider calls the real lifecycle controller makes, then EVERY such call index is failed once (quick: one drawn error kind of conflict/500/not-found, thorough: all three); " +
		"oracle (monitors evaluated after every write): successful provider.Create per NodeClaim <= 1, never before the finalizer is stored, never again after a capacity error deleted the claim; Launched/Registered/Initialized turn True only when instance exists / node present, labelled registered, synced, unregistered taint gone / node Ready, startup + ephemeral taints gone, requested extended resources non-zero, and in that order; a True condition never regresses; " +
		"non-trivial = a fault landed after a successful Create and before Launched was persisted, or node events arrived out of the happy order; evaluations counted as scenarios, executions (scenario x fault) in counters",
	Assumptions: []string{"one controller instance per scenario (the launch cache is in-memory by design)", "a stale read observes the same version as the previous reconcile (caches never go backwards)"},
	Draw:        drawC14, Exec: execC14, ReplayTries: 3,
}

func TestC14(t *testing.T) { ev.Run(t, propC14) }
