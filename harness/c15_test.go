package harness

import (
	"encoding/json"
	"fmt"
	"sort"
	"testing"
	"time"

	corev1 "k8s.io/api/core/v1"
	"k8s.io/apimachinery/pkg/api/resource"
	metav1 "k8s.io/apimachinery/pkg/apis/meta/v1"
	"pgregory.net/rapid"

	v1 "sigs.k8s.io/karpenter/pkg/apis/v1"

	"verif/harness/ev"
)

// C15a: NodePool template hash: stable under reordering and non-drifting edits, sensitive to every other template field.

type taintSpec struct {
	Key    string `json:"key"`
	Value  string `json:"value,omitempty"`
	Effect string `json:"effect"`
}

type tmplSpec struct {
	Labels        map[string]string `json:"labels,omitempty"`
	Annotations   map[string]string `json:"annotations,omitempty"`
	Taints        []taintSpec       `json:"taints,omitempty"`
	StartupTaints []taintSpec       `json:"startupTaints,omitempty"`
	ClassGroup    string            `json:"classGroup"`
	ClassKind     string            `json:"classKind"`
	ClassName     string            `json:"className"`
	TGP           *string           `json:"tgp,omitempty"` // duration string, nil = unset
	ExpireAfter   string            `json:"expireAfter"`   // duration string or "Never"
}

type c15Edit struct {
	Field string `json:"field"`
	Op    string `json:"op"` // add | remove | change
	Idx   int    `json:"idx"`
	Key   string `json:"key,omitempty"`
	Val   string `json:"val,omitempty"`
}

type c15aScenario struct {
	Tmpl tmplSpec `json:"template"`
	Edit c15Edit  `json:"edit"`
	// non-drifting knobs, before and after
	WeightA, WeightB *int32 `json:"-"`
	NonDrift         struct {
		Weight       [2]int    `json:"weight"`
		Replicas     [2]int    `json:"replicas"`
		LimitCPU     [2]string `json:"limitCPU"`
		Policy       [2]string `json:"policy"`
		After        [2]string `json:"consolidateAfter"`
		BudgetNodes  [2]string `json:"budgetNodes"`
		ReqZoneA     []string  `json:"reqZoneA"`
		ReqZoneB     []string  `json:"reqZoneB"`
		ReqMinValues [2]int    `json:"reqMinValues"`
	} `json:"nonDrifting"`
}

var (
	c15Keys     = []string{"team", "ex.io/tier", "env", "a.b/c"}
	c15Vals     = []string{"", "x", "y", "1", "true"}
	c15Effects  = []string{"NoSchedule", "NoExecute", "PreferNoSchedule"}
	c15Durs     = []string{"0s", "30s", "5m", "1h", "720h"}
	c15Policies = []string{"WhenEmpty", "WhenEmptyOrUnderutilized", "Balanced"}
)

func genTaints(t *rapid.T, label string, used map[string]bool) []taintSpec {
	n := rapid.IntRange(0, 3).Draw(t, label+"_n")
	var out []taintSpec
	for i := 0; i < n; i++ {
		ts := taintSpec{Key: rapid.SampledFrom(c15Keys).Draw(t, fmt.Sprintf("%s_k%d", label, i)), Value: rapid.SampledFrom(c15Vals).Draw(t, fmt.Sprintf("%s_v%d", label, i)), Effect: rapid.SampledFrom(c15Effects).Draw(t, fmt.Sprintf("%s_e%d", label, i))}
		if used[ts.Key+"/"+ts.Effect] { // validation rejects duplicate key/effect pairs across taints and startupTaints
			continue
		}
		used[ts.Key+"/"+ts.Effect] = true
		out = append(out, ts)
	}
	return out
}

func genStrMap(t *rapid.T, label string) map[string]string {
	n := rapid.IntRange(0, 3).Draw(t, label+"_n")
	if n == 0 {
		return nil
	}
	m := map[string]string{}
	for i := 0; i < n; i++ {
		m[rapid.SampledFrom(c15Keys).Draw(t, fmt.Sprintf("%s_k%d", label, i))] = rapid.SampledFrom(c15Vals).Draw(t, fmt.Sprintf("%s_v%d", label, i))
	}
	return m
}

func genTmpl(t *rapid.T) tmplSpec {
	used := map[string]bool{}
	s := tmplSpec{
		Labels: genStrMap(t, "labels"), Annotations: genStrMap(t, "annotations"),
		Taints: genTaints(t, "taints", used), StartupTaints: genTaints(t, "startup", used),
		ClassGroup: rapid.SampledFrom([]string{"karpenter.test.sh", "other.sh"}).Draw(t, "group"),
		ClassKind:  rapid.SampledFrom([]string{"TestNodeClass", "OtherClass"}).Draw(t, "kind"),
		ClassName:  rapid.SampledFrom([]string{"default", "gpu"}).Draw(t, "name"),
	}
	if rapid.Bool().Draw(t, "hasTGP") {
		v := rapid.SampledFrom(c15Durs).Draw(t, "tgp")
		s.TGP = &v
	}
	s.ExpireAfter = rapid.SampledFrom(append([]string{"Never"}, c15Durs...)).Draw(t, "expireAfter")
	return s
}

func drawC15a(t *rapid.T) *c15aScenario {
	s := &c15aScenario{Tmpl: genTmpl(t)}
	fields := []string{"labels", "annotations", "taints", "startupTaints", "classGroup", "classKind", "className", "tgp", "expireAfter"}
	s.Edit = c15Edit{
		Field: rapid.SampledFrom(fields).Draw(t, "editField"),
		Op:    rapid.SampledFrom([]string{"add", "remove", "change"}).Draw(t, "editOp"),
		Idx:   rapid.IntRange(0, 5).Draw(t, "editIdx"),
		Key:   rapid.SampledFrom(c15Keys).Draw(t, "editKey"),
		Val:   rapid.SampledFrom(append(append([]string{}, c15Vals...), c15Durs...)).Draw(t, "editVal"),
	}
	nd := &s.NonDrift
	for i := 0; i < 2; i++ {
		nd.Weight[i] = rapid.IntRange(0, 100).Draw(t, "weight")
		nd.Replicas[i] = rapid.IntRange(-1, 5).Draw(t, "replicas")
		nd.LimitCPU[i] = rapid.SampledFrom([]string{"", "10", "100", "0"}).Draw(t, "limit")
		nd.Policy[i] = rapid.SampledFrom(c15Policies).Draw(t, "policy")
		nd.After[i] = rapid.SampledFrom([]string{"Never", "0s", "30s", "5m"}).Draw(t, "after")
		nd.BudgetNodes[i] = rapid.SampledFrom([]string{"10%", "0", "3", "100%"}).Draw(t, "budget")
		nd.ReqMinValues[i] = rapid.IntRange(0, 2).Draw(t, "minValues")
	}
	nd.ReqZoneA = rapid.SliceOfNDistinct(rapid.SampledFrom([]string{"zone-a", "zone-b", "zone-c"}), 1, 3, rapid.ID[string]).Draw(t, "zonesA")
	nd.ReqZoneB = rapid.SliceOfNDistinct(rapid.SampledFrom([]string{"zone-a", "zone-b", "zone-c"}), 1, 3, rapid.ID[string]).Draw(t, "zonesB")
	return s
}

func toTaints(ts []taintSpec) []corev1.Taint {
	var out []corev1.Taint
	for _, t := range ts {
		out = append(out, corev1.Taint{Key: t.Key, Value: t.Value, Effect: corev1.TaintEffect(t.Effect)})
	}
	return out
}

func cloneMap(m map[string]string) map[string]string {
	if m == nil {
		return nil
	}
	out := map[string]string{}
	for k, v := range m {
		out[k] = v
	}
	return out
}

func buildPool(ts tmplSpec, s *c15aScenario, side int) *v1.NodePool {
	np := &v1.NodePool{ObjectMeta: metav1.ObjectMeta{Name: "pool"}}
	np.Spec.Template.Labels = cloneMap(ts.Labels)
	np.Spec.Template.Annotations = cloneMap(ts.Annotations)
	np.Spec.Template.Spec.Taints = toTaints(ts.Taints)
	np.Spec.Template.Spec.StartupTaints = toTaints(ts.StartupTaints)
	np.Spec.Template.Spec.NodeClassRef = &v1.NodeClassReference{Group: ts.ClassGroup, Kind: ts.ClassKind, Name: ts.ClassName}
	if ts.TGP != nil {
		d, _ := time.ParseDuration(*ts.TGP)
		np.Spec.Template.Spec.TerminationGracePeriod = &metav1.Duration{Duration: d}
	}
	np.Spec.Template.Spec.ExpireAfter = v1.MustParseNillableDuration(ts.ExpireAfter)
	nd := s.NonDrift
	zones := nd.ReqZoneA
	if side == 1 {
		zones = nd.ReqZoneB
	}
	req := v1.NodeSelectorRequirementWithMinValues{Key: corev1.LabelTopologyZone, Operator: corev1.NodeSelectorOpIn, Values: zones}
	if nd.ReqMinValues[side] > 0 {
		mv := nd.ReqMinValues[side]
		req.MinValues = &mv
	}
	np.Spec.Template.Spec.Requirements = []v1.NodeSelectorRequirementWithMinValues{req}
	w := int32(nd.Weight[side])
	np.Spec.Weight = &w
	if nd.Replicas[side] >= 0 {
		r := int64(nd.Replicas[side])
		np.Spec.Replicas = &r
	}
	if nd.LimitCPU[side] != "" {
		np.Spec.Limits = v1.Limits{corev1.ResourceCPU: resource.MustParse(nd.LimitCPU[side])}
	}
	np.Spec.Disruption.ConsolidationPolicy = v1.ConsolidationPolicy(nd.Policy[side])
	np.Spec.Disruption.ConsolidateAfter = v1.MustParseNillableDuration(nd.After[side])
	np.Spec.Disruption.Budgets = []v1.Budget{{Nodes: nd.BudgetNodes[side]}}
	return np
}

func canonTmpl(ts tmplSpec) string {
	// canonical form where order does not matter
	c := ts
	c.Taints = append([]taintSpec{}, ts.Taints...)
	c.StartupTaints = append([]taintSpec{}, ts.StartupTaints...)
	less := func(x []taintSpec) func(i, j int) bool {
		return func(i, j int) bool { return fmt.Sprint(x[i]) < fmt.Sprint(x[j]) }
	}
	sort.Slice(c.Taints, less(c.Taints))
	sort.Slice(c.StartupTaints, less(c.StartupTaints))
	if len(c.Labels) == 0 {
		c.Labels = nil
	}
	if len(c.Annotations) == 0 {
		c.Annotations = nil
	}
	b, _ := json.Marshal(c)
	return string(b)
}

// applyEdit returns the edited template, whether it is a real change, and whether the only difference is "unset vs zero".
func applyEdit(ts tmplSpec, e c15Edit) (tmplSpec, bool, bool) {
	out := ts
	out.Labels, out.Annotations = cloneMap(ts.Labels), cloneMap(ts.Annotations)
	out.Taints, out.StartupTaints = append([]taintSpec{}, ts.Taints...), append([]taintSpec{}, ts.StartupTaints...)
	zeroVsNil := false
	editMap := func(m map[string]string) map[string]string {
		keys := make([]string, 0, len(m))
		for k := range m {
			keys = append(keys, k)
		}
		sort.Strings(keys)
		switch {
		case e.Op == "add" || len(keys) == 0:
			if m == nil {
				m = map[string]string{}
			}
			m[e.Key] = e.Val
		case e.Op == "remove":
			delete(m, keys[e.Idx%len(keys)])
		default:
			m[keys[e.Idx%len(keys)]] = e.Val
		}
		return m
	}
	editTaints := func(x []taintSpec) []taintSpec {
		switch {
		case e.Op == "add" || len(x) == 0:
			return append(x, taintSpec{Key: "added.io/" + e.Key[:1], Value: e.Val, Effect: c15Effects[e.Idx%3]})
		case e.Op == "remove":
			i := e.Idx % len(x)
			return append(x[:i:i], x[i+1:]...)
		default:
			i := e.Idx % len(x)
			if e.Idx%2 == 0 {
				x[i].Value = e.Val
			} else {
				x[i].Effect = c15Effects[(indexOf(c15Effects, x[i].Effect)+1)%3]
			}
			return x
		}
	}
	switch e.Field {
	case "labels":
		out.Labels = editMap(out.Labels)
	case "annotations":
		out.Annotations = editMap(out.Annotations)
	case "taints":
		out.Taints = editTaints(out.Taints)
	case "startupTaints":
		out.StartupTaints = editTaints(out.StartupTaints)
	case "classGroup":
		out.ClassGroup = ts.ClassGroup + "x"
	case "classKind":
		out.ClassKind = ts.ClassKind + "X"
	case "className":
		out.ClassName = ts.ClassName + "-2"
	case "tgp":
		if ts.TGP == nil || e.Op == "add" {
			v := c15Durs[e.Idx%len(c15Durs)]
			out.TGP = &v
		} else if e.Op == "remove" {
			out.TGP = nil
		} else {
			v := c15Durs[(indexOf(c15Durs, *ts.TGP)+1+e.Idx%(len(c15Durs)-1))%len(c15Durs)]
			out.TGP = &v
		}
		a, b := "", ""
		if ts.TGP != nil {
			a = *ts.TGP
		}
		if out.TGP != nil {
			b = *out.TGP
		}
		zeroVsNil = (ts.TGP == nil && b == "0s") || (out.TGP == nil && a == "0s")
	case "expireAfter":
		all := append([]string{"Never"}, c15Durs...)
		out.ExpireAfter = all[(indexOf(all, ts.ExpireAfter)+1+e.Idx%(len(all)-1))%len(all)]
		zeroVsNil = (ts.ExpireAfter == "Never" && out.ExpireAfter == "0s") || (ts.ExpireAfter == "0s" && out.ExpireAfter == "Never")
	}
	return out, canonTmpl(out) != canonTmpl(ts), zeroVsNil
}

func indexOf(xs []string, v string) int {
	for i, x := range xs {
		if x == v {
			return i
		}
	}
	return 0
}

func execC15a(s *c15aScenario, c *ev.Ctx) {
	a := buildPool(s.Tmpl, s, 0)
	h0 := a.Hash()
	if a.Hash() != h0 {
		c.Violate("hash:nondeterministic", "Hash() differs between two calls")
	}
	// (i) reordering + non-drifting edits
	perm := s.Tmpl
	perm.Taints = reverseTaints(s.Tmpl.Taints)
	perm.StartupTaints = reverseTaints(s.Tmpl.StartupTaints)
	b := buildPool(perm, s, 1)
	if hb := b.Hash(); hb != h0 {
		c.Violate("hash:nondrifting-edit-changes-hash", "hash changed from %s to %s after reordering lists and editing only weight/replicas/limits/consolidation/budgets/requirements (%+v)", h0, hb, s.NonDrift)
	}
	// the hash of the object as read back from the API (JSON round trip) is the same
	raw, _ := json.Marshal(a)
	rt := &v1.NodePool{}
	if err := json.Unmarshal(raw, rt); err == nil {
		if hr := rt.Hash(); hr != h0 {
			c.Violate("hash:json-roundtrip", "hash %s became %s after a JSON round trip of the NodePool", h0, hr)
		}
	}
	// (ii) a drifting edit
	edited, changed, zeroVsNil := applyEdit(s.Tmpl, s.Edit)
	c.Class("edit:" + s.Edit.Field)
	c.ClassIf(!changed, "edit_noop")
	nested := s.Edit.Field == "taints" || s.Edit.Field == "startupTaints" || s.Edit.Field == "labels" || s.Edit.Field == "annotations"
	multi := len(s.Tmpl.Taints)+len(s.Tmpl.StartupTaints) >= 2 || len(s.Tmpl.Labels) >= 2
	c.NTIf(changed && (nested || multi))
	if changed {
		e := buildPool(edited, s, 0)
		if he := e.Hash(); he == h0 {
			sig := "hash:edit-not-detected:" + s.Edit.Field
			if zeroVsNil {
				sig = "hash:zero-duration-hashes-like-unset:" + s.Edit.Field
			}
			c.Violate(sig, "template edit %+v (%s -> %s) left the hash unchanged (%s)", s.Edit, canonTmpl(s.Tmpl), canonTmpl(edited), h0)
		}
	} else {
		e := buildPool(edited, s, 0)
		if he := e.Hash(); he != h0 {
			c.Violate("hash:noop-edit-changes-hash", "template no-op edit %+v changed the hash", s.Edit)
		}
	}
	c.Sample(map[string]any{"template": json.RawMessage(canonTmpl(s.Tmpl)), "edit": s.Edit, "changed": changed})
}

func reverseTaints(x []taintSpec) []taintSpec {
	out := make([]taintSpec, 0, len(x))
	for i := len(x) - 1; i >= 0; i-- {
		out = append(out, x[i])
	}
	return out
}

var propC15a = ev.Prop[c15aScenario]{
	ID: "C15", Test: "TestC15a",
	Rule: "rapid draws a NodePool template (labels, annotations, taints, startupTaints, nodeClassRef, terminationGracePeriod, expireAfter) plus two settings of the non-drifting fields and one edit (add/remove/change on one template field); " +
		"oracle: hash equal after list reversal + non-drifting edits + JSON round trip, different after any edit that changes the canonical template; " +
		"non-trivial = a real edit touching a nested field (map/list element) or a template with >=2 list/map elements",
	Assumptions: []string{"taint key/effect pairs are unique across taints and startupTaints (validation rule)"},
	Draw:        drawC15a, Exec: execC15a,
}

func TestC15a(t *testing.T) { ev.Run(t, propC15a) }
