package harness

import (
	"fmt"
	"sort"
	"testing"

	corev1 "k8s.io/api/core/v1"
	"k8s.io/apimachinery/pkg/api/resource"
	"k8s.io/apimachinery/pkg/types"
	"pgregory.net/rapid"

	v1 "sigs.k8s.io/karpenter/pkg/apis/v1"
	ncdisruption "sigs.k8s.io/karpenter/pkg/controllers/nodeclaim/disruption"

	"verif/harness/ev"
	"verif/harness/gen"
	"verif/harness/ref"
	"verif/harness/sim"
)

// C15b: drift detection end to end - a NodeClaim the scheduler produced and the provider launched as ANY permitted option
// is not Drifted; it becomes Drifted exactly when its labels stop satisfying the NodePool's requirements or the template
// hash differs under the same hash version.

type c15bScenario struct {
	World   *gen.SchedWorld `json:"world"`
	Choices []int           `json:"choices"`
	Edits   []string        `json:"edits"` // one edit kind per created NodeClaim (cycled)
	// PreEdit: per pool (cycled) - the template was edited after the hash controller last stamped the pool, and the
	// provisioning pass runs before the hash controller catches up
	PreEdit []bool `json:"preEdit"`
}

var c15bEdits = []string{"excludeZone", "excludeType", "otherCT", "absentIn", "absentWellKnown", "absentExists", "absentGt", "absentLt", "keepZone", "absentNotIn", "absentDoesNotExist", "templateLabel", "templateTaint", "weightAndLimits", "none", "hashVersion"}

func drawC15b(t *rapid.T) *c15bScenario {
	k := gen.DefaultKnobs()
	k.InterPod, k.NoPrefs, k.NoLimits, k.NoMinValues = 0, true, true, true
	k.MaxNodes, k.MaxPending = 1, 6
	k.EasyPods, k.FriendlyPools = true, true
	k.CustomKeyHeavy = true
	s := &c15bScenario{World: gen.World(t, k)}
	s.World.Options.ReservedCapacity = false
	s.Choices = rapid.SliceOfN(rapid.IntRange(0, 11), 4, 4).Draw(t, "choices")
	s.Edits = rapid.SliceOfN(rapid.SampledFrom(c15bEdits), 4, 4).Draw(t, "edits")
	s.PreEdit = rapid.SliceOfN(rapid.Bool(), 3, 3).Draw(t, "preEdit")
	return s
}

// labelsSatisfy: every requirement key admits the label's value (or its absence) - independent set semantics.
func labelsSatisfy(reqs []v1.NodeSelectorRequirementWithMinValues, labels map[string]string) (bool, string) {
	byKey := map[string][]ref.Prim{}
	for _, r := range reqs {
		byKey[r.Key] = append(byKey[r.Key], ref.Prim{Op: string(r.Operator), Values: r.Values})
	}
	keys := make([]string, 0, len(byKey))
	for k := range byKey {
		keys = append(keys, k)
	}
	sort.Strings(keys)
	for _, k := range keys {
		set := ref.FromPrims(byKey[k])
		if v, ok := labels[k]; ok {
			if !set.Has(v) {
				return false, fmt.Sprintf("%s=%s not admitted by %v", k, v, byKey[k])
			}
		} else if !set.Absent {
			return false, fmt.Sprintf("label %s is absent but %v needs it", k, byKey[k])
		}
	}
	return true, ""
}

func execC15b(s *c15bScenario, c *ev.Ctx) {
	b := build(s.World, c)
	w := b.W
	launchIdx := 0
	w.Provider.Choose = func(nc *v1.NodeClaim, opts []sim.LaunchOption) int {
		ch := s.Choices[launchIdx%len(s.Choices)]
		launchIdx++
		return ch % len(opts)
	}
	// the NodePool hash controller: every pool carries its hash + version
	stamp := func(np *v1.NodePool) {
		if np.Annotations == nil {
			np.Annotations = map[string]string{}
		}
		np.Annotations[v1.NodePoolHashAnnotationKey] = np.Hash()
		np.Annotations[v1.NodePoolHashVersionAnnotationKey] = v1.NodePoolHashVersion
	}
	for _, np := range b.Pools {
		stamp(np)
		w.Apply(np)
	}
	// a template edit lands between the hash controller's last reconcile and the provisioning pass
	poolNames := make([]string, 0, len(b.Pools))
	for n := range b.Pools {
		poolNames = append(poolNames, n)
	}
	sort.Strings(poolNames)
	for i, n := range poolNames {
		if len(s.PreEdit) > 0 && s.PreEdit[i%len(s.PreEdit)] {
			np := b.Pools[n]
			if np.Spec.Template.Labels == nil {
				np.Spec.Template.Labels = map[string]string{}
			}
			np.Spec.Template.Labels["ex.io/pre-edited"] = "yes"
			w.Apply(np) // annotation still holds the old hash
			c.Class("template_edited_before_hash_controller_ran")
		}
	}
	w.Sync()
	res, err := b.Provisioner.Schedule(w.Ctx)
	if err != nil {
		c.Class("schedule_error")
		return
	}
	names, _ := b.Provisioner.CreateNodeClaims(w.Ctx, res.NewNodeClaims)
	// the hash controller catches up
	for _, n := range poolNames {
		np := &v1.NodePool{}
		w.Quiet(func() { _ = w.Client.Get(w.Ctx, clientKey(n), np) })
		stamp(np)
		w.Apply(np)
		b.Pools[n] = np
	}
	lc := w.NewLifecycle(nil)
	ncd := ncdisruption.NewController(w.Clock, w.Client, w.Provider)
	drifted := func(name string) (bool, string) {
		nc := w.GetNodeClaim(name)
		if nc == nil {
			return false, ""
		}
		w.Quiet(func() { _, _ = ncd.Reconcile(w.Ctx, nc) })
		nc = w.GetNodeClaim(name)
		cond := nc.StatusConditions().Get(v1.ConditionTypeDrifted)
		if cond == nil {
			return false, ""
		}
		return cond.IsTrue(), cond.Reason
	}
	launched, judgedEdits := 0, 0
	for i, name := range names {
		if name == "" {
			continue
		}
		w.ReconcileNodeClaim(lc, name)
		nc := w.GetNodeClaim(name)
		if nc == nil || nc.Status.ProviderID == "" || nc.DeletionTimestamp != nil {
			c.Class("launch_failed")
			continue
		}
		launched++
		pool := b.Pools[nc.Labels[v1.NodePoolLabelKey]]
		if pool == nil {
			continue
		}
		// ---- a fresh NodeClaim is not drifted, whatever the provider launched
		if d, reason := drifted(name); d {
			sat, why := labelsSatisfy(pool.Spec.Template.Spec.Requirements, nc.Labels)
			sig := "fresh-claim-drifted:" + reason
			if sat {
				sig += ":labels-satisfy-requirements"
			}
			c.Violate(sig, "NodeClaim %s of pool %s, freshly created and launched as %s/%s/%s, is reported Drifted (%s); %s; requirements %v; labels %v", name, pool.Name,
				nc.Labels[corev1.LabelInstanceTypeStable], nc.Labels[corev1.LabelTopologyZone], nc.Labels[v1.CapacityTypeLabelKey], reason, why, pool.Spec.Template.Spec.Requirements, nc.Labels)
			continue
		}
		// the scheduler's own product must satisfy the pool it was made from; when it does not, Karpenter read a
		// requirement that needs the label present (e.g. NotIn[3 4] with Lt 6) as a plain NotIn - the presence-loss
		// defect recorded under C12 - and every later drift verdict for this claim inherits it
		if sat, why := labelsSatisfy(pool.Spec.Template.Spec.Requirements, nc.Labels); !sat {
			c.Violate("fresh-claim-labels-outside-requirements:presence-lost", "NodeClaim %s of pool %s was created with labels that do not satisfy the pool's requirements (%s) and is not reported Drifted; labels %v", name, pool.Name, why, nc.Labels)
			continue
		}
		// ---- an edit of the pool
		edit := s.Edits[i%len(s.Edits)]
		c.Class("edit:" + edit)
		np := &v1.NodePool{}
		w.Quiet(func() { _ = w.Client.Get(w.Ctx, clientKey(pool.Name), np) })
		add := func(key string, op corev1.NodeSelectorOperator, vals ...string) {
			np.Spec.Template.Spec.Requirements = append(np.Spec.Template.Spec.Requirements, v1.NodeSelectorRequirementWithMinValues{Key: key, Operator: op, Values: vals})
		}
		expectHash := false
		switch edit {
		case "excludeZone":
			add(corev1.LabelTopologyZone, corev1.NodeSelectorOpNotIn, nc.Labels[corev1.LabelTopologyZone])
		case "excludeType":
			add(corev1.LabelInstanceTypeStable, corev1.NodeSelectorOpNotIn, nc.Labels[corev1.LabelInstanceTypeStable])
		case "otherCT":
			other := v1.CapacityTypeSpot
			if nc.Labels[v1.CapacityTypeLabelKey] == v1.CapacityTypeSpot {
				other = v1.CapacityTypeOnDemand
			}
			add(v1.CapacityTypeLabelKey, corev1.NodeSelectorOpIn, other)
		case "absentIn":
			add("ex.io/added", corev1.NodeSelectorOpIn, "v1", "v2")
		case "absentWellKnown":
			add(corev1.LabelWindowsBuild, corev1.NodeSelectorOpIn, "10.0.17763")
		case "absentExists":
			add("ex.io/added", corev1.NodeSelectorOpExists)
		case "absentGt":
			add("ex.io/added-num", corev1.NodeSelectorOpGt, "1")
		case "absentLt":
			add("ex.io/added-num", corev1.NodeSelectorOpLt, "9")
		case "keepZone":
			add(corev1.LabelTopologyZone, corev1.NodeSelectorOpIn, nc.Labels[corev1.LabelTopologyZone], "zone-elsewhere")
		case "absentNotIn":
			add("ex.io/added", corev1.NodeSelectorOpNotIn, "v1")
		case "absentDoesNotExist":
			add("ex.io/added", corev1.NodeSelectorOpDoesNotExist)
		case "templateLabel":
			if np.Spec.Template.Labels == nil {
				np.Spec.Template.Labels = map[string]string{}
			}
			np.Spec.Template.Labels["ex.io/edited"] = "yes"
			expectHash = true
		case "templateTaint":
			np.Spec.Template.Spec.Taints = append(np.Spec.Template.Spec.Taints, corev1.Taint{Key: "ex.io/edited", Effect: corev1.TaintEffectNoSchedule})
			expectHash = true
		case "weightAndLimits":
			wgt := int32(77)
			np.Spec.Weight = &wgt
			np.Spec.Limits = v1.Limits{corev1.ResourceCPU: resource.MustParse("1000")}
			np.Spec.Disruption.Budgets = []v1.Budget{{Nodes: "3"}}
		case "hashVersion":
			// a template change recorded under a NEWER hash version must not be read as drift
			if np.Spec.Template.Labels == nil {
				np.Spec.Template.Labels = map[string]string{}
			}
			np.Spec.Template.Labels["ex.io/edited"] = "yes"
		}
		stamp(np)
		if edit == "hashVersion" {
			np.Annotations[v1.NodePoolHashVersionAnnotationKey] = v1.NodePoolHashVersion + "-next"
		}
		w.Apply(np)
		b.Pools[np.Name] = np
		sat, why := labelsSatisfy(np.Spec.Template.Spec.Requirements, nc.Labels)
		want := !sat || expectHash
		got, reason := drifted(name)
		judgedEdits++
		switch {
		case want && !got:
			c.Violate("drift-missed:"+edit, "after edit %q of pool %s NodeClaim %s must be Drifted (%s; template hash changed: %v) but is not; labels %v", edit, np.Name, name, why, expectHash, nc.Labels)
		case !want && got:
			c.Violate("drift-false-positive:"+edit, "after edit %q of pool %s NodeClaim %s is reported Drifted (%s) although its labels satisfy the requirements and the template hash is unchanged under this hash version", edit, np.Name, name, reason)
		}
		// later NodeClaims of the same pool are judged against the edited pool: restore it
		w.Apply(poolWithHash(pool, stamp))
		b.Pools[pool.Name] = pool
	}
	c.Add("launched", launched)
	c.Add("edits_judged", judgedEdits)
	c.NTIf(judgedEdits > 0)
	c.Sample(map[string]any{"claims": len(names), "launched": launched, "edits": s.Edits})
}

func poolWithHash(np *v1.NodePool, stamp func(*v1.NodePool)) *v1.NodePool {
	out := np.DeepCopy()
	stamp(out)
	return out
}

var propC15b = ev.Prop[c15bScenario]{
	ID: "C15", Test: "TestC15b",
	Rule: "rapid draws a scheduler world (pools with many operators on well-known and user-defined keys, template labels, taints) and pending pods; for some pools the template is edited after the (emulated) hash controller stamped them and before the pass, the hash controller catching up afterwards; the REAL Provisioner.Schedule + CreateNodeClaims run, every NodeClaim is launched by the REAL lifecycle controller as a generated permitted (type, offering); the REAL nodeclaim.disruption controller then decides Drifted; then one edit per NodeClaim is applied to its pool (NotIn the claim's zone / type, the other capacity type, In / Exists / Gt / Lt on a user-defined or well-known key the claim lacks, a requirement it still satisfies, NotIn / DoesNotExist on an absent key, template label / taint with the hash annotation refreshed, weight + limits + budgets, a template change under a newer hash version) and drift is decided again; " +
		"oracle: a fresh NodeClaim is never Drifted; after the edit it is Drifted iff an independent set-semantics evaluation says its labels no longer satisfy the pool's requirements (a required label being absent counts) or the template hash changed under the same hash version; " +
		"non-trivial = at least one edit was judged on a launched NodeClaim",
	Assumptions: []string{"the NodePool hash controller is emulated by stamping NodePool.Hash() and the hash version on the pool", "instance-type-not-found drift (only evaluated for claims older than 1 h) and provider drift are out of scope"},
	Draw:        drawC15b, Exec: execC15b, ReplayTries: 3,
}

func TestC15b(t *testing.T) { ev.Run(t, propC15b) }

func clientKey(name string) types.NamespacedName { return types.NamespacedName{Name: name} }
