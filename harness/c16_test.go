package harness

import (
	"fmt"
	"strings"
	"testing"
	"time"

	corev1 "k8s.io/api/core/v1"
	apierrors "k8s.io/apimachinery/pkg/api/errors"
	metav1 "k8s.io/apimachinery/pkg/apis/meta/v1"
	"pgregory.net/rapid"
	"sigs.k8s.io/controller-runtime/pkg/client"

	v1 "sigs.k8s.io/karpenter/pkg/apis/v1"
	"sigs.k8s.io/karpenter/pkg/cloudprovider"
	"sigs.k8s.io/karpenter/pkg/controllers/node/health"
	"sigs.k8s.io/karpenter/pkg/controllers/nodeclaim/expiration"
	"sigs.k8s.io/karpenter/pkg/controllers/nodeclaim/garbagecollection"

	"verif/harness/ev"
	"verif/harness/sim"
)

// C16: the forceful reapers (expiration, garbage collection, liveness, node repair) act only on their documented trigger.

type c16Claim struct {
	Registered bool   `json:"registered"`
	Listed     bool   `json:"listed"` // the provider still lists the instance
	Node       string `json:"node"`   // absent | notready | ready
	Deleting   bool   `json:"deleting,omitempty"`
}

type c16Scenario struct {
	Kind string `json:"kind"` // expiration | gc | liveness | health
	// clock offset relative to the documented threshold, in seconds (negative = before)
	OffsetSec int `json:"offsetSec"`
	// SubNanos: the clock additionally stands this many nanoseconds off the whole second (API timestamps have second
	// granularity, clocks do not)
	SubNanos int64 `json:"subNanos,omitempty"`
	// expiration
	ExpireAfter string `json:"expireAfter,omitempty"`
	Deleting    bool   `json:"deleting,omitempty"`
	// gc
	Claims []c16Claim `json:"claims,omitempty"`
	// liveness
	Launched       bool `json:"launched,omitempty"`       // Launched=True (else Unknown and Create keeps failing)
	RegisteredTrue bool `json:"registeredTrue,omitempty"` // node registered already
	// RegisteredFalse: registration found two Nodes with the NodeClaim's provider id (Registered=False, MultipleNodesFound)
	RegisteredFalse bool `json:"registeredFalse,omitempty"`
	// health
	PoolNodes int `json:"poolNodes,omitempty"`
	Unhealthy int `json:"unhealthy,omitempty"` // other unhealthy nodes in the pool
	// UnhealthyTerminating: how many of those other unhealthy nodes are already being deleted (still in the pool, still unhealthy)
	UnhealthyTerminating int    `json:"unhealthyTerminating,omitempty"`
	Condition            string `json:"condition,omitempty"` // which policy condition the target node shows: ready-false | badnode-true | both | none
	Standalone           bool   `json:"standalone,omitempty"`
	SecondOff            int    `json:"secondOffsetSec,omitempty"`
	// Policies: order and tolerations of the provider's repair policies: "ready10,bad30" | "bad30,ready10" | "ready30,bad10" | "bad10,ready30"
	Policies string `json:"policies,omitempty"`
}

var c16Offsets = []int{-3600, -61, -1, 0, 1, 61, 3600}

func drawC16(t *rapid.T) *c16Scenario {
	s := &c16Scenario{Kind: rapid.SampledFrom([]string{"expiration", "gc", "gc", "liveness", "health", "health"}).Draw(t, "kind"), OffsetSec: rapid.SampledFrom(c16Offsets).Draw(t, "offset"),
		SubNanos: rapid.SampledFrom([]int64{0, 0, 0, 0, -1, -500000000, -999999999, 1, 500000000}).Draw(t, "subNanos")}
	switch s.Kind {
	case "expiration":
		s.ExpireAfter = rapid.SampledFrom([]string{"Never", "0s", "10m", "1h", "720h"}).Draw(t, "expireAfter")
		s.Deleting = rapid.IntRange(0, 5).Draw(t, "deleting") == 0
	case "gc":
		n := rapid.IntRange(1, 3).Draw(t, "nClaims")
		for i := 0; i < n; i++ {
			s.Claims = append(s.Claims, c16Claim{Registered: rapid.IntRange(0, 3).Draw(t, "registered") > 0, Listed: rapid.IntRange(0, 2).Draw(t, "listed") == 0,
				Node: rapid.SampledFrom([]string{"absent", "notready", "ready", "ready", "ready-terminating", "notready-terminating"}).Draw(t, "node"), Deleting: rapid.IntRange(0, 6).Draw(t, "deleting") == 0})
		}
	case "liveness":
		s.Launched = rapid.Bool().Draw(t, "launched")
		s.RegisteredTrue = rapid.IntRange(0, 4).Draw(t, "registeredTrue") == 0
		s.RegisteredFalse = !s.RegisteredTrue && rapid.IntRange(0, 3).Draw(t, "registeredFalse") == 0
	case "health":
		s.PoolNodes = rapid.IntRange(1, 8).Draw(t, "poolNodes")
		s.Unhealthy = rapid.IntRange(0, s.PoolNodes-1).Draw(t, "unhealthy")
		s.UnhealthyTerminating = rapid.IntRange(0, s.Unhealthy).Draw(t, "unhealthyTerminating")
		s.Condition = rapid.SampledFrom([]string{"ready-false", "ready-false", "badnode-true", "both", "none"}).Draw(t, "condition")
		s.Standalone = rapid.IntRange(0, 4).Draw(t, "standalone") == 0
		s.SecondOff = rapid.SampledFrom(append([]int{-1500, 1500, -900, 900}, c16Offsets...)).Draw(t, "secondOffset")
		s.Policies = rapid.SampledFrom([]string{"ready10,bad30", "bad30,ready10", "ready30,bad10", "bad10,ready30"}).Draw(t, "policies")
	}
	return s
}

var c16Policies = []cloudprovider.RepairPolicy{
	{ConditionType: corev1.NodeReady, ConditionStatus: corev1.ConditionFalse, TolerationDuration: 10 * time.Minute},
	{ConditionType: "BadNode", ConditionStatus: corev1.ConditionTrue, TolerationDuration: 30 * time.Minute},
}

// c16PoliciesFor decodes the scenario's policy list: the policies in provider order and the two tolerations.
func c16PoliciesFor(spec string) ([]cloudprovider.RepairPolicy, time.Duration, time.Duration) {
	readyTol, badTol := 10*time.Minute, 30*time.Minute
	if spec == "ready30,bad10" || spec == "bad10,ready30" {
		readyTol, badTol = 30*time.Minute, 10*time.Minute
	}
	ready := cloudprovider.RepairPolicy{ConditionType: corev1.NodeReady, ConditionStatus: corev1.ConditionFalse, TolerationDuration: readyTol}
	bad := cloudprovider.RepairPolicy{ConditionType: "BadNode", ConditionStatus: corev1.ConditionTrue, TolerationDuration: badTol}
	if spec == "bad30,ready10" || spec == "bad10,ready30" {
		return []cloudprovider.RepairPolicy{bad, ready}, readyTol, badTol
	}
	return []cloudprovider.RepairPolicy{ready, bad}, readyTol, badTol
}

type c16Run struct {
	reads      int
	deleted    map[string]bool
	violations []ev.Violation
	nearEdge   bool
}

func c16Claim1(w *sim.World, name string, pool *v1.NodePool, created time.Time) *v1.NodeClaim {
	nc := &v1.NodeClaim{ObjectMeta: metav1.ObjectMeta{Name: name, CreationTimestamp: metav1.NewTime(created), Finalizers: []string{v1.TerminationFinalizer}, Labels: map[string]string{}},
		Spec: v1.NodeClaimSpec{NodeClassRef: sim.NodeClassRef(), Requirements: []v1.NodeSelectorRequirementWithMinValues{{Key: corev1.LabelInstanceTypeStable, Operator: corev1.NodeSelectorOpIn, Values: []string{"std"}}}}}
	if pool != nil {
		nc.Labels[v1.NodePoolLabelKey] = pool.Name
		nc.OwnerReferences = []metav1.OwnerReference{{APIVersion: "karpenter.sh/v1", Kind: "NodePool", Name: pool.Name, UID: pool.UID, BlockOwnerDeletion: ptrTo(true)}}
	}
	nc.Spec.ExpireAfter = v1.MustParseNillableDuration("Never")
	return nc
}

func c16Node(name, providerID string, pool string, ready bool, since time.Time) *corev1.Node {
	n := &corev1.Node{ObjectMeta: metav1.ObjectMeta{Name: name, Labels: map[string]string{v1.NodeRegisteredLabelKey: "true", v1.NodeInitializedLabelKey: "true", corev1.LabelHostname: name}, Finalizers: []string{v1.TerminationFinalizer}},
		Spec: corev1.NodeSpec{ProviderID: providerID}}
	if pool != "" {
		n.Labels[v1.NodePoolLabelKey] = pool
	}
	st := corev1.ConditionTrue
	if !ready {
		st = corev1.ConditionFalse
	}
	n.Status.Conditions = []corev1.NodeCondition{{Type: corev1.NodeReady, Status: st, LastTransitionTime: metav1.NewTime(since)}}
	return n
}

// runC16 executes the scenario once; the faultIdx-th READ the controller issues (API get/list or provider list) fails.
func runC16(s *c16Scenario, faultIdx int) *c16Run {
	r := &c16Run{deleted: map[string]bool{}}
	violate := func(sig, f string, a ...any) {
		if len(r.violations) < 5 {
			r.violations = append(r.violations, ev.Violation{Sig: sig, What: fmt.Sprintf("[read fault #%d] ", faultIdx) + fmt.Sprintf(f, a...)})
		}
	}
	w := sim.New(sim.Options{})
	w.ApplyNodeClass()
	w.Provider.Default = c14Catalog
	w.Provider.Repair = c16Policies
	np := &v1.NodePool{ObjectMeta: metav1.ObjectMeta{Name: "p0", UID: "pool-uid-0"}}
	np.Spec.Template.Spec.ExpireAfter = v1.MustParseNillableDuration("Never")
	pool := w.ApplyPool(np)
	now := w.Clock.Now()
	sub := time.Duration(s.SubNanos)
	w.Clock.SetTime(now.Add(sub))
	inController := false
	faultFired := false
	providerListFailed := false
	faultBeforeDelete := false
	hit := func() bool {
		if !inController {
			return false
		}
		r.reads++
		if r.reads == faultIdx {
			faultFired = true
			return true
		}
		return false
	}
	w.Faults = []*sim.Fault{{N: 1, Err: apierrors.NewInternalError(fmt.Errorf("injected read failure"))}}
	w.Faults[0].Match = func(c *sim.Call) bool { return !c.IsWrite() && hit() }
	w.Provider.Hook = func(verb string, _ *v1.NodeClaim, _ string) error {
		if verb == "list" && hit() {
			providerListFailed = true
			return fmt.Errorf("injected provider list failure")
		}
		if verb == "create" && s.Kind == "liveness" && !s.Launched {
			return fmt.Errorf("scripted launch failure")
		}
		return nil
	}
	w.After = append(w.After, func(w *sim.World, c *sim.Call) {
		if c.Verb == "delete" && c.Kind == "NodeClaim" {
			r.deleted[c.Key] = true
			faultBeforeDelete = faultFired
		}
	})
	off := time.Duration(s.OffsetSec) * time.Second
	early := off+sub < 0 // the clock has not reached the threshold yet
	r.nearEdge = s.OffsetSec >= -1 && s.OffsetSec <= 1

	switch s.Kind {
	case "expiration":
		nc := c16Claim1(w, "claim-1", pool, now)
		nc.Spec.ExpireAfter = v1.MustParseNillableDuration(s.ExpireAfter)
		expire := time.Duration(0)
		if nc.Spec.ExpireAfter.Duration != nil {
			expire = *nc.Spec.ExpireAfter.Duration
		}
		nc.CreationTimestamp = metav1.NewTime(now.Add(-expire - off))
		w.Apply(nc)
		if s.Deleting {
			w.Delete(nc)
		}
		ctrl := expiration.NewController(w.Clock, w.Client, w.Provider)
		cur := w.GetNodeClaim("claim-1")
		inController = true
		w.RunBlocking(func() { _, _ = ctrl.Reconcile(w.Ctx, cur) }, time.Second, nil)
		inController = false
		if r.deleted["claim-1"] && !s.Deleting {
			if s.ExpireAfter == "Never" {
				violate("expiration:disabled", "NodeClaim with expireAfter=Never was deleted by the expiration controller")
			} else if early {
				violate("expiration:early", "NodeClaim deleted %s before creation+expireAfter (%s)", -(off + sub), s.ExpireAfter)
			}
		}
	case "gc":
		for i, cl := range s.Claims {
			name := fmt.Sprintf("claim-%d", i)
			nc := c16Claim1(w, name, pool, now.Add(-time.Hour))
			id := fmt.Sprintf("sim://zone-a/gc-%d", i)
			nc.Status.ProviderID = id
			nc.StatusConditions().SetTrue(v1.ConditionTypeLaunched)
			if cl.Registered {
				nc.StatusConditions().SetTrue(v1.ConditionTypeRegistered)
				nc.StatusConditions().SetTrue(v1.ConditionTypeInitialized)
			}
			w.Apply(nc)
			if cl.Listed {
				w.Provider.Adopt(nc, sim.LaunchOption{Type: c14Catalog[0], Offering: c14Catalog[0].Offerings[0], OS: "linux"})
			}
			if cl.Node != "absent" {
				n := c16Node(fmt.Sprintf("node-%d", i), id, pool.Name, strings.HasPrefix(cl.Node, "ready"), now.Add(-time.Hour))
				w.Apply(n)
				if strings.HasSuffix(cl.Node, "-terminating") {
					// the Node is being deleted (held by its finalizer) - it is still present, and Ready or not as before
					w.Delete(n)
				}
			}
			if cl.Deleting {
				w.Delete(nc)
			}
		}
		ctrl := garbagecollection.NewController(w.Clock, w.Client, w.Provider)
		inController = true
		_, _ = ctrl.Reconcile(w.Ctx)
		inController = false
		for i, cl := range s.Claims {
			name := fmt.Sprintf("claim-%d", i)
			if !r.deleted[name] || cl.Deleting {
				continue
			}
			switch {
			case providerListFailed:
				violate("gc:deleted-without-provider-list", "%s deleted although listing the provider's instances failed", name)
			case !cl.Registered:
				violate("gc:unregistered", "%s deleted by garbage collection although it never registered", name)
			case cl.Listed:
				violate("gc:instance-still-listed", "%s deleted although the provider still lists its instance", name)
			case strings.HasPrefix(cl.Node, "ready"):
				sig := "gc:node-ready"
				if faultBeforeDelete {
					sig = "gc:node-ready:lookup-failed"
				}
				violate(sig, "%s deleted although its Node exists and is Ready (read fault fired: %v)", name, faultFired)
			}
		}
	case "liveness":
		nc := c16Claim1(w, "claim-1", pool, now.Add(-2*time.Hour))
		threshold := 15 * time.Minute
		if s.Launched {
			nc.Status.ProviderID = "sim://zone-a/live-1"
			nc.StatusConditions().SetTrue(v1.ConditionTypeLaunched)
			if s.RegisteredTrue {
				nc.StatusConditions().SetTrue(v1.ConditionTypeRegistered)
			} else if s.RegisteredFalse {
				nc.StatusConditions().SetFalse(v1.ConditionTypeRegistered, "MultipleNodesFound", "Invariant violated, matched multiple nodes")
			} else {
				nc.StatusConditions().SetUnknownWithReason(v1.ConditionTypeRegistered, "NodeNotFound", "Node not registered with cluster")
			}
		} else {
			threshold = 5 * time.Minute
			nc.StatusConditions().SetUnknownWithReason(v1.ConditionTypeLaunched, "LaunchFailed", "scripted launch failure")
			nc.StatusConditions().SetUnknownWithReason(v1.ConditionTypeRegistered, "NodeNotFound", "Node not registered with cluster")
		}
		since := metav1.NewTime(now.Add(-threshold - off))
		for i := range nc.Status.Conditions {
			nc.Status.Conditions[i].LastTransitionTime = since
		}
		w.Apply(nc)
		if s.Launched {
			w.Provider.Adopt(nc, sim.LaunchOption{Type: c14Catalog[0], Offering: c14Catalog[0].Offerings[0], OS: "linux"})
			if s.RegisteredTrue {
				w.Apply(c16Node("node-1", nc.Status.ProviderID, pool.Name, true, now.Add(-time.Hour)))
			}
			if s.RegisteredFalse {
				// e.g. the kubelet re-registered under a new name: two Nodes carry the provider id
				for _, n := range []string{"node-1", "node-1b"} {
					dup := c16Node(n, nc.Status.ProviderID, pool.Name, true, now.Add(-time.Hour))
					delete(dup.Labels, v1.NodeRegisteredLabelKey)
					w.Apply(dup)
				}
			}
		}
		lc := w.NewLifecycle(nil)
		inController = true
		w.ReconcileNodeClaim(lc, "claim-1")
		inController = false
		if r.deleted["claim-1"] {
			if s.Launched && s.RegisteredTrue {
				violate("liveness:registered", "a registered NodeClaim was deleted by the liveness check")
			} else if early {
				violate("liveness:early", "NodeClaim deleted %s before its %s timeout elapsed", -(off + sub), threshold)
			}
		}
	case "health":
		var poolForClaim *v1.NodePool
		poolName := ""
		if !s.Standalone {
			poolForClaim, poolName = pool, pool.Name
		}
		nc := c16Claim1(w, "claim-1", poolForClaim, now.Add(-3*time.Hour))
		nc.Status.ProviderID = "sim://zone-a/health-1"
		nc.Status.NodeName = "node-target"
		nc.StatusConditions().SetTrue(v1.ConditionTypeLaunched)
		nc.StatusConditions().SetTrue(v1.ConditionTypeRegistered)
		nc.StatusConditions().SetTrue(v1.ConditionTypeInitialized)
		w.Apply(nc)
		target := c16Node("node-target", nc.Status.ProviderID, poolName, true, now.Add(-3*time.Hour))
		policies, readyTol, badTol := c16PoliciesFor(s.Policies)
		w.Provider.Repair = policies
		readySince, badSince := now.Add(-readyTol-off), now.Add(-badTol-time.Duration(s.SecondOff)*time.Second)
		switch s.Condition {
		case "ready-false":
			target.Status.Conditions = []corev1.NodeCondition{{Type: corev1.NodeReady, Status: corev1.ConditionFalse, LastTransitionTime: metav1.NewTime(readySince)}}
		case "badnode-true":
			badSince = now.Add(-badTol - off)
			target.Status.Conditions = append(target.Status.Conditions, corev1.NodeCondition{Type: "BadNode", Status: corev1.ConditionTrue, LastTransitionTime: metav1.NewTime(badSince)})
		case "both":
			target.Status.Conditions = []corev1.NodeCondition{{Type: corev1.NodeReady, Status: corev1.ConditionFalse, LastTransitionTime: metav1.NewTime(readySince)},
				{Type: "BadNode", Status: corev1.ConditionTrue, LastTransitionTime: metav1.NewTime(badSince)}}
		}
		w.Apply(target)
		// the rest of the pool (or of the cluster for a standalone claim)
		for i := 1; i < s.PoolNodes; i++ {
			on := c16Node(fmt.Sprintf("node-%d", i), fmt.Sprintf("sim://zone-a/other-%d", i), poolName, i > s.Unhealthy, now.Add(-time.Hour))
			if i <= s.UnhealthyTerminating {
				// repaired / expired a moment ago: terminating, held by its finalizer while it drains
				on.Finalizers = []string{v1.TerminationFinalizer}
			}
			w.Apply(on)
			if i <= s.UnhealthyTerminating {
				w.Quiet(func() { _ = w.Client.Delete(w.Ctx, on) })
			}
		}
		ctrl := health.NewController(w.Client, w.Provider, w.Clock, w.Recorder)
		cur := &corev1.Node{}
		w.Quiet(func() { _ = w.Client.Get(w.Ctx, client.ObjectKey{Name: "node-target"}, cur) })
		inController = true
		_, _ = ctrl.Reconcile(w.Ctx, cur)
		inController = false
		if r.deleted["claim-1"] {
			// reference: some policy's condition has lasted its toleration, and unhealthy nodes <= ceil(20% of the pool)
			lasted := false
			readyFalse := s.Condition == "ready-false" || s.Condition == "both"
			badTrue := s.Condition == "badnode-true" || s.Condition == "both"
			if readyFalse && !now.Add(sub).Before(readySince.Add(readyTol)) {
				lasted = true
			}
			if badTrue && !now.Add(sub).Before(badSince.Add(badTol)) {
				lasted = true
			}
			unhealthy := s.Unhealthy
			if readyFalse || badTrue {
				unhealthy++
			}
			threshold := (s.PoolNodes*20 + 99) / 100
			switch {
			case !readyFalse && !badTrue:
				violate("health:healthy-node", "a node showing no unhealthy condition was repaired (deleted)")
			case !lasted:
				violate("health:early", "node repaired before any unhealthy condition lasted its toleration (condition %s, policies %s, offsets %ds / %ds)", s.Condition, s.Policies, s.OffsetSec, s.SecondOff)
			case unhealthy > threshold:
				violate("health:too-many-unhealthy", "node repaired although %d of %d nodes are unhealthy (allowed %d)", unhealthy, s.PoolNodes, threshold)
			case faultBeforeDelete:
				violate("health:repaired-without-establishing", "node repaired although a guarding lookup failed")
			}
		}
		if s.PoolNodes > 1 {
			t := (s.PoolNodes*20 + 99) / 100
			u := s.Unhealthy + 1
			r.nearEdge = r.nearEdge || u == t || u == t+1
		}
	}
	return r
}

func execC16(s *c16Scenario, c *ev.Ctx) {
	base := runC16(s, 0)
	for _, v := range base.violations {
		c.Violate(v.Sig, "%s", v.What)
	}
	executions := 1
	for i := 1; i <= base.reads && len(c.Violations()) == 0; i++ {
		r := runC16(s, i)
		executions++
		for _, v := range r.violations {
			c.Violate(v.Sig, "%s", v.What)
		}
	}
	c.Class("kind:" + s.Kind)
	c.Add("executions", executions)
	c.Add("read_fault_points", base.reads)
	c.ClassIf(len(base.deleted) > 0, "deleted_in_fault_free_run")
	c.NTIf(base.nearEdge || base.reads > 0)
	c.ClassIf(base.nearEdge, "near_threshold")
	c.Sample(map[string]any{"scenario": s, "reads": base.reads, "deleted": len(base.deleted)})
}

var propC16 = ev.Prop[c16Scenario]{
	ID: "C16", Test: "TestC16", Level: "fault_enumeration",
	Rule: "rapid draws one reaper scenario: expiration (expireAfter Never/0s/10m/1h/720h, already deleting), garbage collection (1-3 NodeClaims x registered x instance listed x node absent/NotReady/Ready x deleting), liveness (launch / registration timeout through the real lifecycle controller), node repair (pool of 1-8 nodes with u unhealthy, Ready=False 10m / BadNode=True 30m policies, standalone claims), with the clock at threshold -1h/-61s/-1s/0/+1s/+61s/+1h; a fault-free run counts the READS (API get/list, provider List) the controller makes, then EVERY read index is failed once; " +
		"oracle: every NodeClaim Delete in the call log must be justified by the generated ground truth (expiry set and reached; registered, instance unlisted, node absent or NotReady, provider list succeeded; timeout elapsed and not registered; an unhealthy condition lasted its toleration and unhealthy <= ceil(20% n)); " +
		"non-trivial = clock within +-1s of a threshold, unhealthy count at the 20% edge, or >=1 guarding read to fail",
	Assumptions: []string{"a delete that happens to be right although its guarding lookup failed is not flagged for garbage collection (truth-based oracle), but is for node repair"},
	Draw:        drawC16, Exec: execC16, ReplayTries: 3,
}

func TestC16(t *testing.T) { ev.Run(t, propC16) }
