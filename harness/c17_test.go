package harness

import (
	"fmt"
	"sort"
	"testing"

	corev1 "k8s.io/api/core/v1"
	"pgregory.net/rapid"

	v1 "sigs.k8s.io/karpenter/pkg/apis/v1"
	"sigs.k8s.io/karpenter/pkg/cloudprovider"
	"sigs.k8s.io/karpenter/pkg/controllers/disruption"
	pscheduling "sigs.k8s.io/karpenter/pkg/controllers/provisioning/scheduling"

	"verif/harness/ev"
	"verif/harness/gen"
)

// C17a: capacity reservations are never over-committed within one scheduling pass.

type c17aScenario struct {
	World    *gen.SchedWorld `json:"world"`
	Fallback bool            `json:"fallback"` // run as a disruption simulation (fallback mode) instead of a provisioning pass (strict)
}

func drawC17a(t *rapid.T) *c17aScenario {
	k := gen.DefaultKnobs()
	k.Reserved = true
	k.MaxPending = 12
	k.MaxNodes = 2
	k.EasyPods = true
	k.FriendlyPools = true
	// profile: several weighted NodePools, no inter-pod constraints, preferences, limits or minValues, and pods whose
	// required node affinity has OR-ed zone terms: the only thing that can keep a pod off reserved capacity it is
	// compatible with is that the capacity is used up, and then strict mode defers it
	crossPool := dpct(t, 35, "c17aCrossPoolProfile")
	if crossPool {
		k.InterPod, k.NoPrefs, k.NoLimits, k.NoMinValues, k.MinPools, k.NoSoftTaints = 0, true, true, true, 2, true
		k.MaxNodes = 1
	}
	w := gen.World(t, k)
	w.Options.ReservedCapacity = rapid.IntRange(0, 9).Draw(t, "gate") > 0
	if crossPool {
		w.Options.ReservedCapacity = true
		for _, p := range w.Bound {
			p.Spec.Affinity, p.Spec.TopologySpreadConstraints = nil, nil
		}
		for i, np := range w.Pools {
			wt := int32(10 * (len(w.Pools) - i))
			np.Spec.Weight = &wt
			np.Spec.Limits = nil
		}
		// often the heaviest pool is closed to the workload (dedicated taint): it reports an ordinary error first
		if dpct(t, 50, "c17aHeavyPoolTainted") {
			w.Pools[0].Spec.Template.Spec.Taints = []corev1.Taint{{Key: "dedicated", Value: "other-team", Effect: corev1.TaintEffectNoSchedule}}
		}
		for i, p := range w.Pending {
			p.Spec.TopologySpreadConstraints = nil
			p.Spec.Affinity = nil
			if dpct(t, 60, fmt.Sprintf("c17aOrTerms%d", i)) {
				z := rapid.IntRange(0, 2).Draw(t, fmt.Sprintf("c17aOrZone%d", i))
				term := func(v string) corev1.NodeSelectorTerm {
					return corev1.NodeSelectorTerm{MatchExpressions: []corev1.NodeSelectorRequirement{{Key: corev1.LabelTopologyZone, Operator: corev1.NodeSelectorOpIn, Values: []string{v}}}}
				}
				p.Spec.Affinity = &corev1.Affinity{NodeAffinity: &corev1.NodeAffinity{RequiredDuringSchedulingIgnoredDuringExecution: &corev1.NodeSelector{
					NodeSelectorTerms: []corev1.NodeSelectorTerm{term(gen.Zones[z]), term(gen.Zones[(z+1)%3])}}}}
			}
		}
	}
	return &c17aScenario{World: w, Fallback: !crossPool && rapid.IntRange(0, 3).Draw(t, "fallback") == 0}
}

func execC17a(s *c17aScenario, c *ev.Ctx) {
	b := build(s.World, c)
	w := b.W
	var res pscheduling.Results
	var err error
	if s.Fallback {
		res, err = disruption.SimulateScheduling(w.Ctx, w.Client, w.Cluster, b.Provisioner, w.Clock, w.Recorder, nil)
		c.Class("fallback_mode")
	} else {
		res, err = b.Provisioner.Schedule(w.Ctx)
		c.Class("strict_mode")
	}
	if err != nil {
		c.Class("schedule_error")
		return
	}
	// reservation capacity as documented: the smallest capacity any offering reports for the id
	capacity := map[string]int{}
	for _, it := range s.World.Catalog {
		for _, of := range it.Offerings {
			if of.CapacityType != v1.CapacityTypeReserved {
				continue
			}
			if cur, ok := capacity[of.ReservationID]; !ok || of.ReservationCapacity < cur {
				capacity[of.ReservationID] = of.ReservationCapacity
			}
		}
	}
	holders := map[string][]string{}
	pinnedClaims := 0
	for i, nc := range res.NewNodeClaims {
		name := fmt.Sprintf("claim#%d(%s)", i, nc.NodePoolName)
		ridReq, hasRID := nc.Requirements[cloudprovider.ReservationIDLabel]
		ctReq, hasCT := nc.Requirements[v1.CapacityTypeLabelKey]
		onlyReserved := hasCT && ctReq.Operator() == corev1.NodeSelectorOpIn && len(ctReq.Values()) == 1 && ctReq.Has(v1.CapacityTypeReserved)
		// reserved offerings this claim could use: available, of a remaining type, zone / capacity type admitted
		compat := map[string]bool{}
		for _, opt := range nc.InstanceTypeOptions {
			it, _ := b.itSpec(opt.Name)
			for _, of := range it.Offerings {
				if of.CapacityType != v1.CapacityTypeReserved || !of.Available {
					continue
				}
				if zr, ok := nc.Requirements[corev1.LabelTopologyZone]; ok && !zr.Has(of.Zone) {
					continue
				}
				if hasCT && !ctReq.Has(v1.CapacityTypeReserved) {
					continue
				}
				compat[of.ReservationID] = true
			}
		}
		if hasRID && ridReq.Operator() == corev1.NodeSelectorOpIn {
			pinnedClaims++
			if !s.World.Options.ReservedCapacity {
				c.Violate("reservation:pinned-with-gate-off", "%s pins reservation ids %v although the ReservedCapacity gate is off", name, ridReq.Values())
			}
			if !onlyReserved {
				c.Violate("reservation:pinned-but-not-reserved-only", "%s pins reservation ids %v but its capacity-type requirement is %v", name, ridReq.Values(), ctReq)
			}
			ids := ridReq.Values()
			sort.Strings(ids)
			if len(ids) == 0 {
				c.Violate("reservation:empty-pin", "%s pins an empty set of reservation ids", name)
			}
			for _, id := range ids {
				holders[id] = append(holders[id], name)
				if !compat[id] {
					c.Violate("reservation:foreign-id", "%s pins reservation %s, which is not an available reserved offering of its remaining instance types compatible with its requirements", name, id)
				}
			}
		} else {
			if onlyReserved && s.World.Options.ReservedCapacity {
				// the pool itself may restrict to reserved; without a pin several claims could land in one reservation
				poolOnlyReserved := false
				if np := b.Pools[nc.NodePoolName]; np != nil {
					for _, r := range np.Spec.Template.Spec.Requirements {
						poolOnlyReserved = poolOnlyReserved || (r.Key == v1.CapacityTypeLabelKey && r.Operator == corev1.NodeSelectorOpIn && len(r.Values) == 1 && r.Values[0] == v1.CapacityTypeReserved)
					}
				}
				for _, p := range b.originals(nc.Pods) {
					poolOnlyReserved = poolOnlyReserved || p.Spec.NodeSelector[v1.CapacityTypeLabelKey] == v1.CapacityTypeReserved
					// ... or a required node-affinity term of the pod narrows the capacity type (e.g. NotIn [on-demand] in
					// a pool offering on-demand and reserved)
					if a := p.Spec.Affinity; a != nil && a.NodeAffinity != nil && a.NodeAffinity.RequiredDuringSchedulingIgnoredDuringExecution != nil {
						for _, term := range a.NodeAffinity.RequiredDuringSchedulingIgnoredDuringExecution.NodeSelectorTerms {
							for _, e := range term.MatchExpressions {
								poolOnlyReserved = poolOnlyReserved || e.Key == v1.CapacityTypeLabelKey
							}
						}
					}
				}
				if !poolOnlyReserved {
					c.Violate("reservation:reserved-only-without-pin", "%s is restricted to reserved capacity but pins no reservation id", name)
				}
			}
			if !s.Fallback && s.World.Options.ReservedCapacity && len(compat) > 0 {
				ids := make([]string, 0, len(compat))
				for id := range compat {
					ids = append(ids, id)
				}
				sort.Strings(ids)
				c.Violate("reservation:strict-fallback", "strict mode: %s with pods %s holds no reservation although compatible reserved offerings %v are available to its instance types (the pod had to be deferred)", name, shortPods(nc.Pods), ids)
			}
		}
	}
	// ---- strict mode across NodePools: the pod a NodeClaim was opened for was offered to every NodePool of a higher
	// weight first. If one of those could host it on reserved capacity (on its own, whatever the launch choice), the pod
	// belongs on a pinned NodeClaim there or is deferred; an unpinned NodeClaim of a lighter pool is a silent fallback.
	// Judged only where nothing else can explain the fallback: no inter-pod constraints anywhere, no preferences on the
	// pod, the heavier pool is ready, has no limits and no minValues.
	if !s.Fallback && s.World.Options.ReservedCapacity && !worldHasInterPodConstraints(s.World) {
		anyReserved := false
		for _, it := range b.S.Catalog {
			for _, of := range it.Offerings {
				anyReserved = anyReserved || (of.CapacityType == v1.CapacityTypeReserved && of.Available && of.ReservationCapacity > 0)
			}
		}
		rb := *b
		rb.choiceOK = func(ch launchChoice) bool {
			return ch.of.CapacityType == v1.CapacityTypeReserved && ch.of.Available && ch.of.ReservationCapacity > 0
		}
		for i, nc := range res.NewNodeClaims {
			if _, pinned := nc.Requirements[cloudprovider.ReservationIDLabel]; pinned || len(nc.Pods) == 0 || !anyReserved {
				continue
			}
			opener := b.originals(nc.Pods[:1])[0]
			if podHasPreferences(opener) || b.Pools[nc.NodePoolName] == nil {
				continue
			}
			// the pod as Karpenter first tries it: of several OR-ed required node-affinity terms only the first
			opener = opener.DeepCopy()
			if a := opener.Spec.Affinity; a != nil && a.NodeAffinity != nil && a.NodeAffinity.RequiredDuringSchedulingIgnoredDuringExecution != nil {
				if terms := a.NodeAffinity.RequiredDuringSchedulingIgnoredDuringExecution.NodeSelectorTerms; len(terms) > 1 {
					a.NodeAffinity.RequiredDuringSchedulingIgnoredDuringExecution.NodeSelectorTerms = terms[:1]
					c.Class("cross_pool_reserved_opener_with_or_terms")
				}
			}
			for _, name := range sortedKeys(b.Pools) {
				hp := b.Pools[name]
				if (name != nc.NodePoolName && weightOf(hp) <= weightOf(b.Pools[nc.NodePoolName])) || len(hp.Spec.Limits) > 0 || hp.Spec.Replicas != nil {
					continue
				}
				hasMinValues := false
				for _, r := range hp.Spec.Template.Spec.Requirements {
					hasMinValues = hasMinValues || r.MinValues != nil
				}
				if hasMinValues {
					continue
				}
				c.Class("cross_pool_reserved_judged")
				if ok, _ := rb.poolFeasible(hp, opener); ok {
					c.Violate("reservation:strict-fallback:lighter-pool", "strict mode: claim#%d(%s) was opened for pod %s without a reservation although NodePool %s (weight %d >= %d) can host the pod, as first tried, on reserved capacity (the pod had to get a reservation there or be deferred)", i, nc.NodePoolName, opener.Name, hp.Name, weightOf(hp), weightOf(b.Pools[nc.NodePoolName]))
				}
			}
		}
	}
	over := false
	for id, hs := range holders {
		if len(hs) > capacity[id] {
			c.Violate("reservation:over-committed", "reservation %s has capacity %d but is held by %d NodeClaims: %v", id, capacity[id], len(hs), hs)
		}
		if len(hs) == capacity[id] {
			over = true
		}
	}
	// pods deferred with a reserved-offering error are not placed anywhere
	placed := map[string]bool{}
	for _, nc := range res.NewNodeClaims {
		for _, p := range nc.Pods {
			placed[string(p.UID)] = true
		}
	}
	for _, en := range res.ExistingNodes {
		for _, p := range en.Pods {
			placed[string(p.UID)] = true
		}
	}
	deferred := 0
	for p, e := range res.PodErrors {
		if pscheduling.IsReservedOfferingError(e) {
			deferred++
			if placed[string(p.UID)] {
				c.Violate("reservation:deferred-pod-placed", "pod %s was deferred with a reserved-offering error and placed at the same time", p.Name)
			}
		}
	}
	c.ClassIf(pinnedClaims > 0, "pinned_claim")
	c.ClassIf(deferred > 0, "deferred_pod")
	c.ClassIf(over, "reservation_exhausted")
	c.NTIf(pinnedClaims > 0 && (deferred > 0 || over || pinnedClaims >= 2))
	c.Sample(map[string]any{"claims": len(res.NewNodeClaims), "pinned": pinnedClaims, "deferred": deferred, "capacity": capacity, "strict": !s.Fallback, "gate": s.World.Options.ReservedCapacity})
}

var propC17a = ev.Prop[c17aScenario]{
	ID: "C17", Test: "TestC17a",
	Rule: "rapid draws a scheduler world whose catalog has reserved offerings (ids r-1..r-3 shared across types, capacity 0-3, some unavailable), up to 12 mostly small pods, gate on/off, strict (Provisioner.Schedule) or fallback (disruption.SimulateScheduling) mode; a 35% profile has >=2 weighted NodePools (the heaviest often closed by a dedicated taint), no inter-pod constraints / preferences / limits / minValues and pods with two OR-ed zone terms; " +
		"oracle on Results: per reservation id #NodeClaims pinning it <= min capacity reported for the id; a pin implies capacity-type exactly {reserved}, non-empty ids that are available reserved offerings of the remaining types compatible with the requirements; strict: a claim without a pin has no compatible available reserved offering among its types, and the pod it was opened for - as first tried: only the first of OR-ed terms - cannot be hosted on reserved capacity (daemon overhead included, every launch choice) by its own or any heavier NodePool that is ready and has no limits / minValues (judged in worlds without inter-pod constraints, for pods without preferences); deferred pods are not placed; " +
		"non-trivial = a claim pinned a reservation and (a pod was deferred, a reservation was filled to capacity, or >=2 claims pinned)",
	Assumptions: []string{"reservation capacity is the minimum over the offerings carrying the id, as the code documents"},
	Draw:        drawC17a, Exec: execC17a, ReplayTries: 5,
}

func TestC17a(t *testing.T) { ev.Run(t, propC17a) }

// worldHasInterPodConstraints: some pending or bound pod carries pod (anti-)affinity or a topology spread constraint.
func worldHasInterPodConstraints(w *gen.SchedWorld) bool {
	var all []*corev1.Pod
	all = append(all, w.Pending...)
	all = append(all, w.Bound...)
	for _, p := range all {
		if len(p.Spec.TopologySpreadConstraints) > 0 {
			return true
		}
		if a := p.Spec.Affinity; a != nil && (a.PodAffinity != nil || a.PodAntiAffinity != nil) {
			return true
		}
	}
	return false
}

// podHasPreferences: preferred node affinity (Karpenter treats it as required until relaxed).
func podHasPreferences(p *corev1.Pod) bool {
	return p.Spec.Affinity != nil && p.Spec.Affinity.NodeAffinity != nil && len(p.Spec.Affinity.NodeAffinity.PreferredDuringSchedulingIgnoredDuringExecution) > 0
}
