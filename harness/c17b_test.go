package harness

import (
	"context"
	"fmt"
	"sort"
	"strings"
	"testing"
	"unique"

	corev1 "k8s.io/api/core/v1"
	resourcev1 "k8s.io/api/resource/v1"
	"k8s.io/apimachinery/pkg/api/resource"
	metav1 "k8s.io/apimachinery/pkg/apis/meta/v1"
	"k8s.io/apimachinery/pkg/util/sets"
	clientgoscheme "k8s.io/client-go/kubernetes/scheme"
	"pgregory.net/rapid"
	"sigs.k8s.io/controller-runtime/pkg/client"
	"sigs.k8s.io/controller-runtime/pkg/client/fake"

	"sigs.k8s.io/karpenter/pkg/cloudprovider"
	"sigs.k8s.io/karpenter/pkg/scheduling"
	dra "sigs.k8s.io/karpenter/pkg/scheduling/dynamicresources"

	"verif/harness/ev"
)

// C17b: the DRA half of C17.  The real dynamicresources.Allocator is driven with the call protocol of the scheduler
// (NodeClaim.CanAdd / Add and ExistingNode.CanAdd / Add: Allocate, maybe Commit, ReleaseInstanceType for the instance
// types the NodeClaim dropped) over generated ResourceSlice / ResourceClaim / instance-type-template populations, and
// after every step the allocator's observable result (ResourceClaimAllocationMetadata, what Results reports as
// DRAClaimAllocationMetadata) is judged against device exclusivity, consumable capacity and shared counters for every
// instance type a NodeClaim can still become.

const (
	c17bGPU  = "gpu.example.com"
	c17bNIC  = "nic.example.com"
	c17bZone = corev1.LabelTopologyZone
)

type c17bDevice struct {
	Name   string `json:"name"`
	Model  string `json:"model"`
	Numa   int    `json:"numa"` // -1: attribute absent
	Multi  bool   `json:"multi,omitempty"`
	Mem    int    `json:"mem,omitempty"`    // capacity "mem" (0: no capacity)
	Policy string `json:"policy,omitempty"` // "", default2, range, values
	Slots  int    `json:"slots,omitempty"`  // consumes cs0/slots
	Units  int    `json:"units,omitempty"`  // consumes cs1/units
}

type c17bSlice struct {
	Scope   string       `json:"scope"` // all | zones | node
	Zones   []string     `json:"zones,omitempty"`
	Node    string       `json:"node,omitempty"`
	Devices []c17bDevice `json:"devices"`
}

type c17bPool struct {
	Driver       string      `json:"driver"`
	Name         string      `json:"name"`
	Slices       []c17bSlice `json:"slices"`
	CounterSlots int         `json:"counterSlots,omitempty"`
	CounterUnits int         `json:"counterUnits,omitempty"`
	Incomplete   bool        `json:"incomplete,omitempty"`
}

type c17bIT struct {
	Name         string       `json:"name"`
	Devices      []c17bDevice `json:"devices,omitempty"`
	CounterSlots int          `json:"counterSlots,omitempty"`
	CounterUnits int          `json:"counterUnits,omitempty"`
}

type c17bNC struct {
	Name        string   `json:"name"`
	NodeName    string   `json:"nodeName,omitempty"`
	ITs         []string `json:"its"`
	Zones       []string `json:"zones,omitempty"`
	Initialized bool     `json:"initialized,omitempty"`
}

type c17bReq struct {
	Name  string    `json:"name"`
	Class string    `json:"class,omitempty"`
	Model string    `json:"model,omitempty"`
	All   bool      `json:"all,omitempty"`
	Count int       `json:"count,omitempty"`
	Mem   int       `json:"mem,omitempty"`
	Subs  []c17bReq `json:"subs,omitempty"`
}

type c17bClaim struct {
	Name          string    `json:"name"`
	Reqs          []c17bReq `json:"reqs"`
	MatchNuma     bool      `json:"matchNuma,omitempty"`
	PreallocZones []string  `json:"preallocZones,omitempty"`
}

type c17bStep struct {
	NC     int   `json:"nc"`
	Claims []int `json:"claims"`
	Drop   []int `json:"drop,omitempty"` // positions (mod len) of surviving instance types that other filters remove
	Probe  bool  `json:"probe,omitempty"`
}

type c17bScenario struct {
	Pools        []c17bPool     `json:"pools"`
	ITs          []c17bIT       `json:"its"`
	NCs          []c17bNC       `json:"ncs"`
	Claims       []c17bClaim    `json:"claims"`
	PreExclusive []string       `json:"preExclusive,omitempty"` // driver/pool/device
	PreMem       map[string]int `json:"preMem,omitempty"`
	Steps        []c17bStep     `json:"steps"`
}

func c17bDrawDevice(t *rapid.T, name string, counters, units bool) c17bDevice {
	d := c17bDevice{Name: name, Model: rapid.SampledFrom([]string{"a", "a", "b"}).Draw(t, "model"), Numa: rapid.SampledFrom([]int{0, 0, 0, 1, 1, 1, -1}).Draw(t, "numa")}
	if dpct(t, 30, "multi") {
		d.Multi = true
		d.Mem = rapid.SampledFrom([]int{4, 8}).Draw(t, "mem")
		d.Policy = rapid.SampledFrom([]string{"", "", "default2", "range", "values"}).Draw(t, "policy")
	} else if counters && dpct(t, 70, "consumes") {
		d.Slots = rapid.IntRange(1, 2).Draw(t, "slots")
		if units && dpct(t, 70, "consumesUnits") {
			d.Units = rapid.IntRange(1, 3).Draw(t, "units")
		}
	}
	return d
}

func c17bSubset(t *rapid.T, xs []string, label string) []string {
	var out []string
	for _, x := range xs {
		if rapid.Bool().Draw(t, label+"-"+x) {
			out = append(out, x)
		}
	}
	if len(out) == 0 {
		out = []string{rapid.SampledFrom(xs).Draw(t, label+"-one")}
	}
	return out
}

// drawC17bDevices draws the device population and the claims (no NodeClaims, no steps).
func drawC17bDevices(t *rapid.T) *c17bScenario {
	zones := []string{"z1", "z2", "z3"}
	s := &c17bScenario{PreMem: map[string]int{}}
	for i := 0; i < rapid.IntRange(1, 3).Draw(t, "pools"); i++ {
		p := c17bPool{Driver: c17bGPU, Name: fmt.Sprintf("pool-%d", i)}
		if dpct(t, 12, "driver") {
			p.Driver = c17bNIC
		}
		if dpct(t, 35, "counters") {
			p.CounterSlots = rapid.IntRange(1, 4).Draw(t, "counterSlots")
			if dpct(t, 50, "secondCounterSet") {
				p.CounterUnits = rapid.IntRange(1, 6).Draw(t, "counterUnits")
			}
		}
		p.Incomplete = dpct(t, 3, "incomplete")
		dev := 0
		for j := 0; j < rapid.IntRange(1, 2).Draw(t, "slices"); j++ {
			sl := c17bSlice{Scope: rapid.SampledFrom([]string{"all", "all", "zones", "zones", "node"}).Draw(t, "scope")}
			switch sl.Scope {
			case "zones":
				sl.Zones = c17bSubset(t, zones, "sliceZones")
			case "node":
				sl.Node = "node-x"
			}
			for k := 0; k < rapid.IntRange(1, 4).Draw(t, "devices"); k++ {
				sl.Devices = append(sl.Devices, c17bDrawDevice(t, fmt.Sprintf("dev-%d", dev), p.CounterSlots > 0, p.CounterUnits > 0))
				dev++
			}
			p.Slices = append(p.Slices, sl)
		}
		// some devices are already allocated in the cluster (never beyond the pool's counters)
		left, leftUnits := p.CounterSlots, p.CounterUnits
		for _, sl := range p.Slices {
			for _, d := range sl.Devices {
				key := p.Driver + "/" + p.Name + "/" + d.Name
				if d.Multi {
					if dpct(t, 25, "preMem") {
						s.PreMem[key] = rapid.IntRange(1, d.Mem).Draw(t, "preMemQty")
					}
				} else if dpct(t, 12, "preExclusive") && d.Slots <= left && d.Units <= leftUnits {
					left -= d.Slots
					leftUnits -= d.Units
					s.PreExclusive = append(s.PreExclusive, key)
				}
			}
		}
		s.Pools = append(s.Pools, p)
	}
	for _, name := range []string{"it-a", "it-b", "it-c"} {
		it := c17bIT{Name: name}
		if dpct(t, 30, "templateCounters") {
			it.CounterSlots = rapid.IntRange(1, 3).Draw(t, "templateCounterSlots")
			if dpct(t, 50, "templateSecondCounterSet") {
				it.CounterUnits = rapid.IntRange(1, 5).Draw(t, "templateCounterUnits")
			}
		}
		for k := 0; k < rapid.IntRange(0, 3).Draw(t, "templateDevices"); k++ {
			it.Devices = append(it.Devices, c17bDrawDevice(t, fmt.Sprintf("tdev-%d", k), it.CounterSlots > 0, it.CounterUnits > 0))
		}
		s.ITs = append(s.ITs, it)
	}
	drawReq := func(name string, sub bool) c17bReq {
		r := c17bReq{Name: name, Class: rapid.SampledFrom([]string{"gpu", "gpu", "gpu", "gpu", "gpu", "any", "any", "nic"}).Draw(t, "class")}
		if dpct(t, 20, "selector") {
			r.Model = rapid.SampledFrom([]string{"a", "b"}).Draw(t, "selModel")
		}
		if !sub && dpct(t, 10, "all") {
			r.All = true
		} else {
			r.Count = rapid.SampledFrom([]int{1, 1, 1, 2}).Draw(t, "count")
		}
		if dpct(t, 35, "memReq") {
			r.Mem = rapid.SampledFrom([]int{1, 2, 3, 4, 6}).Draw(t, "memQty")
		}
		return r
	}
	for i := 0; i < rapid.IntRange(3, 7).Draw(t, "claims"); i++ {
		cl := c17bClaim{Name: fmt.Sprintf("claim-%d", i)}
		for j := 0; j < rapid.SampledFrom([]int{1, 1, 2}).Draw(t, "reqs"); j++ {
			name := fmt.Sprintf("req-%d", j)
			if dpct(t, 12, "firstAvailable") {
				cl.Reqs = append(cl.Reqs, c17bReq{Name: name, Subs: []c17bReq{drawReq("sub-0", true), drawReq("sub-1", true)}})
			} else {
				cl.Reqs = append(cl.Reqs, drawReq(name, false))
			}
		}
		cl.MatchNuma = dpct(t, 15, "matchNuma")
		if dpct(t, 8, "preallocated") {
			cl.PreallocZones = c17bSubset(t, zones, "preallocZones")
		}
		s.Claims = append(s.Claims, cl)
	}
	return s
}

func drawC17b(t *rapid.T) *c17bScenario {
	s := drawC17bDevices(t)
	zones := []string{"z1", "z2", "z3"}
	itNames := []string{"it-a", "it-b", "it-c"}
	for i := 0; i < rapid.IntRange(2, 4).Draw(t, "ncs"); i++ {
		nc := c17bNC{Name: fmt.Sprintf("nc-%d", i), ITs: rapid.Permutation(c17bSubset(t, itNames, "ncITs")).Draw(t, "ncITOrder")}
		if rapid.Bool().Draw(t, "ncZoned") {
			nc.Zones = c17bSubset(t, zones, "ncZones")
		}
		s.NCs = append(s.NCs, nc)
	}
	if rapid.Bool().Draw(t, "existing") {
		s.NCs = append(s.NCs, c17bNC{Name: "sim://node-x", NodeName: "node-x", ITs: []string{rapid.SampledFrom(itNames).Draw(t, "existingIT")}, Zones: []string{"z1"}, Initialized: dpct(t, 70, "initialized")})
	}
	for i := 0; i < rapid.IntRange(3, 14).Draw(t, "steps"); i++ {
		st := c17bStep{NC: rapid.IntRange(0, len(s.NCs)-1).Draw(t, "stepNC"), Probe: dpct(t, 10, "probe")}
		first := rapid.IntRange(0, len(s.Claims)-1).Draw(t, "stepClaim")
		st.Claims = []int{first}
		if dpct(t, 25, "twoClaims") {
			if second := rapid.IntRange(0, len(s.Claims)-1).Draw(t, "stepClaim2"); second != first {
				st.Claims = append(st.Claims, second)
			}
		}
		for k := 0; k < rapid.SampledFrom([]int{0, 0, 1, 1, 2}).Draw(t, "drops"); k++ {
			st.Drop = append(st.Drop, rapid.IntRange(0, 2).Draw(t, "drop"))
		}
		s.Steps = append(s.Steps, st)
	}
	return s
}

func c17bQty(n int) resource.Quantity { return *resource.NewQuantity(int64(n), resource.DecimalSI) }

func c17bZoneSelector(zones []string) *corev1.NodeSelector {
	return &corev1.NodeSelector{NodeSelectorTerms: []corev1.NodeSelectorTerm{{MatchExpressions: []corev1.NodeSelectorRequirement{{Key: c17bZone, Operator: corev1.NodeSelectorOpIn, Values: zones}}}}}
}

func c17bCapacity(d c17bDevice) map[resourcev1.QualifiedName]resourcev1.DeviceCapacity {
	if d.Mem == 0 {
		return nil
	}
	c := resourcev1.DeviceCapacity{Value: c17bQty(d.Mem)}
	two, one := c17bQty(2), c17bQty(1)
	switch d.Policy {
	case "default2":
		c.RequestPolicy = &resourcev1.CapacityRequestPolicy{Default: &two}
	case "range":
		c.RequestPolicy = &resourcev1.CapacityRequestPolicy{Default: &two, ValidRange: &resourcev1.CapacityRequestPolicyRange{Min: &two, Step: &two}}
	case "values":
		c.RequestPolicy = &resourcev1.CapacityRequestPolicy{Default: &one, ValidValues: []resource.Quantity{c17bQty(1), c17bQty(2), c17bQty(4), c17bQty(8)}}
	}
	return map[resourcev1.QualifiedName]resourcev1.DeviceCapacity{"mem": c}
}

func c17bAttributes(d c17bDevice) map[resourcev1.QualifiedName]resourcev1.DeviceAttribute {
	model := d.Model
	a := map[resourcev1.QualifiedName]resourcev1.DeviceAttribute{"model": {StringValue: &model}}
	if d.Numa >= 0 {
		numa := int64(d.Numa)
		a["numa"] = resourcev1.DeviceAttribute{IntValue: &numa}
	}
	return a
}

func c17bConsumes(d c17bDevice) []resourcev1.DeviceCounterConsumption {
	if d.Slots == 0 {
		return nil
	}
	out := []resourcev1.DeviceCounterConsumption{{CounterSet: "cs0", Counters: map[string]resourcev1.Counter{"slots": {Value: c17bQty(d.Slots)}}}}
	if d.Units > 0 {
		out = append(out, resourcev1.DeviceCounterConsumption{CounterSet: "cs1", Counters: map[string]resourcev1.Counter{"units": {Value: c17bQty(d.Units)}}})
	}
	return out
}

func c17bCounterSets(slots, units int) []resourcev1.CounterSet {
	out := []resourcev1.CounterSet{{Name: "cs0", Counters: map[string]resourcev1.Counter{"slots": {Value: c17bQty(slots)}}}}
	if units > 0 {
		out = append(out, resourcev1.CounterSet{Name: "cs1", Counters: map[string]resourcev1.Counter{"units": {Value: c17bQty(units)}}})
	}
	return out
}

// c17bNodeClaim is the harness' scheduling NodeClaim / ExistingNode as the allocator sees it (draNodeClaim / draExistingNode).
type c17bNodeClaim struct {
	spec      c17bNC
	its       []string
	reqs      scheduling.Requirements
	templates map[string][]dra.ResourceSlice
}

func (n *c17bNodeClaim) ID() dra.NodeClaimID                   { return unique.Make(n.spec.Name) }
func (n *c17bNodeClaim) NodeName() string                      { return n.spec.NodeName }
func (n *c17bNodeClaim) NodePoolID() dra.NodePoolID            { return unique.Make("np") }
func (n *c17bNodeClaim) Requirements() scheduling.Requirements { return n.reqs }
func (n *c17bNodeClaim) InstanceTypes() []dra.InstanceTypeID {
	out := make([]dra.InstanceTypeID, len(n.its))
	for i, it := range n.its {
		out[i] = unique.Make(it)
	}
	return out
}
func (n *c17bNodeClaim) ResourceSlices() map[dra.InstanceTypeID][]dra.ResourceSlice {
	out := map[dra.InstanceTypeID][]dra.ResourceSlice{}
	if n.spec.NodeName != "" && n.spec.Initialized {
		return out
	}
	for _, it := range n.its {
		out[unique.Make(it)] = n.templates[it]
	}
	return out
}

type c17bHolder struct{ nc, it, claim, req string }

// c17bWorld is the materialised device population of a scenario, shared by the allocator-level (C17b) and the
// whole-scheduler (C17c) checks.
type c17bWorld struct {
	s            *c17bScenario
	slices       []*resourcev1.ResourceSlice
	devices      map[string]c17bDevice // driver/pool/device
	poolOf       map[string]*c17bPool  // driver/pool
	tdevices     map[string]c17bDevice // it/device
	dynamic      map[string]cloudprovider.DynamicResources
	claims       []*resourcev1.ResourceClaim
	preExclusive map[string]bool
	preMem       map[string]int
}

func c17bClasses() []client.Object {
	return []client.Object{
		&resourcev1.DeviceClass{ObjectMeta: metav1.ObjectMeta{Name: "gpu"}, Spec: resourcev1.DeviceClassSpec{Selectors: []resourcev1.DeviceSelector{{CEL: &resourcev1.CELDeviceSelector{Expression: fmt.Sprintf("device.driver == %q", c17bGPU)}}}}},
		&resourcev1.DeviceClass{ObjectMeta: metav1.ObjectMeta{Name: "nic"}, Spec: resourcev1.DeviceClassSpec{Selectors: []resourcev1.DeviceSelector{{CEL: &resourcev1.CELDeviceSelector{Expression: fmt.Sprintf("device.driver == %q", c17bNIC)}}}}},
		&resourcev1.DeviceClass{ObjectMeta: metav1.ObjectMeta{Name: "any"}},
	}
}

func c17bDevID(key string) cloudprovider.DeviceID {
	parts := strings.Split(key, "/")
	return cloudprovider.DeviceID{Driver: unique.Make(parts[0]), Pool: unique.Make(parts[1]), Device: unique.Make(parts[2])}
}

func c17bBuild(s *c17bScenario) *c17bWorld {
	w := &c17bWorld{s: s, devices: map[string]c17bDevice{}, poolOf: map[string]*c17bPool{}, tdevices: map[string]c17bDevice{}, dynamic: map[string]cloudprovider.DynamicResources{}, preExclusive: map[string]bool{}, preMem: s.PreMem}
	for i := range s.Pools {
		p := &s.Pools[i]
		w.poolOf[p.Driver+"/"+p.Name] = p
		count := int64(len(p.Slices))
		if p.CounterSlots > 0 {
			count++
		}
		if p.Incomplete {
			count++
		}
		mk := func(name string) *resourcev1.ResourceSlice {
			return &resourcev1.ResourceSlice{ObjectMeta: metav1.ObjectMeta{Name: name}, Spec: resourcev1.ResourceSliceSpec{Driver: p.Driver, Pool: resourcev1.ResourcePool{Name: p.Name, Generation: 1, ResourceSliceCount: count}}}
		}
		if p.CounterSlots > 0 {
			rs := mk(p.Name + "-counters")
			rs.Spec.AllNodes = ptrTo(true)
			rs.Spec.SharedCounters = c17bCounterSets(p.CounterSlots, p.CounterUnits)
			w.slices = append(w.slices, rs)
		}
		for j, sl := range p.Slices {
			rs := mk(fmt.Sprintf("%s-%d", p.Name, j))
			switch sl.Scope {
			case "all":
				rs.Spec.AllNodes = ptrTo(true)
			case "zones":
				rs.Spec.NodeSelector = c17bZoneSelector(sl.Zones)
			case "node":
				rs.Spec.NodeName = ptrTo(sl.Node)
				rs.OwnerReferences = []metav1.OwnerReference{{APIVersion: "v1", Kind: "Node", Name: sl.Node, UID: "node-uid"}}
			}
			for _, d := range sl.Devices {
				w.devices[p.Driver+"/"+p.Name+"/"+d.Name] = d
				rs.Spec.Devices = append(rs.Spec.Devices, resourcev1.Device{Name: d.Name, Attributes: c17bAttributes(d), Capacity: c17bCapacity(d), AllowMultipleAllocations: ptrTo(d.Multi), ConsumesCounters: c17bConsumes(d)})
			}
			w.slices = append(w.slices, rs)
		}
	}
	for _, it := range s.ITs {
		var dyn cloudprovider.DynamicResources
		if it.CounterSlots > 0 {
			dyn.ResourceSliceTemplates = append(dyn.ResourceSliceTemplates, &cloudprovider.ResourceSliceTemplate{Driver: unique.Make(c17bGPU), Pool: cloudprovider.ResourcePool{Name: unique.Make("tmpl")}, SharedCounters: c17bCounterSets(it.CounterSlots, it.CounterUnits)})
		}
		if len(it.Devices) > 0 {
			tpl := &cloudprovider.ResourceSliceTemplate{Driver: unique.Make(c17bGPU), Pool: cloudprovider.ResourcePool{Name: unique.Make("tmpl")}}
			for _, d := range it.Devices {
				w.tdevices[it.Name+"/"+d.Name] = d
				tpl.Devices = append(tpl.Devices, cloudprovider.Device{Name: unique.Make(d.Name), Attributes: c17bAttributes(d), Capacity: c17bCapacity(d), AllowMultipleAllocations: d.Multi, ConsumesCounters: c17bConsumes(d)})
			}
			dyn.ResourceSliceTemplates = append(dyn.ResourceSliceTemplates, tpl)
		}
		w.dynamic[it.Name] = dyn
	}
	for _, k := range s.PreExclusive {
		w.preExclusive[k] = true
	}
	w.claims = make([]*resourcev1.ResourceClaim, len(s.Claims))
	for i, cl := range s.Claims {
		rc := &resourcev1.ResourceClaim{ObjectMeta: metav1.ObjectMeta{Name: cl.Name, Namespace: "default"}}
		var names []string
		mkSel := func(r c17bReq) []resourcev1.DeviceSelector {
			if r.Model == "" {
				return nil
			}
			driver := c17bGPU
			if r.Class == "nic" {
				driver = c17bNIC
			}
			return []resourcev1.DeviceSelector{{CEL: &resourcev1.CELDeviceSelector{Expression: fmt.Sprintf("device.attributes[%q].model == %q", driver, r.Model)}}}
		}
		mkCap := func(r c17bReq) *resourcev1.CapacityRequirements {
			if r.Mem == 0 {
				return nil
			}
			return &resourcev1.CapacityRequirements{Requests: map[resourcev1.QualifiedName]resource.Quantity{"mem": c17bQty(r.Mem)}}
		}
		for _, r := range cl.Reqs {
			names = append(names, r.Name)
			if len(r.Subs) > 0 {
				dr := resourcev1.DeviceRequest{Name: r.Name}
				for _, sub := range r.Subs {
					dr.FirstAvailable = append(dr.FirstAvailable, resourcev1.DeviceSubRequest{Name: sub.Name, DeviceClassName: sub.Class, Selectors: mkSel(sub), AllocationMode: resourcev1.DeviceAllocationModeExactCount, Count: int64(sub.Count), Capacity: mkCap(sub)})
				}
				rc.Spec.Devices.Requests = append(rc.Spec.Devices.Requests, dr)
				continue
			}
			ex := &resourcev1.ExactDeviceRequest{DeviceClassName: r.Class, Selectors: mkSel(r), AllocationMode: resourcev1.DeviceAllocationModeExactCount, Count: int64(r.Count), Capacity: mkCap(r)}
			if r.All {
				ex.AllocationMode, ex.Count = resourcev1.DeviceAllocationModeAll, 0
			}
			rc.Spec.Devices.Requests = append(rc.Spec.Devices.Requests, resourcev1.DeviceRequest{Name: r.Name, Exactly: ex})
		}
		if cl.MatchNuma {
			attr := resourcev1.FullyQualifiedName(c17bGPU + "/numa")
			rc.Spec.Devices.Constraints = []resourcev1.DeviceConstraint{{Requests: names, MatchAttribute: &attr}}
		}
		if len(cl.PreallocZones) > 0 {
			rc.Status.Allocation = &resourcev1.AllocationResult{NodeSelector: c17bZoneSelector(cl.PreallocZones)}
		}
		w.claims[i] = rc
	}
	return w
}

func execC17b(s *c17bScenario, c *ev.Ctx) {
	ctx := context.Background()
	wd := c17bBuild(s)
	var inCluster []dra.ResourceSlice
	for _, rs := range wd.slices {
		inCluster = append(inCluster, dra.NewAPIServerSlice(rs))
	}
	templates := map[string][]dra.ResourceSlice{}
	var cpITs []*cloudprovider.InstanceType
	for _, it := range s.ITs {
		cp := &cloudprovider.InstanceType{Name: it.Name, DynamicResources: wd.dynamic[it.Name]}
		for _, tpl := range cp.DynamicResources.ResourceSliceTemplates {
			templates[it.Name] = append(templates[it.Name], dra.NewTemplateSlice(tpl))
		}
		cpITs = append(cpITs, cp)
	}
	kube := fake.NewClientBuilder().WithScheme(clientgoscheme.Scheme).WithObjects(c17bClasses()...).Build()
	pre := dra.AllocatedDeviceState{ExclusiveDevices: sets.New[cloudprovider.DeviceID](), ConsumedCapacity: map[cloudprovider.DeviceID]map[resourcev1.QualifiedName]resource.Quantity{}}
	for _, k := range s.PreExclusive {
		pre.ExclusiveDevices.Insert(c17bDevID(k))
	}
	for k, q := range s.PreMem {
		pre.ConsumedCapacity[c17bDevID(k)] = map[resourcev1.QualifiedName]resource.Quantity{"mem": c17bQty(q)}
	}
	alloc := dra.NewAllocator(inCluster, pre, dra.BuildAttributeBindings(map[string][]*cloudprovider.InstanceType{"np": cpITs}), kube, nil)

	ncs := make([]*c17bNodeClaim, len(s.NCs))
	ncByName := map[string]*c17bNodeClaim{}
	for i, spec := range s.NCs {
		n := &c17bNodeClaim{spec: spec, its: append([]string{}, spec.ITs...), reqs: scheduling.NewRequirements(), templates: templates}
		if len(spec.Zones) > 0 {
			n.reqs.Add(scheduling.NewRequirement(c17bZone, corev1.NodeSelectorOpIn, spec.Zones...))
		}
		ncs[i] = n
		ncByName[spec.Name] = n
	}
	claims := wd.claims

	// ---- the observable result, and its judgement
	digest := func() string {
		var lines []string
		for id, meta := range alloc.ResourceClaimAllocationMetadata() {
			var its []string
			for it, devs := range meta.Devices {
				var ds []string
				for _, d := range devs {
					ds = append(ds, fmt.Sprintf("%s=%s:%v", d.RequestName.String(), d.DeviceID.String(), d.ConsumedCapacity))
				}
				sort.Strings(ds)
				its = append(its, it.Value()+"["+strings.Join(ds, " ")+"]")
			}
			sort.Strings(its)
			lines = append(lines, fmt.Sprintf("%s@%s tmpl=%v %s reqs=%v", id.Value().Name, meta.NodeClaimID.Value(), meta.UsedTemplateDevices, strings.Join(its, ";"), meta.TotalRequirements.String()))
		}
		sort.Strings(lines)
		return strings.Join(lines, "\n")
	}
	// ---- the steps: the scheduler's call protocol
	commits, releases, failed := 0, 0, 0
	contested := false
	for i, st := range s.Steps {
		n := ncs[st.NC]
		var podClaims []*resourcev1.ResourceClaim
		var names []string
		for _, ci := range st.Claims {
			podClaims = append(podClaims, claims[ci])
			names = append(names, claims[ci].Name)
		}
		what := fmt.Sprintf("step %d (pod with %v on %s, instance types %v)", i, names, n.spec.Name, n.its)
		before := digest()
		res, err := alloc.Allocate(ctx, n, podClaims)
		if got := digest(); got != before {
			c.Violate("allocate-not-read-only", "%s: Allocate changed the committed allocations before any Commit:\n%s\n-- became --\n%s", what, before, got)
			return
		}
		if err != nil {
			failed++
			c.Class("allocate:error")
			c.Class("err:" + c17bErrKind(err))
			continue
		}
		if len(res.InstanceTypes) == 0 {
			c.Violate("allocate:no-instance-types", "%s: Allocate succeeded with no instance type", what)
			continue
		}
		if n.spec.NodeName == "" {
			// NodeClaim.CanAdd: merge the contributed requirements, keep the instance types the allocation supports and
			// that the other filters (drawn) keep
			if !n.reqs.IsCompatible(res.Requirements, scheduling.AllowUndefinedWellKnownLabels) {
				c.Class("allocate:requirements-incompatible")
				continue
			}
			supported := map[string]bool{}
			for _, it := range res.InstanceTypes {
				supported[it.Value()] = true
			}
			var remaining []string
			for _, it := range n.its {
				if supported[it] {
					remaining = append(remaining, it)
				}
			}
			for _, d := range st.Drop {
				if len(remaining) > 1 {
					k := d % len(remaining)
					remaining = append(remaining[:k:k], remaining[k+1:]...)
				}
			}
			if len(remaining) == 0 {
				c.Class("allocate:no-instance-type-left")
				continue
			}
			if st.Probe {
				c.Class("allocate:not-committed")
				continue
			}
			// NodeClaim.Add
			reqs := scheduling.NewRequirements(n.reqs.Values()...)
			reqs.Add(res.Requirements.Values()...)
			n.reqs = reqs
			if res.Allocation != nil {
				res.Allocation.Commit(ctx)
				commits++
				kept := sets.New(remaining...)
				var pruned []dra.InstanceTypeID
				for _, it := range res.InstanceTypes {
					if !kept.Has(it.Value()) {
						pruned = append(pruned, it)
					}
				}
				if len(pruned) > 0 {
					alloc.ReleaseInstanceType(ctx, n.ID(), pruned...)
					releases++
				}
			}
			n.its = remaining
		} else {
			if st.Probe {
				c.Class("allocate:not-committed")
				continue
			}
			// ExistingNode.Add
			if res.Allocation != nil {
				res.Allocation.Commit(ctx)
				commits++
			}
		}
		if wd.judge(c, what, alloc.ResourceClaimAllocationMetadata(), func(name string) ([]string, bool) {
			n, ok := ncByName[name]
			if !ok {
				return nil, false
			}
			return n.its, true
		}) {
			contested = true
		}
		if len(c.Violations()) > 0 {
			return
		}
	}
	c.ClassIf(commits >= 2, "two_commits")
	c.ClassIf(releases > 0, "release")
	c.ClassIf(failed > 0, "allocate_failed")
	c.ClassIf(contested, "contested_pool")
	c.NTIf(commits >= 2 && contested)
	c.Sample(map[string]any{"pools": len(s.Pools), "claims": len(s.Claims), "steps": len(s.Steps), "commits": commits, "releases": releases, "failed": failed})
}

// judge checks exclusivity, consumable capacity and counters over the allocator's observable result. itsOf returns the
// instance types the named NodeClaim (or existing node) can still become.
func (w *c17bWorld) judge(c *ev.Ctx, after string, metadata map[dra.ResourceClaimID]*dra.ResourceClaimAllocationMetadata, itsOf func(string) ([]string, bool)) (contested bool) {

	exclusive := map[string][]c17bHolder{}          // in-cluster device -> holders
	texclusive := map[string][]c17bHolder{}         // nc|it|device -> holders
	mem := map[string]map[string]map[string]int64{} // in-cluster device -> nc -> it -> consumed
	tmem := map[string]int64{}                      // nc|it|device -> consumed
	slots := map[string]map[string]map[string]int{} // pool -> nc -> it -> slots
	tslots := map[string]int{}                      // nc|it -> slots
	claimsOnPool := map[string]map[string]bool{}
	for id, meta := range metadata {
		ncName := meta.NodeClaimID.Value()
		ncITs, known := itsOf(ncName)
		if !known {
			c.Violate("metadata:unknown-nodeclaim", "%s: claim %s is recorded for NodeClaim %q, which does not exist", after, id.Value().Name, meta.NodeClaimID.Value())
			continue
		}
		for _, it := range ncITs {
			devs, ok := meta.Devices[unique.Make(it)]
			if !ok || len(devs) == 0 {
				c.Violate("claim-without-devices-for-surviving-instance-type", "%s: claim %s is allocated for NodeClaim %s, which can still become %s, but holds no device for that instance type (has %v)", after, id.Value().Name, ncName, it, c17bITKeys(meta))
				continue
			}
			for _, d := range devs {
				h := c17bHolder{nc: ncName, it: it, claim: id.Value().Name, req: d.RequestName.String()}
				pool := d.DeviceID.Driver.Value() + "/" + d.DeviceID.Pool.Value()
				key := pool + "/" + d.DeviceID.Device.Value()
				if d.DeviceID.Template {
					spec, ok := w.tdevices[it+"/"+d.DeviceID.Device.Value()]
					if !ok {
						c.Violate("template-device-of-other-instance-type", "%s: claim %s holds template device %s under instance type %s, which has no such device", after, h.claim, key, it)
						continue
					}
					tkey := ncName + "|" + it + "|" + d.DeviceID.Device.Value()
					if spec.Multi {
						q := d.ConsumedCapacity["mem"]
						tmem[tkey] += q.Value()
					} else {
						texclusive[tkey] = append(texclusive[tkey], h)
					}
					tslots[ncName+"|"+it+"|cs0"] += spec.Slots
					tslots[ncName+"|"+it+"|cs1"] += spec.Units
					pk := "tmpl:" + ncName + "|" + it
					if claimsOnPool[pk] == nil {
						claimsOnPool[pk] = map[string]bool{}
					}
					claimsOnPool[pk][h.claim] = true
					continue
				}
				spec, ok := w.devices[key]
				if !ok {
					c.Violate("unknown-device", "%s: claim %s holds device %s, which no ResourceSlice publishes", after, h.claim, key)
					continue
				}
				if claimsOnPool[pool] == nil {
					claimsOnPool[pool] = map[string]bool{}
				}
				claimsOnPool[pool][h.claim] = true
				if spec.Multi {
					if mem[key] == nil {
						mem[key] = map[string]map[string]int64{}
					}
					if mem[key][h.nc] == nil {
						mem[key][h.nc] = map[string]int64{}
					}
					q := d.ConsumedCapacity["mem"]
					mem[key][h.nc][it] += q.Value()
				} else {
					exclusive[key] = append(exclusive[key], h)
				}
				for set, n := range map[string]int{"cs0": spec.Slots, "cs1": spec.Units} {
					if n == 0 {
						continue
					}
					k := pool + "#" + set
					if slots[k] == nil {
						slots[k] = map[string]map[string]int{}
					}
					if slots[k][h.nc] == nil {
						slots[k][h.nc] = map[string]int{}
					}
					slots[k][h.nc][it] += n
				}
			}
		}
	}
	for _, m := range claimsOnPool {
		if len(m) >= 2 {
			contested = true
		}
	}
	for _, key := range sortedKeys(exclusive) {
		hs := exclusive[key]
		if w.preExclusive[key] {
			c.Violate("exclusive-device:already-allocated-in-cluster", "%s: device %s is allocated in the cluster already and was handed out again: %+v", after, key, hs)
		}
		perIT := map[string][]c17bHolder{}
		owners := map[string]bool{}
		for _, h := range hs {
			owners[h.nc] = true
			perIT[h.nc+"|"+h.it] = append(perIT[h.nc+"|"+h.it], h)
		}
		if len(owners) > 1 {
			c.Violate("exclusive-device:two-nodeclaims", "%s: exclusive device %s is assigned on behalf of %d NodeClaims: %+v", after, key, len(owners), hs)
		}
		for _, k := range sortedKeys(perIT) {
			if group := perIT[k]; len(group) > 1 {
				sig := "exclusive-device:two-claims"
				if group[0].claim == group[1].claim {
					sig = "exclusive-device:twice-in-one-claim"
				}
				c.Violate(sig, "%s: exclusive device %s is assigned %d times for %s: %+v", after, key, len(group), k, group)
			}
		}
	}
	for _, key := range sortedKeys(texclusive) {
		if group := texclusive[key]; len(group) > 1 {
			sig := "template-device:two-claims"
			if group[0].claim == group[1].claim {
				sig = "template-device:twice-in-one-claim"
			}
			c.Violate(sig, "%s: exclusive template device %s is assigned %d times: %+v", after, key, len(group), group)
		}
	}
	for _, key := range sortedKeys(mem) {
		total := int64(w.preMem[key])
		for _, byIT := range mem[key] {
			worst := int64(0)
			for _, q := range byIT {
				worst = max(worst, q)
			}
			total += worst
		}
		if total > int64(w.devices[key].Mem) {
			c.Violate("shared-device:capacity-over-consumed", "%s: shared device %s has capacity %d, but %d is consumed in the worst instance-type outcome (in-cluster %d, per NodeClaim and instance type %v)", after, key, w.devices[key].Mem, total, w.preMem[key], mem[key])
		}
	}
	for _, key := range sortedKeys(tmem) {
		parts := strings.Split(key, "|")
		if spec := w.tdevices[parts[1]+"/"+parts[2]]; tmem[key] > int64(spec.Mem) {
			c.Violate("template-device:capacity-over-consumed", "%s: shared template device %s has capacity %d, but %d is consumed", after, key, spec.Mem, tmem[key])
		}
	}
	for _, poolSet := range sortedKeys(slots) {
		pool, set, _ := strings.Cut(poolSet, "#")
		budget := w.poolOf[pool].CounterSlots
		if set == "cs1" {
			budget = w.poolOf[pool].CounterUnits
		}
		for _, k := range sortedKeys(w.preExclusive) {
			if w.preExclusive[k] && strings.HasPrefix(k, pool+"/") {
				if set == "cs1" {
					budget -= w.devices[k].Units
				} else {
					budget -= w.devices[k].Slots
				}
			}
		}
		total := 0
		for _, byIT := range slots[poolSet] {
			worst := 0
			for _, q := range byIT {
				worst = max(worst, q)
			}
			total += worst
		}
		if total > budget {
			c.Violate("counters:over-consumed", "%s: counter set %s of pool %s has %d left after in-cluster allocations, but %d are consumed in the worst instance-type outcome (%v)", after, set, pool, budget, total, slots[poolSet])
		}
	}
	for _, key := range sortedKeys(tslots) {
		parts := strings.Split(key, "|")
		for _, spec := range w.s.ITs {
			budget := spec.CounterSlots
			if parts[2] == "cs1" {
				budget = spec.CounterUnits
			}
			if spec.Name == parts[1] && tslots[key] > budget {
				c.Violate("template-counters:over-consumed", "%s: counter set %s of the template pool of %s|%s has %d, but %d are consumed", after, parts[2], parts[0], parts[1], budget, tslots[key])
			}
		}
	}
	return contested
}

func c17bErrKind(err error) string {
	m := err.Error()
	for _, k := range []string{"no instance type can satisfy", "incompatible with NodeClaim", "different in-flight NodeClaim", "not found", "failed to compile", "is invalid", "is incomplete", "exceeding maximum", "all instance types pruned", "evaluation failed", "deadline"} {
		if strings.Contains(m, k) {
			return k
		}
	}
	return "other:" + m
}

func c17bITKeys(meta *dra.ResourceClaimAllocationMetadata) []string {
	var out []string
	for it := range meta.Devices {
		out = append(out, it.Value())
	}
	sort.Strings(out)
	return out
}

func sortedKeys[V any](m map[string]V) []string {
	out := make([]string, 0, len(m))
	for k := range m {
		out = append(out, k)
	}
	sort.Strings(out)
	return out
}

var propC17b = ev.Prop[c17bScenario]{
	ID: "C17", Test: "TestC17b", Level: "exploration",
	Rule: "rapid draws a DRA world (1-3 published pools of 1-2 ResourceSlices scoped to all nodes / zones / one node, exclusive and multi-allocatable devices with capacity and request policies, shared counters, devices already allocated in the cluster, three instance types with template devices and template counters, 2-4 in-flight NodeClaims over instance-type subsets plus an optional existing node, 3-7 ResourceClaims with ExactCount / All / FirstAvailable requests, CEL selectors, capacity requests, matchAttribute constraints, some allocated in the cluster already) and 3-12 pod placements; " +
		"each placement drives the REAL dynamicresources.Allocator with the scheduler's protocol (Allocate; on success merge requirements, intersect instance types with the result and with drawn other filters, Commit, ReleaseInstanceType for the dropped ones; or no Commit at all); " +
		"oracle after every step over ResourceClaimAllocationMetadata (what Results reports) and the instance types each NodeClaim can still become: an exclusive published device is held for one NodeClaim only, once per instance type, and never if the cluster already allocated it; an exclusive template device once per NodeClaim and instance type; a shared device's consumed capacity (in-cluster + sum over NodeClaims of the worst instance type) stays within its capacity; shared counters likewise; every allocated claim holds devices for each surviving instance type; Allocate without Commit leaves the result unchanged; " +
		"non-trivial = at least two commits and two claims holding devices of one pool",
	Assumptions: []string{"allocator-level: the scheduler around it is replaced by its call protocol (NodeClaim.CanAdd/Add, ExistingNode.CanAdd/Add)", "counter-consuming devices are exclusive", "no deleting pods / reservedFor handling"},
	Draw:        drawC17b, Exec: execC17b, ReplayTries: 3,
}

func TestC17b(t *testing.T) { ev.Run(t, propC17b) }
