package harness

import (
	"fmt"
	"reflect"
	"testing"

	corev1 "k8s.io/api/core/v1"
	resourcev1 "k8s.io/api/resource/v1"
	"k8s.io/apimachinery/pkg/api/resource"
	metav1 "k8s.io/apimachinery/pkg/apis/meta/v1"
	"k8s.io/apimachinery/pkg/types"
	"pgregory.net/rapid"
	"unique"

	v1 "sigs.k8s.io/karpenter/pkg/apis/v1"
	"sigs.k8s.io/karpenter/pkg/cloudprovider"
	"sigs.k8s.io/karpenter/pkg/controllers/dynamicresources/deviceallocation"
	"sigs.k8s.io/karpenter/pkg/controllers/provisioning"
	dra "sigs.k8s.io/karpenter/pkg/scheduling/dynamicresources"
	"sigs.k8s.io/karpenter/pkg/state/virtualpods"

	"verif/harness/ev"
	"verif/harness/sim"
)

// C17c: the DRA half of C17 through the whole provisioning pass.  The device population, claims and in-cluster
// allocations of C17b become API objects (ResourceSlices, DeviceClasses, ResourceClaims, allocated claims reserved for
// running pods), instance types carry the device templates, pending pods reference the claims, and the REAL
// Provisioner.Schedule (DRA enabled) runs: gatherResourceSlices, gatherAllocatedDevices over the real deviceallocation
// controller, the scheduler's NodeClaim / ExistingNode glue around the allocator.  The oracle of C17b judges
// Results.DRAClaimAllocationMetadata against the instance types each resulting NodeClaim can still be launched as.

type c17cPod struct {
	Claims []int  `json:"claims,omitempty"`
	CPU    string `json:"cpu"`
	Zone   string `json:"zone,omitempty"`
	IT     string `json:"it,omitempty"`
}

type c17cScenario struct {
	D *c17bScenario `json:"d"`
	// Existing: "" (no node), initialized, registered (not initialized yet: its devices are template devices)
	Existing   string    `json:"existing,omitempty"`
	ExistingIT string    `json:"existingIT,omitempty"`
	Pods       []c17cPod `json:"pods"`
	// Prices: per instance type; CPUs: per instance type
	Unavailable []string `json:"unavailable,omitempty"` // it@zone offerings that are not available
	// DeletingNode: a second node (node-y) is marked for deletion; holds whose consumers all run there are released
	DeletingNode bool `json:"deletingNode,omitempty"`
	// Holds: per device allocated in the cluster, the claims holding it
	Holds map[string][]c17cHold `json:"holds,omitempty"`
}

// c17cHold is one allocated ResourceClaim holding (a share of) a device: reserved for a live pod, for a pod on the
// deleting node, or for one of each.
type c17cHold struct {
	Qty  int    `json:"qty,omitempty"` // consumed capacity (shared devices)
	Kind string `json:"kind"`          // live | deleting | mixed
}

func drawC17c(t *rapid.T) *c17cScenario {
	s := &c17cScenario{D: drawC17bDevices(t)}
	if dpct(t, 60, "existing") {
		s.Existing = "initialized"
		if dpct(t, 30, "uninitialized") {
			s.Existing = "registered"
		}
		s.ExistingIT = rapid.SampledFrom([]string{"it-a", "it-b", "it-c"}).Draw(t, "existingIT")
	}
	for i := 0; i < rapid.IntRange(2, 9).Draw(t, "pods"); i++ {
		p := c17cPod{CPU: rapid.SampledFrom([]string{"250m", "500m", "500m", "1", "1500m", "3"}).Draw(t, "cpu")}
		if dpct(t, 85, "hasClaim") {
			first := rapid.IntRange(0, len(s.D.Claims)-1).Draw(t, "claim")
			p.Claims = []int{first}
			if dpct(t, 25, "twoClaims") {
				if second := rapid.IntRange(0, len(s.D.Claims)-1).Draw(t, "claim2"); second != first {
					p.Claims = append(p.Claims, second)
				}
			}
		}
		if dpct(t, 25, "zoned") {
			p.Zone = rapid.SampledFrom([]string{"z1", "z2", "z3"}).Draw(t, "zone")
		}
		if dpct(t, 15, "typed") {
			p.IT = rapid.SampledFrom([]string{"it-a", "it-b", "it-c"}).Draw(t, "it")
		}
		s.Pods = append(s.Pods, p)
	}
	s.DeletingNode = dpct(t, 40, "deletingNode")
	s.Holds = map[string][]c17cHold{}
	kind := func() string {
		if !s.DeletingNode {
			return "live"
		}
		return rapid.SampledFrom([]string{"live", "deleting", "deleting", "mixed"}).Draw(t, "holdKind")
	}
	for _, k := range s.D.PreExclusive {
		s.Holds[k] = []c17cHold{{Kind: kind()}}
	}
	for _, k := range sortedKeys(s.D.PreMem) {
		q := s.D.PreMem[k]
		if q >= 2 && rapid.Bool().Draw(t, "splitHold") {
			first := rapid.IntRange(1, q-1).Draw(t, "splitQty")
			s.Holds[k] = []c17cHold{{Qty: first, Kind: kind()}, {Qty: q - first, Kind: kind()}}
		} else {
			s.Holds[k] = []c17cHold{{Qty: q, Kind: kind()}}
		}
	}
	for _, it := range []string{"it-a", "it-b", "it-c"} {
		for _, z := range []string{"z1", "z2", "z3"} {
			if dpct(t, 12, "unavailable") {
				s.Unavailable = append(s.Unavailable, it+"@"+z)
			}
		}
	}
	return s
}

var c17cTypes = []struct {
	name, cpu string
	price     float64
}{{"it-a", "4", 1.0}, {"it-b", "8", 2.0}, {"it-c", "2", 0.5}}

func execC17c(s *c17cScenario, c *ev.Ctx) {
	wd := c17bBuild(s.D)
	opts := sim.DefaultOptions()
	opts.IgnoreDRARequests = false
	w := sim.New(sim.Options{Karpenter: opts})
	w.ApplyNodeClass()
	unavailable := map[string]bool{}
	for _, u := range s.Unavailable {
		unavailable[u] = true
	}
	var catalog []sim.ITSpec
	for _, ty := range c17cTypes {
		it := sim.ITSpec{Name: ty.name, Arch: "amd64", OS: []string{"linux"}, Family: "f", Gen: "1", Capacity: map[string]string{"cpu": ty.cpu, "memory": "32Gi", "pods": "20"}}
		for _, z := range []string{"z1", "z2", "z3"} {
			it.Offerings = append(it.Offerings, sim.OfferingSpec{Zone: z, CapacityType: "on-demand", Price: ty.price, Available: !unavailable[ty.name+"@"+z]})
		}
		catalog = append(catalog, it)
	}
	w.Provider.Default = catalog
	w.Provider.Decorate = func(it *cloudprovider.InstanceType) { it.DynamicResources = wd.dynamic[it.Name] }
	np := &v1.NodePool{ObjectMeta: metav1.ObjectMeta{Name: "np", UID: "pool-uid-np"}}
	np.Spec.Template.Spec.ExpireAfter = v1.MustParseNillableDuration("Never")
	pool := w.ApplyPool(np)
	w.Apply(c17bClasses()...)

	itsOf := map[string][]string{}
	if s.Existing != "" {
		stage := sim.StageInitialized
		if s.Existing == "registered" {
			stage = sim.StageRegistered
		}
		bn := w.ApplyNode(sim.NodeSpec{Name: "node-x", Pool: "np", TypeName: s.ExistingIT, Zone: "z1", CT: "on-demand", Stage: stage, AgeSeconds: 600}, pool)
		if bn == nil || bn.Node == nil {
			c.Class("existing_node_not_built")
		} else {
			itsOf[bn.Node.Spec.ProviderID] = []string{s.ExistingIT}
		}
	}
	for _, rs := range wd.slices {
		w.Apply(rs.DeepCopy())
	}
	for _, rc := range wd.claims {
		w.Apply(rc.DeepCopy())
	}
	// in-cluster allocations: claims allocated to running pods; some of those pods run on a node that is being deleted
	var deletingNode *sim.BuiltNode
	if s.DeletingNode {
		deletingNode = w.ApplyNode(sim.NodeSpec{Name: "node-y", Pool: "np", TypeName: "it-a", Zone: "z2", CT: "on-demand", Stage: sim.StageInitialized, AgeSeconds: 900}, pool)
	}
	podClaims := map[string][]string{}
	held, released := 0, 0
	stillAllocated := map[string]bool{} // held claims that keep their in-cluster allocation (a live consumer remains)
	wd.preExclusive, wd.preMem = map[string]bool{}, map[string]int{}
	for _, key := range sortedKeys(s.Holds) {
		id := c17bDevID(key)
		for _, h := range s.Holds[key] {
			held++
			res := resourcev1.DeviceRequestAllocationResult{Request: "r0", Driver: id.Driver.Value(), Pool: id.Pool.Value(), Device: id.Device.Value()}
			if h.Qty > 0 {
				res.ConsumedCapacity = map[resourcev1.QualifiedName]resource.Quantity{"mem": c17bQty(h.Qty)}
				res.ShareID = ptrTo(types.UID(fmt.Sprintf("share-%d", held)))
			}
			name := fmt.Sprintf("held-%d", held)
			rc := &resourcev1.ResourceClaim{ObjectMeta: metav1.ObjectMeta{Name: name, Namespace: "default"}}
			rc.Spec.Devices.Requests = []resourcev1.DeviceRequest{{Name: "r0", Exactly: &resourcev1.ExactDeviceRequest{DeviceClassName: "any", AllocationMode: resourcev1.DeviceAllocationModeExactCount, Count: 1}}}
			if h.Qty > 0 {
				rc.Spec.Devices.Requests[0].Exactly.Capacity = &resourcev1.CapacityRequirements{Requests: map[resourcev1.QualifiedName]resource.Quantity{"mem": c17bQty(h.Qty)}}
			}
			rc.Status.Allocation = &resourcev1.AllocationResult{Devices: resourcev1.DeviceAllocationResult{Results: []resourcev1.DeviceRequestAllocationResult{res}}}
			kind := h.Kind
			if deletingNode == nil || deletingNode.Node == nil {
				kind = "live"
			}
			if kind == "live" || kind == "mixed" {
				rc.Status.ReservedFor = append(rc.Status.ReservedFor, resourcev1.ResourceClaimConsumerReference{Resource: "pods", Name: fmt.Sprintf("holder-%d", held), UID: types.UID(fmt.Sprintf("holder-uid-%d", held))})
			}
			if kind == "deleting" || kind == "mixed" {
				// a running pod on the node that is being deleted; it is rescheduled by this pass together with its claim
				hp := &corev1.Pod{ObjectMeta: metav1.ObjectMeta{Name: fmt.Sprintf("migrating-%d", held), Namespace: "default", UID: types.UID(fmt.Sprintf("migrating-uid-%d", held)), Labels: map[string]string{"app": "m"}},
					Spec: corev1.PodSpec{Containers: []corev1.Container{{Name: "c", Image: "img", Resources: corev1.ResourceRequirements{Requests: corev1.ResourceList{corev1.ResourceCPU: resource.MustParse("250m"), corev1.ResourceMemory: resource.MustParse("128Mi")}, Claims: []corev1.ResourceClaim{{Name: "rc0"}}}}},
						ResourceClaims: []corev1.PodResourceClaim{{Name: "rc0", ResourceClaimName: &name}}}}
				w.Apply(sim.Bound(hp, "node-y"))
				podClaims[hp.Name] = []string{name}
				rc.Status.ReservedFor = append(rc.Status.ReservedFor, resourcev1.ResourceClaimConsumerReference{Resource: "pods", Name: hp.Name, UID: hp.UID})
			}
			w.Apply(rc)
			stillAllocated[name] = kind != "deleting"
			if kind == "deleting" {
				released++
				continue // every consumer is migrating: the device (or this share of it) is free again
			}
			if h.Qty > 0 {
				wd.preMem[key] += h.Qty
			} else {
				wd.preExclusive[key] = true
			}
		}
	}
	for i, ps := range s.Pods {
		p := &corev1.Pod{ObjectMeta: metav1.ObjectMeta{Name: fmt.Sprintf("pending-%02d", i), Namespace: "default", UID: types.UID(fmt.Sprintf("pending-uid-%02d", i)), Labels: map[string]string{"app": "a"}},
			Spec: corev1.PodSpec{Containers: []corev1.Container{{Name: "c", Image: "img", Resources: corev1.ResourceRequirements{Requests: corev1.ResourceList{corev1.ResourceCPU: resource.MustParse(ps.CPU), corev1.ResourceMemory: resource.MustParse("128Mi")}}}}}}
		if ps.Zone != "" || ps.IT != "" {
			p.Spec.NodeSelector = map[string]string{}
			if ps.Zone != "" {
				p.Spec.NodeSelector[corev1.LabelTopologyZone] = ps.Zone
			}
			if ps.IT != "" {
				p.Spec.NodeSelector[corev1.LabelInstanceTypeStable] = ps.IT
			}
		}
		for j, ci := range ps.Claims {
			name := s.D.Claims[ci].Name
			ref := fmt.Sprintf("rc%d", j)
			p.Spec.ResourceClaims = append(p.Spec.ResourceClaims, corev1.PodResourceClaim{Name: ref, ResourceClaimName: &name})
			p.Spec.Containers[0].Resources.Claims = append(p.Spec.Containers[0].Resources.Claims, corev1.ResourceClaim{Name: ref})
			podClaims[p.Name] = append(podClaims[p.Name], name)
		}
		w.Apply(sim.Unschedulable(p))
	}
	w.Sync()
	if deletingNode != nil && deletingNode.NodeClaim != nil {
		w.Cluster.MarkForDeletion(deletingNode.NodeClaim.Status.ProviderID)
	}
	devices := deviceallocation.NewController(w.Client)
	w.Quiet(func() { devices.Hydrate(w.Ctx) }) // what the controller's first reconcile does; AllocatedDevices blocks until then
	prov := provisioning.NewProvisioner(w.Client, w.Recorder, w.Provider, w.Cluster, w.Clock, devices, virtualpods.NewVirtualPodCache(w.Client))
	var results = struct {
		err error
	}{}
	var meta map[dra.ResourceClaimID]*dra.ResourceClaimAllocationMetadata
	placedWithClaims, claimsCommitted, migrated := 0, 0, 0
	w.Quiet(func() {
		res, err := prov.Schedule(w.Ctx)
		results.err = err
		if err != nil {
			return
		}
		for _, nc := range res.NewNodeClaims {
			host := reflect.ValueOf(nc).Elem().FieldByName("hostname").String()
			var its []string
			for _, it := range nc.InstanceTypeOptions {
				its = append(its, it.Name)
			}
			itsOf[host] = its
			for _, p := range nc.Pods {
				if len(podClaims[p.Name]) > 0 {
					placedWithClaims++
				}
			}
		}
		for _, en := range res.ExistingNodes {
			for _, p := range en.Pods {
				if len(podClaims[p.Name]) > 0 {
					placedWithClaims++
				}
			}
		}
		meta = map[dra.ResourceClaimID]*dra.ResourceClaimAllocationMetadata{}
		for k, m := range res.DRAClaimAllocationMetadata {
			meta[unique.Make(k)] = m
		}
		claimsCommitted = len(meta)
		// a placed pod's claims are all allocated: in the cluster already, or by this pass
		preallocated := stillAllocated
		for _, cl := range s.D.Claims {
			if len(cl.PreallocZones) > 0 {
				preallocated[cl.Name] = true
			}
		}
		check := func(where string, pods []*corev1.Pod) {
			for _, p := range pods {
				if p.Spec.NodeName != "" {
					migrated++
				}
				for _, name := range podClaims[p.Name] {
					if _, ok := res.DRAClaimAllocationMetadata[types.NamespacedName{Namespace: "default", Name: name}]; !ok && !preallocated[name] {
						c.Violate("pod-placed-without-device-allocation", "pod %s is placed on %s, but its claim %s was not allocated in this pass and is not allocated in the cluster", p.Name, where, name)
					}
				}
			}
		}
		for _, nc := range res.NewNodeClaims {
			check("a new NodeClaim", nc.Pods)
		}
		for _, en := range res.ExistingNodes {
			check("node "+en.Name(), en.Pods)
		}
	})
	if results.err != nil {
		c.Class("schedule_error")
		c.Logf("schedule error: %v", results.err)
		return
	}
	contested := wd.judge(c, "after the provisioning pass", meta, func(name string) ([]string, bool) {
		its, ok := itsOf[name]
		return its, ok
	})
	c.ClassIf(s.Existing != "", "existing_node:"+s.Existing)
	c.ClassIf(placedWithClaims > 0, "pod_with_claims_placed")
	c.ClassIf(claimsCommitted >= 2, "two_claims_allocated")
	c.ClassIf(contested, "contested_pool")
	c.ClassIf(held > 0, "devices_held_in_cluster")
	c.ClassIf(released > 0, "hold_released_by_deleting_pods")
	c.ClassIf(migrated > 0, "migrating_pod_placed")
	c.NTIf(claimsCommitted >= 2 && contested)
	c.Sample(map[string]any{"pods": len(s.Pods), "claims_allocated": claimsCommitted, "nodeclaims": len(itsOf), "held": held})
}

var propC17c = ev.Prop[c17cScenario]{
	ID: "C17", Test: "TestC17c", Level: "exploration",
	Rule: "the device population, claims and in-cluster allocations of TestC17b as API objects (ResourceSlices incl. node-owned ones, DeviceClasses, ResourceClaims, allocated claims reserved for running pods), three instance types with device templates and drawn unavailable offerings, an optional existing node (initialized or not), an optional node marked for deletion whose pods hold allocated claims, 2-9 pending pods of drawn size referencing 0-2 claims, some pinned to a zone or an instance type; the REAL Provisioner.Schedule with DRA enabled (real deviceallocation controller, gatherResourceSlices / gatherAllocatedDevices, scheduler glue, allocator); " +
		"oracle: TestC17b's exclusivity / capacity / counter judgement over Results.DRAClaimAllocationMetadata against the instance types every resulting NodeClaim (by its placeholder hostname) or existing node can still be, plus: every placed pod's claims are allocated (by the pass or in the cluster); " +
		"non-trivial = at least two claims allocated by the pass and two claims holding devices of one pool",
	Assumptions: []string{"one NodePool, on-demand offerings only", "holders of in-cluster allocations are live pods, pods on a node marked for deletion (hold released, claim re-allocated by the pass), or one of each (hold stays)", "the placeholder hostname of a scheduling NodeClaim is read by reflection (no hook)"},
	Draw:        drawC17c, Exec: execC17c, ReplayTries: 5,
}

func TestC17c(t *testing.T) { ev.Run(t, propC17c) }
