package harness

import (
	"fmt"
	"sort"
	"strings"
	"testing"

	corev1 "k8s.io/api/core/v1"
	resourcev1 "k8s.io/api/resource/v1"
	"k8s.io/apimachinery/pkg/api/resource"
	metav1 "k8s.io/apimachinery/pkg/apis/meta/v1"
	"k8s.io/apimachinery/pkg/types"
	"pgregory.net/rapid"
	"sigs.k8s.io/controller-runtime/pkg/client"
	"sigs.k8s.io/controller-runtime/pkg/reconcile"

	"sigs.k8s.io/karpenter/pkg/controllers/dynamicresources/deviceallocation"

	"verif/harness/ev"
	"verif/harness/sim"
)

// C17d: the seed of the DRA half of C17.  "No exclusive device is assigned to two claims" is relative to what the
// cluster has already allocated, and Karpenter learns that from the deviceallocation controller's in-memory index of
// ResourceClaim allocations.  Generated histories of claim allocation / de-allocation / reservation changes / deletion
// are delivered to the REAL controller with arbitrary reconcile timing (stale deliveries, restarts that re-hydrate);
// once every claim's latest state has been delivered, AllocatedDevices() must equal a recomputation from the API.

type c17dOp struct {
	Kind    string `json:"kind"` // allocate | clear | reserve | delete | reconcile | restart
	Claim   int    `json:"claim"`
	Devices []int  `json:"devices,omitempty"`
	Shared  []int  `json:"shared,omitempty"` // consumed capacity per device (0 = exclusive)
	// Consumers: pod:<n> or other:<n>
	Consumers []string `json:"consumers,omitempty"`
}

type c17dScenario struct {
	Ops []c17dOp `json:"ops"`
}

func drawC17d(t *rapid.T) *c17dScenario {
	s := &c17dScenario{}
	n := rapid.IntRange(3, 24).Draw(t, "nOps")
	for i := 0; i < n; i++ {
		op := c17dOp{Kind: rapid.SampledFrom([]string{"allocate", "allocate", "allocate", "clear", "reserve", "reserve", "delete", "reconcile", "reconcile", "reconcile", "restart"}).Draw(t, "kind"), Claim: rapid.IntRange(0, 3).Draw(t, "claim")}
		switch op.Kind {
		case "allocate":
			for d := 0; d < 4; d++ {
				if dpct(t, 35, fmt.Sprintf("dev%d", d)) {
					op.Devices = append(op.Devices, d)
					q := 0
					if d >= 2 { // devices 2 and 3 are multi-allocatable
						q = rapid.IntRange(1, 4).Draw(t, "qty")
					}
					op.Shared = append(op.Shared, q)
				}
			}
		case "reserve":
			for j := 0; j < rapid.IntRange(0, 2).Draw(t, "nConsumers"); j++ {
				kind := "pod"
				if dpct(t, 15, "nonPod") {
					kind = "other"
				}
				op.Consumers = append(op.Consumers, fmt.Sprintf("%s:%d", kind, rapid.IntRange(0, 3).Draw(t, "consumer")))
			}
		}
		s.Ops = append(s.Ops, op)
	}
	return s
}

type c17dDevice struct {
	Releasable bool
	Pods       []string
	Shared     bool
	Consumed   int64
	Shares     []string // per contribution: qty@pods
}

func (d c17dDevice) String() string {
	return fmt.Sprintf("{releasable=%v pods=%v shared=%v consumed=%d shares=%v}", d.Releasable, d.Pods, d.Shared, d.Consumed, d.Shares)
}

func execC17d(s *c17dScenario, c *ev.Ctx) {
	w := sim.New(sim.Options{})
	ctrl := deviceallocation.NewController(w.Client)
	w.Quiet(func() { ctrl.Hydrate(w.Ctx) })
	name := func(i int) string { return fmt.Sprintf("claim-%d", i) }
	get := func(i int) *resourcev1.ResourceClaim {
		rc := &resourcev1.ResourceClaim{}
		var err error
		w.Quiet(func() { err = w.Client.Get(w.Ctx, client.ObjectKey{Namespace: "default", Name: name(i)}, rc) })
		if err != nil {
			return nil
		}
		return rc
	}
	reconcileClaim := func(i int) {
		w.Quiet(func() {
			_, _ = ctrl.Reconcile(w.Ctx, reconcile.Request{NamespacedName: types.NamespacedName{Namespace: "default", Name: name(i)}})
		})
	}
	dirty := map[int]bool{}
	restarts, deletes, reallocs := 0, 0, 0
	for _, op := range s.Ops {
		c.Class("op:" + op.Kind)
		switch op.Kind {
		case "allocate":
			rc := get(op.Claim)
			if rc == nil {
				rc = &resourcev1.ResourceClaim{ObjectMeta: metav1.ObjectMeta{Name: name(op.Claim), Namespace: "default"}}
			} else if rc.Status.Allocation != nil {
				reallocs++
			}
			rc.Status.Allocation = &resourcev1.AllocationResult{}
			for j, d := range op.Devices {
				res := resourcev1.DeviceRequestAllocationResult{Request: "r", Driver: "gpu.example.com", Pool: "pool", Device: fmt.Sprintf("dev-%d", d)}
				if op.Shared[j] > 0 {
					res.ConsumedCapacity = map[resourcev1.QualifiedName]resource.Quantity{"mem": *resource.NewQuantity(int64(op.Shared[j]), resource.DecimalSI)}
					res.ShareID = ptrTo(types.UID(fmt.Sprintf("share-%d-%d", op.Claim, d)))
				}
				rc.Status.Allocation.Devices.Results = append(rc.Status.Allocation.Devices.Results, res)
			}
			w.Apply(rc)
			dirty[op.Claim] = true
		case "clear":
			if rc := get(op.Claim); rc != nil {
				rc.Status.Allocation = nil
				rc.Status.ReservedFor = nil
				w.Apply(rc)
				dirty[op.Claim] = true
			}
		case "reserve":
			if rc := get(op.Claim); rc != nil {
				rc.Status.ReservedFor = nil
				for _, cs := range op.Consumers {
					kind, id, _ := strings.Cut(cs, ":")
					ref := resourcev1.ResourceClaimConsumerReference{Resource: "pods", Name: "pod-" + id, UID: types.UID("pod-uid-" + id)}
					if kind == "other" {
						ref = resourcev1.ResourceClaimConsumerReference{APIGroup: "batch.example.com", Resource: "jobs", Name: "job-" + id, UID: types.UID("job-uid-" + id)}
					}
					rc.Status.ReservedFor = append(rc.Status.ReservedFor, ref)
				}
				w.Apply(rc)
				dirty[op.Claim] = true
			}
		case "delete":
			if rc := get(op.Claim); rc != nil {
				w.Remove(rc)
				dirty[op.Claim] = true
				deletes++
			}
		case "reconcile":
			reconcileClaim(op.Claim)
			delete(dirty, op.Claim)
		case "restart":
			ctrl = deviceallocation.NewController(w.Client)
			w.Quiet(func() { ctrl.Hydrate(w.Ctx) })
			dirty = map[int]bool{}
			restarts++
		}
	}
	// quiesce: the latest state of every claim is delivered
	for i := 0; i < 4; i++ {
		if dirty[i] {
			reconcileClaim(i)
		}
	}
	// reference: recomputed from the API
	want := map[string]*c17dDevice{}
	for i := 0; i < 4; i++ {
		rc := get(i)
		if rc == nil || rc.Status.Allocation == nil {
			continue
		}
		releasable := len(rc.Status.ReservedFor) > 0
		var pods []string
		for _, ref := range rc.Status.ReservedFor {
			if ref.Resource == string(corev1.ResourcePods) && ref.APIGroup == "" {
				pods = append(pods, string(ref.UID))
			} else {
				releasable = false
			}
		}
		for _, res := range rc.Status.Allocation.Devices.Results {
			key := res.Driver + "/" + res.Pool + "/" + res.Device
			d := want[key]
			if d == nil {
				d = &c17dDevice{Releasable: true}
				want[key] = d
			}
			d.Releasable = d.Releasable && releasable
			d.Pods = append(d.Pods, pods...)
			if res.ConsumedCapacity != nil {
				q := res.ConsumedCapacity["mem"]
				d.Shared = true
				d.Consumed += q.Value()
				ps := append([]string{}, pods...)
				sort.Strings(ps)
				d.Shares = append(d.Shares, fmt.Sprintf("%d@%v", q.Value(), ps))
			}
		}
	}
	got := map[string]*c17dDevice{}
	var seqErr error
	w.Quiet(func() {
		seq, err := ctrl.AllocatedDevices(w.Ctx)
		if err != nil {
			seqErr = err
			return
		}
		for id, meta := range seq {
			d := &c17dDevice{Releasable: meta.Releasable, Shared: meta.Shared}
			for _, u := range meta.PodUIDs {
				d.Pods = append(d.Pods, string(u))
			}
			if q, ok := meta.ConsumedCapacity["mem"]; ok {
				d.Consumed = q.Value()
			}
			for _, cn := range meta.Contributions {
				var ps []string
				for _, u := range cn.PodUIDs {
					ps = append(ps, string(u))
				}
				sort.Strings(ps)
				q := cn.ConsumedCapacity["mem"]
				d.Shares = append(d.Shares, fmt.Sprintf("%d@%v", q.Value(), ps))
			}
			got[id.Driver.Value()+"/"+id.Pool.Value()+"/"+id.Device.Value()] = d
		}
	})
	if seqErr != nil {
		c.Violate("allocated-devices:error", "AllocatedDevices failed: %v", seqErr)
		return
	}
	for _, m := range []map[string]*c17dDevice{want, got} {
		for _, d := range m {
			sort.Strings(d.Pods)
			sort.Strings(d.Shares)
		}
	}
	for _, key := range sortedKeys(want) {
		g, ok := got[key]
		switch {
		case !ok:
			c.Violate("device-index:allocated-device-missing", "device %s is allocated by a ResourceClaim in the API (%s) but the controller does not report it: Karpenter would hand it out again", key, want[key])
		case g.String() != want[key].String():
			sig := "device-index:metadata-differs"
			if g.Releasable != want[key].Releasable {
				sig += ":releasable"
			} else if fmt.Sprint(g.Pods) != fmt.Sprint(want[key].Pods) {
				sig += ":consumers"
			} else {
				sig += ":capacity"
			}
			c.Violate(sig, "device %s: the controller reports %s, the ResourceClaims in the API say %s", key, g, want[key])
		}
	}
	for _, key := range sortedKeys(got) {
		if _, ok := want[key]; !ok {
			c.Violate("device-index:stale-device", "the controller reports device %s as allocated (%s) but no ResourceClaim in the API allocates it", key, got[key])
		}
	}
	sharedByTwo := false
	for _, d := range want {
		if len(d.Shares) >= 2 {
			sharedByTwo = true
		}
	}
	c.ClassIf(restarts > 0, "restart")
	c.ClassIf(deletes > 0, "claim_deleted")
	c.ClassIf(reallocs > 0, "claim_reallocated")
	c.ClassIf(sharedByTwo, "device_shared_by_two_claims")
	c.NTIf(len(want) > 0 && (reallocs > 0 || deletes > 0 || sharedByTwo))
	c.Sample(map[string]any{"ops": len(s.Ops), "devices_allocated": len(want), "restarts": restarts, "deletes": deletes, "reallocations": reallocs})
}

var propC17d = ev.Prop[c17dScenario]{
	ID: "C17", Test: "TestC17d", Level: "exploration",
	Rule: "rapid draws 3-24 operations over four ResourceClaims and four devices (two exclusive, two multi-allocatable) from {allocate a drawn device subset with consumed capacity, clear the allocation, replace reservedFor by 0-2 pod / non-pod consumers, delete the claim, reconcile one claim (so other claims stay stale meanwhile), restart = fresh controller that re-hydrates}; the REAL deviceallocation controller processes them; after the latest state of every claim has been delivered, " +
		"oracle: AllocatedDevices() equals a recomputation from the API objects: exactly the devices some claim's status.allocation names, per device releasable (every referencing claim reserved, only by pods), the multiset of consuming pod UIDs, shared flag, summed consumed capacity and the per-claim contributions; " +
		"non-trivial = some device is allocated at the end and the history re-allocated or deleted a claim, or two claims share a device",
	Assumptions: []string{"one reconcile per claim delivers its latest state (informer semantics)", "the provisioning-side filtering of this index (deleting pods, releasable devices) is judged by TestC17c"},
	Draw:        drawC17d, Exec: execC17d, ReplayTries: 2,
}

func TestC17d(t *testing.T) { ev.Run(t, propC17d) }
