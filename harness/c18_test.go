package harness

import (
	"context"
	"encoding/json"
	"fmt"
	"hash/fnv"
	metav1 "k8s.io/apimachinery/pkg/apis/meta/v1"
	"reflect"
	"sort"
	"strings"
	"testing"
	"unsafe"

	"github.com/google/go-cmp/cmp"
	appsv1 "k8s.io/api/apps/v1"
	corev1 "k8s.io/api/core/v1"
	"pgregory.net/rapid"
	"sigs.k8s.io/controller-runtime/pkg/client"

	v1 "sigs.k8s.io/karpenter/pkg/apis/v1"
	"sigs.k8s.io/karpenter/pkg/controllers/disruption"
	"sigs.k8s.io/karpenter/pkg/controllers/state"
	testv1alpha1 "sigs.k8s.io/karpenter/pkg/test/v1alpha1"

	"verif/harness/ev"
	"verif/harness/gen"
)

// C18: scheduling simulations have no side effects.

type c18Call struct {
	Candidates []int `json:"candidates"` // indexes into the candidate list (mod len)
	Cancelled  bool  `json:"cancelled"`
	Provision  bool  `json:"provision"` // run Provisioner.Schedule instead of a disruption simulation
}

type c18Scenario struct {
	World *gen.SchedWorld `json:"world"`
	Calls []c18Call       `json:"calls"`
}

func drawC18(t *rapid.T) *c18Scenario {
	k := gen.DefaultKnobs()
	k.MaxNodes = 5
	k.MoreInitialized = true
	k.Reserved = rapid.Bool().Draw(t, "reservedOfferings")
	s := &c18Scenario{World: gen.World(t, k)}
	// running pods keep the scheduling terms they were created with: OR-ed required terms whose first alternative
	// nothing satisfies, preferred terms, ScheduleAnyway spreads - everything a simulation relaxes step by step
	for i, p := range s.World.Bound {
		l := fmt.Sprintf("c18_bound%d", i)
		if !dpct(t, 35, l+"_relaxable") {
			continue
		}
		if p.Spec.Affinity == nil {
			p.Spec.Affinity = &corev1.Affinity{}
		}
		switch rapid.IntRange(0, 3).Draw(t, l+"_kind") {
		case 0:
			p.Spec.Affinity.NodeAffinity = &corev1.NodeAffinity{RequiredDuringSchedulingIgnoredDuringExecution: &corev1.NodeSelector{NodeSelectorTerms: []corev1.NodeSelectorTerm{
				{MatchExpressions: []corev1.NodeSelectorRequirement{{Key: corev1.LabelTopologyZone, Operator: corev1.NodeSelectorOpIn, Values: []string{"zone-nowhere"}}}},
				{MatchExpressions: []corev1.NodeSelectorRequirement{{Key: corev1.LabelOSStable, Operator: corev1.NodeSelectorOpExists}}}}}}
		case 1:
			p.Spec.Affinity.NodeAffinity = &corev1.NodeAffinity{PreferredDuringSchedulingIgnoredDuringExecution: []corev1.PreferredSchedulingTerm{
				{Weight: 10, Preference: corev1.NodeSelectorTerm{MatchExpressions: []corev1.NodeSelectorRequirement{{Key: corev1.LabelTopologyZone, Operator: corev1.NodeSelectorOpIn, Values: []string{rapid.SampledFrom([]string{"zone-nowhere", gen.Zones[0], gen.Zones[1]}).Draw(t, l+"_prefZone")}}}}},
				{Weight: 5, Preference: corev1.NodeSelectorTerm{MatchExpressions: []corev1.NodeSelectorRequirement{{Key: "ex.io/nothing", Operator: corev1.NodeSelectorOpExists}}}}}}
		case 2:
			p.Spec.Affinity.PodAntiAffinity = &corev1.PodAntiAffinity{PreferredDuringSchedulingIgnoredDuringExecution: []corev1.WeightedPodAffinityTerm{{Weight: 10, PodAffinityTerm: corev1.PodAffinityTerm{
				LabelSelector: &metav1.LabelSelector{MatchLabels: map[string]string{"app": p.Labels["app"]}}, TopologyKey: corev1.LabelHostname}}}}
		case 3:
			p.Spec.TopologySpreadConstraints = []corev1.TopologySpreadConstraint{
				{MaxSkew: 1, TopologyKey: corev1.LabelTopologyZone, WhenUnsatisfiable: corev1.ScheduleAnyway, LabelSelector: &metav1.LabelSelector{MatchLabels: map[string]string{"app": p.Labels["app"]}}},
				{MaxSkew: 1, TopologyKey: corev1.LabelHostname, WhenUnsatisfiable: corev1.ScheduleAnyway, LabelSelector: &metav1.LabelSelector{MatchLabels: map[string]string{"app": p.Labels["app"]}}}}
		}
		if p.Spec.Affinity.NodeAffinity == nil && p.Spec.Affinity.PodAffinity == nil && p.Spec.Affinity.PodAntiAffinity == nil {
			p.Spec.Affinity = nil
		}
	}
	n := rapid.IntRange(1, 5).Draw(t, "nCalls")
	for i := 0; i < n; i++ {
		c := c18Call{Cancelled: rapid.IntRange(0, 9).Draw(t, "cancelled") == 0, Provision: rapid.IntRange(0, 4).Draw(t, "provision") == 0}
		nc := rapid.IntRange(0, 3).Draw(t, "nCand")
		for j := 0; j < nc; j++ {
			c.Candidates = append(c.Candidates, rapid.IntRange(0, 7).Draw(t, "cand"))
		}
		s.Calls = append(s.Calls, c)
	}
	return s
}

func hashStr(s string) string {
	h := fnv.New64a()
	h.Write([]byte(s))
	return fmt.Sprintf("%016x", h.Sum64())
}

// apiDigest: every object of the kinds Karpenter touches, with resourceVersion and content hash.
func (b *builtWorld) apiDigest() map[string]string {
	out := map[string]string{}
	add := func(kind string, objs []client.Object) {
		for _, o := range objs {
			raw, _ := json.Marshal(o)
			out[kind+"/"+o.GetNamespace()+"/"+o.GetName()] = o.GetResourceVersion() + ":" + hashStr(string(raw))
		}
	}
	w := b.W
	w.Quiet(func() {
		var nodes corev1.NodeList
		_ = w.Client.List(w.Ctx, &nodes)
		for i := range nodes.Items {
			add("Node", []client.Object{&nodes.Items[i]})
		}
		var ncs v1.NodeClaimList
		_ = w.Client.List(w.Ctx, &ncs)
		for i := range ncs.Items {
			add("NodeClaim", []client.Object{&ncs.Items[i]})
		}
		var pods corev1.PodList
		_ = w.Client.List(w.Ctx, &pods)
		for i := range pods.Items {
			add("Pod", []client.Object{&pods.Items[i]})
		}
		var nps v1.NodePoolList
		_ = w.Client.List(w.Ctx, &nps)
		for i := range nps.Items {
			add("NodePool", []client.Object{&nps.Items[i]})
		}
		var dss appsv1.DaemonSetList
		_ = w.Client.List(w.Ctx, &dss)
		for i := range dss.Items {
			add("DaemonSet", []client.Object{&dss.Items[i]})
		}
		var ncl testv1alpha1.TestNodeClassList
		_ = w.Client.List(w.Ctx, &ncl)
		for i := range ncl.Items {
			add("NodeClass", []client.Object{&ncl.Items[i]})
		}
	})
	return out
}

func rlString(rl corev1.ResourceList) string {
	keys := make([]string, 0, len(rl))
	for k := range rl {
		keys = append(keys, string(k))
	}
	sort.Strings(keys)
	var sb strings.Builder
	for _, k := range keys {
		q := rl[corev1.ResourceName(k)]
		fmt.Fprintf(&sb, "%s=%s,", k, q.String())
	}
	return sb.String()
}

// clusterDigest summarises the cluster state through exported accessors; nominations are reported separately.
func (b *builtWorld) clusterDigest() (map[string]string, map[string]bool, state.StateNodes) {
	out := map[string]string{}
	nominated := map[string]bool{}
	nodes := b.W.Cluster.DeepCopyNodes()
	for _, n := range nodes {
		labels, _ := json.Marshal(n.Labels())
		taints, _ := json.Marshal(n.Taints())
		hp, _ := json.Marshal(fmt.Sprintf("%+v", n.HostPortUsage()))
		vu, _ := json.Marshal(fmt.Sprintf("%+v", n.VolumeUsage()))
		out["node/"+n.ProviderID()] = strings.Join([]string{n.Name(), string(labels), string(taints), rlString(n.Capacity()), rlString(n.Allocatable()), rlString(n.PodRequests()), rlString(n.PodLimits()),
			rlString(n.DaemonSetRequests()), string(hp), string(vu), fmt.Sprint(n.MarkedForDeletion()), fmt.Sprint(n.Initialized(), n.Registered()), fmt.Sprintf("%.6f", n.DisruptionCost())}, "|")
		nominated[n.ProviderID()] = n.Nominated(b.W.Clock)
	}
	for name := range b.Pools {
		out["poolres/"+name] = rlString(b.W.Cluster.NodePoolResourcesFor(name))
		a, d, p := b.W.Cluster.NodePoolState.GetNodeCount(name)
		out["poolcount/"+name] = fmt.Sprint(a, d, p)
	}
	out["consolidated"] = fmt.Sprint(b.W.Cluster.ConsolidationState())
	return out, nominated, nodes
}

// providerDigest: the instance types and offerings the provider hands out, including slice order.
func (b *builtWorld) providerDigest() string {
	var sb strings.Builder
	names := make([]string, 0, len(b.Pools))
	for n := range b.Pools {
		names = append(names, n)
	}
	sort.Strings(names)
	for _, n := range names {
		its, _ := b.W.Provider.GetInstanceTypes(context.Background(), b.Pools[n])
		fmt.Fprintf(&sb, "pool %s:", n)
		for _, it := range its {
			fmt.Fprintf(&sb, " [%s %s cap=%s", it.Name, it.Requirements.String(), rlString(it.Capacity))
			for _, o := range it.Offerings {
				fmt.Fprintf(&sb, " (%s %v avail=%v rc=%d co=%s)", o.Requirements.String(), o.Price, o.Available, o.ReservationCapacity, rlString(o.CapacityOverride))
			}
			sb.WriteString("]")
		}
	}
	return sb.String()
}

func diffMaps(a, b map[string]string) string {
	var diffs []string
	for k, v := range a {
		if w, ok := b[k]; !ok {
			diffs = append(diffs, "removed "+k)
		} else if v != w {
			diffs = append(diffs, fmt.Sprintf("changed %s: %s -> %s", k, v, w))
		}
	}
	for k := range b {
		if _, ok := a[k]; !ok {
			diffs = append(diffs, "added "+k)
		}
	}
	sort.Strings(diffs)
	if len(diffs) > 4 {
		diffs = diffs[:4]
	}
	return strings.Join(diffs, "; ")
}

// candidatePodsDigest: per candidate and pod, the JSON of the pod object the candidate carries (Candidate.reschedulablePods
// is unexported and has no accessor; it is read through reflection, no hook).
func candidatePodsDigest(candidates []*disruption.Candidate) map[string]string {
	out := map[string]string{}
	for _, cn := range candidates {
		f := reflect.ValueOf(cn).Elem().FieldByName("reschedulablePods")
		if !f.IsValid() {
			continue
		}
		pods, _ := reflect.NewAt(f.Type(), unsafe.Pointer(f.UnsafeAddr())).Elem().Interface().([]*corev1.Pod)
		for _, p := range pods {
			raw, _ := json.Marshal(p)
			out[cn.Name()+"/"+p.Namespace+"/"+p.Name] = string(raw)
		}
	}
	return out
}

func execC18(s *c18Scenario, c *ev.Ctx) {
	b := build(s.World, c)
	w := b.W
	queue := disruption.NewQueue(w.Client, w.Recorder, w.Cluster, w.Clock, b.Provisioner)
	candidates, err := disruption.GetCandidates(w.Ctx, w.Cluster, w.Client, w.Recorder, w.Clock, w.Provider, func(context.Context, *disruption.Candidate) bool { return true }, disruption.GracefulDisruptionClass, queue)
	if err != nil {
		c.Class("candidates_error")
		return
	}
	c.ClassIf(len(candidates) > 0, "has_candidates")
	// warm the provider cache so that the first digest sees the objects Karpenter will be handed
	_ = b.providerDigest()
	api0 := b.apiDigest()
	cl0, nom0, nodes0 := b.clusterDigest()
	prov0 := b.providerDigest()
	cand0 := candidatePodsDigest(candidates)
	w.ResetCalls()
	both := false
	for i, call := range s.Calls {
		var subset []*disruption.Candidate
		seen := map[int]bool{}
		for _, idx := range call.Candidates {
			if len(candidates) == 0 {
				break
			}
			j := idx % len(candidates)
			if !seen[j] {
				seen[j] = true
				subset = append(subset, candidates[j])
			}
		}
		ctx := w.Ctx
		if call.Cancelled {
			cctx, cancel := context.WithCancel(ctx)
			cancel()
			ctx = cctx
		}
		what := "SimulateScheduling"
		nominationsMayChange := false
		if call.Provision {
			what = "Provisioner.Schedule"
			nominationsMayChange = true
			res, err := b.Provisioner.Schedule(ctx)
			if err == nil {
				existing := 0
				for _, en := range res.ExistingNodes {
					existing += len(en.Pods)
				}
				both = both || (existing > 0 && len(res.NewNodeClaims) > 0)
			}
		} else {
			res, err := disruption.SimulateScheduling(ctx, w.Client, w.Cluster, b.Provisioner, w.Clock, w.Recorder, nil, subset...)
			if err == nil {
				existing := 0
				for _, en := range res.ExistingNodes {
					existing += len(en.Pods)
				}
				both = both || (existing > 0 && len(res.NewNodeClaims) > 0)
				c.Class("simulated")
			} else {
				c.Class("simulation_error")
			}
		}
		desc := fmt.Sprintf("call %d %s(candidates=%d, cancelled=%v)", i, what, len(subset), call.Cancelled)
		if writes := w.Writes(); len(writes) > 0 {
			c.Violate("api-write", "%s wrote to the API: %s", desc, writes[0].String())
		}
		if api1 := b.apiDigest(); !reflect.DeepEqual(api0, api1) {
			c.Violate("api-object-changed", "%s changed API objects: %s", desc, diffMaps(api0, api1))
		}
		cl1, nom1, nodes1 := b.clusterDigest()
		if !reflect.DeepEqual(cl0, cl1) {
			c.Violate("cluster-state-changed", "%s changed cluster state: %s", desc, diffMaps(cl0, cl1))
		}
		if !nominationsMayChange && !reflect.DeepEqual(nom0, nom1) {
			c.Violate("nomination-changed", "%s changed node nominations", desc)
		}
		if !nominationsMayChange {
			byID := map[string]*state.StateNode{}
			for _, n := range nodes1 {
				byID[n.ProviderID()] = n
			}
			for _, n0 := range nodes0 {
				n1, ok := byID[n0.ProviderID()]
				if ok && !reflect.DeepEqual(n0, n1) && len(c.Violations()) == 0 {
					d := cmp.Diff(n0, n1, cmp.Exporter(func(reflect.Type) bool { return true }))
					if len(d) > 1500 {
						d = d[:1500]
					}
					c.Violate("cluster-state-deep-changed", "%s: deep copy of state node %s differs before/after: %s", desc, n0.Name(), d)
				}
			}
		}
		if nominationsMayChange {
			nom0, nodes0 = nom1, nodes1
		}
		// the candidates (and the pod objects they carry) are what the disruption controller shares between the
		// consecutive simulations of one decision
		if cand1 := candidatePodsDigest(candidates); !reflect.DeepEqual(cand0, cand1) {
			c.Violate("candidate-pods-changed", "%s changed the pod objects of the candidates it was handed (later simulations of the same decision see other pods): %s", desc, diffMaps(cand0, cand1))
		}
		if prov1 := b.providerDigest(); prov1 != prov0 {
			c.Violate("provider-mutated", "%s modified the provider's instance types / offerings (order, availability, capacity or price)", desc)
		}
		if len(c.Violations()) > 0 {
			break
		}
	}
	c.ClassIf(both, "existing_and_new")
	c.NTIf(both)
	c.Sample(map[string]any{"nodes": len(s.World.Nodes), "pending": len(s.World.Pending), "candidates": len(candidates), "calls": s.Calls})
}

var propC18 = ev.Prop[c18Scenario]{
	ID: "C18", Test: "TestC18",
	Rule: "rapid draws a scheduler world (as C01, biased to initialized nodes with pods) and 1-5 consecutive calls: disruption.SimulateScheduling with an arbitrary subset of the real candidates (GetCandidates), some with an already-cancelled context, and some Provisioner.Schedule; " +
		"oracle: after every call no API write was issued, every API object has the same resourceVersion/content hash, the cluster state digest (per node labels/taints/capacity/requests/daemon requests/host ports/volumes/marks/cost, per pool resources and counts, consolidation state, deep copies of the state nodes) is unchanged (nominations may change only for Provisioner.Schedule) and the provider's instance types/offerings incl. slice order are unmodified; " +
		"non-trivial = some simulation placed a pod on an existing node and created a NodeClaim",
	Assumptions: []string{"pod scheduling bookkeeping maps (pod acks, scheduling times) are the permitted delta of a provisioning pass and are not compared"},
	Draw:        drawC18, Exec: execC18, ReplayTries: 5,
}

func TestC18(t *testing.T) { ev.Run(t, propC18) }
