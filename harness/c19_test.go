package harness

import (
	"context"
	"fmt"
	"k8s.io/apimachinery/pkg/api/resource"
	"math"
	"sort"
	"testing"

	corev1 "k8s.io/api/core/v1"
	"k8s.io/klog/v2"
	"pgregory.net/rapid"

	v1 "sigs.k8s.io/karpenter/pkg/apis/v1"
	"sigs.k8s.io/karpenter/pkg/cloudprovider"
	pscheduling "sigs.k8s.io/karpenter/pkg/controllers/provisioning/scheduling"
	"sigs.k8s.io/karpenter/pkg/operator/options"
	"sigs.k8s.io/karpenter/pkg/scheduling"

	"verif/harness/ev"
	"verif/harness/gen"
	"verif/harness/ref"
	"verif/harness/sim"
)

// ---------------------------------------------------------------------------------------------------------------------
// C19b: price ordering / truncation (pure)
// ---------------------------------------------------------------------------------------------------------------------

type c19bScenario struct {
	Catalog   []sim.ITSpec `json:"catalog"`
	Zones     []string     `json:"zones,omitempty"` // requirement zone In ...
	CTs       []string     `json:"cts,omitempty"`
	MaxItems  int          `json:"maxItems"`
	MinKey    string       `json:"minKey,omitempty"`
	MinValues int          `json:"minValues,omitempty"`
	Strict    bool         `json:"strict"`
	Shuffle   []int        `json:"shuffle"`
}

func drawC19b(t *rapid.T) *c19bScenario {
	k := gen.DefaultKnobs()
	k.MaxTypes = 9
	s := &c19bScenario{Catalog: gen.Catalog(t, k)}
	if rapid.Bool().Draw(t, "zoneReq") {
		s.Zones = rapid.SliceOfNDistinct(rapid.SampledFrom(gen.Zones), 1, 3, rapid.ID[string]).Draw(t, "zones")
	}
	if rapid.Bool().Draw(t, "ctReq") {
		s.CTs = rapid.SliceOfNDistinct(rapid.SampledFrom(gen.CTs), 1, 2, rapid.ID[string]).Draw(t, "cts")
	}
	s.MaxItems = rapid.IntRange(1, 6).Draw(t, "maxItems")
	if rapid.IntRange(0, 2).Draw(t, "hasMin") == 0 {
		s.MinKey = rapid.SampledFrom([]string{corev1.LabelInstanceTypeStable, sim.LabelFamily}).Draw(t, "minKey")
		s.MinValues = rapid.IntRange(1, 4).Draw(t, "minValues")
	}
	s.Strict = rapid.Bool().Draw(t, "strict")
	s.Shuffle = rapid.SliceOfN(rapid.IntRange(0, 8), len(s.Catalog), len(s.Catalog)).Draw(t, "shuffle")
	return s
}

func (s *c19bScenario) requirements() scheduling.Requirements {
	reqs := scheduling.NewRequirements()
	if len(s.Zones) > 0 {
		reqs.Add(scheduling.NewRequirement(corev1.LabelTopologyZone, corev1.NodeSelectorOpIn, s.Zones...))
	}
	if len(s.CTs) > 0 {
		reqs.Add(scheduling.NewRequirement(v1.CapacityTypeLabelKey, corev1.NodeSelectorOpIn, s.CTs...))
	}
	if s.MinKey != "" {
		mv := s.MinValues
		reqs.Add(scheduling.NewRequirementWithFlexibility(s.MinKey, corev1.NodeSelectorOpExists, &mv))
	}
	return reqs
}

func contains(xs []string, x string) bool {
	for _, y := range xs {
		if x == y {
			return true
		}
	}
	return false
}

// refMinPrice: cheapest available offering whose zone / capacity type the requirements admit (MaxFloat64 if none).
func refMinPrice(it sim.ITSpec, zones, cts []string) float64 {
	best := math.MaxFloat64
	for _, of := range it.Offerings {
		if !of.Available || (len(zones) > 0 && !contains(zones, of.Zone)) || (len(cts) > 0 && !contains(cts, of.CapacityType)) {
			continue
		}
		if of.Price < best {
			best = of.Price
		}
	}
	return best
}

func execC19b(s *c19bScenario, c *ev.Ctx) {
	byName := map[string]sim.ITSpec{}
	var its cloudprovider.InstanceTypes
	order := make([]int, len(s.Catalog))
	for i := range order {
		order[i] = i
	}
	sort.SliceStable(order, func(a, b int) bool { return s.Shuffle[order[a]] < s.Shuffle[order[b]] })
	for _, i := range order {
		its = append(its, s.Catalog[i].Build())
		byName[s.Catalog[i].Name] = s.Catalog[i]
	}
	reqs := s.requirements()
	kopts := sim.DefaultOptions()
	if !s.Strict {
		kopts.MinValuesPolicy = options.MinValuesPolicyBestEffort
	}
	ctx := options.ToContext(context.Background(), kopts)
	input := append(cloudprovider.InstanceTypes{}, its...)
	out, err := input.Truncate(ctx, reqs, s.MaxItems)

	distinct := func(list cloudprovider.InstanceTypes) int {
		vals := map[string]bool{}
		for _, it := range list {
			spec := byName[it.Name]
			switch s.MinKey {
			case corev1.LabelInstanceTypeStable:
				vals[spec.Name] = true
			case sim.LabelFamily:
				if spec.Family != "" {
					vals[spec.Family] = true
				}
			}
		}
		return len(vals)
	}
	if err != nil {
		c.Class("truncate_error")
		// documented: an error only when the strict policy cannot keep a minValues floor with the cheapest prefix;
		// Truncate sorted `input` in place, so the prefix it judged is input[:maxItems]
		prefix := input
		if len(prefix) > s.MaxItems {
			prefix = prefix[:s.MaxItems]
		}
		if !s.Strict || s.MinKey == "" {
			c.Violate("truncate:unexpected-error", "Truncate failed without strict minValues: %v", err)
		} else if distinct(prefix) >= s.MinValues {
			c.Violate("truncate:error-although-floor-met", "Truncate failed (%v) but the cheapest %d types have %d distinct %s >= %d", err, s.MaxItems, distinct(prefix), s.MinKey, s.MinValues)
		}
		out = prefix
	} else if s.Strict && s.MinKey != "" && distinct(out) < s.MinValues {
		c.Violate("truncate:floor-broken", "strict minValues %s>=%d but the truncated list has %d distinct values", s.MinKey, s.MinValues, distinct(out))
	}
	// subset, no duplicates, size
	seen := map[string]bool{}
	for _, it := range out {
		if _, ok := byName[it.Name]; !ok || seen[it.Name] {
			c.Violate("truncate:not-a-subset", "truncated list contains %s (unknown or duplicate)", it.Name)
		}
		seen[it.Name] = true
	}
	wantLen := len(its)
	if wantLen > s.MaxItems {
		wantLen = s.MaxItems
	}
	if err == nil && len(out) != wantLen {
		c.Violate("truncate:size", "truncated to %d types, want %d", len(out), wantLen)
	}
	// no cheaper type dropped in favour of a dearer one
	dropped := 0
	for _, b := range s.Catalog {
		if seen[b.Name] {
			continue
		}
		dropped++
		pb := refMinPrice(b, s.Zones, s.CTs)
		for _, a := range out {
			if pa := refMinPrice(byName[a.Name], s.Zones, s.CTs); pa > pb {
				c.Violate("truncate:dearer-kept", "kept %s (cheapest compatible available offering %v) but dropped %s (%v); requirements %s", a.Name, pa, b.Name, pb, reqs)
			}
		}
	}
	c.ClassIf(dropped > 0, "dropped")
	c.NTIf(dropped > 0)
	c.Sample(map[string]any{"types": len(s.Catalog), "maxItems": s.MaxItems, "zones": s.Zones, "cts": s.CTs, "minKey": s.MinKey, "minValues": s.MinValues, "strict": s.Strict, "kept": len(out)})
}

var propC19b = ev.Prop[c19bScenario]{
	ID: "C19", Test: "TestC19b",
	Rule: "rapid draws a catalog (1-9 types, 1-5 offerings with tied / inverted prices and unavailable offerings), zone / capacity-type requirements, maxItems 1-6, an optional minValues floor (instance-type or family) and the minValues policy; InstanceTypes.Truncate runs on a shuffled copy; " +
		"oracle: result is a duplicate-free subset of size min(n,maxItems); for every kept a and dropped b, cheapest compatible available offering price(a) <= price(b); error iff strict minValues floor unmet by the cheapest prefix; non-trivial = truncation dropped at least one type",
	Assumptions: []string{"price ties may be broken either way"},
	Draw:        drawC19b, Exec: execC19b,
}

func TestC19b(t *testing.T) { ev.Run(t, propC19b) }

// ---------------------------------------------------------------------------------------------------------------------
// C19a: weight order
// ---------------------------------------------------------------------------------------------------------------------

func drawC19a(t *rapid.T) *gen.SchedWorld {
	k := gen.DefaultKnobs()
	k.MinPools, k.MaxPools = 2, 4
	k.NoPrefs, k.NoMinValues, k.NoLimits, k.InterPod = true, true, true, 0
	k.MaxNodes = 1
	k.SingleTerm = true
	k.FriendlyPools, k.EasyPods = true, true
	w := gen.World(t, k)
	w.Options.ReservedCapacity = false
	// some pools run out of limits during (or before) the pass: the search must go on to the lighter pools, for every
	// degree of parallelism
	for i, np := range w.Pools {
		if rapid.IntRange(0, 2).Draw(t, fmt.Sprintf("c19_limited%d", i)) == 0 {
			np.Spec.Limits = v1.Limits{corev1.ResourceCPU: resource.MustParse(rapid.SampledFrom([]string{"0", "1", "2", "4", "8"}).Draw(t, fmt.Sprintf("c19_limit%d", i)))}
			if rapid.IntRange(0, 2).Draw(t, fmt.Sprintf("c19_limitKind%d", i)) == 0 {
				// a quota on an extended resource only some types carry (exhausted, or never granted)
				np.Spec.Limits = v1.Limits{corev1.ResourceName(gen.GPU): resource.MustParse(rapid.SampledFrom([]string{"0", "0", "1", "2"}).Draw(t, fmt.Sprintf("c19_gpuLimit%d", i)))}
			}
		}
	}
	// some pools are not Ready (NodeClass not ready / not known yet, or never reconciled): they must not receive pods
	// however heavy they are; at least one pool stays ready
	w.PoolReady = map[string]string{}
	for i, np := range w.Pools {
		if len(w.PoolReady) < len(w.Pools)-1 && rapid.IntRange(0, 5).Draw(t, fmt.Sprintf("c19_unready%d", i)) == 0 {
			w.PoolReady[np.Name] = rapid.SampledFrom([]string{"unknown", "unknown", "false", "none"}).Draw(t, fmt.Sprintf("c19_unreadyWhy%d", i))
		}
	}
	return w
}

func weightOf(np *v1.NodePool) int32 {
	if np.Spec.Weight == nil {
		return 0
	}
	return *np.Spec.Weight
}

// poolFeasible: could a node of this pool host the pod on its own (with the daemons that would run there)?
// Karpenter-conservative: every taint of the pool (also PreferNoSchedule) must be tolerated.
// poolFeasibleBeyondLimits: the pool can host the pod on an instance type that carries NONE of the resources the pool
// limits (e.g. a CPU-only type in a pool that limits GPUs): no limit can make the pool infeasible for this pod.
func (b *builtWorld) poolFeasibleBeyondLimits(np *v1.NodePool, pod *corev1.Pod) (bool, string) {
	if len(np.Spec.Limits) == 0 {
		return b.poolFeasible(np, pod)
	}
	filtered := *b.S
	filtered.Catalog = nil
	for _, it := range b.S.Catalog {
		free := true
		for r := range np.Spec.Limits {
			if q, ok := it.Capacity[string(r)]; ok && q != "0" && q != "" {
				free = false
			}
		}
		if free {
			filtered.Catalog = append(filtered.Catalog, it)
		}
	}
	if len(filtered.Catalog) == 0 {
		return false, ""
	}
	cp := *b
	cp.S = &filtered
	return cp.poolFeasible(np, pod)
}

func (b *builtWorld) poolFeasible(np *v1.NodePool, pod *corev1.Pod) (bool, string) {
	for _, t := range np.Spec.Template.Spec.Taints {
		tolerated := false
		for _, tol := range pod.Spec.Tolerations {
			tolerated = tolerated || tol.ToleratesTaint(klog.Background(), &t, false)
		}
		if !tolerated {
			return false, "taint " + t.Key
		}
	}
	poolReqs := scheduling.NewNodeSelectorRequirementsWithMinValues(np.Spec.Template.Spec.Requirements...)
	poolReqs.Add(scheduling.NewLabelRequirements(np.Spec.Template.Labels).Values()...)
	// candidate values for user-defined keys: what the pool lists, or what the pod mentions when the pool leaves it open
	mentioned := map[string][]string{}
	for _, term := range ref.PodTerms(pod) {
		for k, prims := range term {
			for _, p := range prims {
				mentioned[k] = append(mentioned[k], p.Values...)
			}
		}
	}
	combos := []map[string]string{{}}
	for k, r := range poolReqs {
		if v1.WellKnownLabels.Has(k) {
			continue
		}
		var vals []string
		if r.Operator() == corev1.NodeSelectorOpIn {
			vals = r.Values()
		} else if r.Operator() != corev1.NodeSelectorOpDoesNotExist {
			for _, v := range append(mentioned[k], "zz") {
				if r.Has(v) {
					vals = append(vals, v)
				}
			}
		}
		if len(vals) == 0 {
			continue
		}
		sort.Strings(vals)
		var next []map[string]string
		for _, c := range combos {
			for _, v := range vals {
				m := map[string]string{k: v}
				for ck, cv := range c {
					m[ck] = cv
				}
				next = append(next, m)
			}
		}
		combos = next
	}
	mkNode := func(it sim.ITSpec, ch launchChoice, custom map[string]string) *corev1.Node {
		labels := sim.NodeLabels(sim.LaunchOption{Type: it, Offering: ch.of, OS: ch.os})
		for k, v := range np.Spec.Template.Labels {
			labels[k] = v
		}
		for k, v := range custom {
			labels[k] = v
		}
		labels[v1.NodePoolLabelKey] = np.Name
		labels[v1.NodeRegisteredLabelKey], labels[v1.NodeInitializedLabelKey] = "true", "true"
		labels[corev1.LabelHostname] = "new-node"
		node := &corev1.Node{Spec: corev1.NodeSpec{Taints: np.Spec.Template.Spec.Taints}}
		node.Name, node.Labels = "new-node", labels
		return node
	}
	for _, it := range b.S.Catalog {
		choices := launchable(it, poolReqs)
		// Karpenter reserves for every daemon that could run on the type under the pool's requirements, whichever
		// zone / os / label value the node ends up with; feasibility is judged as conservatively
		possible := map[string]*corev1.Pod{}
		for _, ch := range choices {
			for _, custom := range combos {
				node := mkNode(it, ch, custom)
				for _, ds := range b.DaemonSets {
					if daemonRunsOn(ds, node) {
						possible[ds.Name] = daemonTemplatePod(ds)
					}
				}
			}
		}
		// ... and it decides "could run" per requirement set (template, instance type) rather than per offering, which
		// is more conservative still: count those daemons too
		built := it.Build()
		tmplReqs := scheduling.NewRequirements(poolReqs.Values()...)
		tmplReqs.Add(scheduling.NewRequirement(v1.NodePoolLabelKey, corev1.NodeSelectorOpIn, np.Name))
		tmplReqs.Add(scheduling.NewRequirement(v1.NodeRegisteredLabelKey, corev1.NodeSelectorOpIn, "true"))
		tmplReqs.Add(scheduling.NewRequirement(v1.NodeInitializedLabelKey, corev1.NodeSelectorOpIn, "true"))
		for _, ds := range b.DaemonSets {
			dp := daemonTemplatePod(ds)
			if _, bad := ref.UntoleratedTaint(dp, np.Spec.Template.Spec.Taints); bad {
				continue
			}
			for {
				dr := scheduling.NewStrictPodRequirements(dp)
				if tmplReqs.IsCompatible(dr, scheduling.AllowUndefinedWellKnownLabels) && built.Requirements.Intersects(dr) == nil {
					possible[ds.Name] = daemonTemplatePod(ds)
					break
				}
				a := dp.Spec.Affinity
				if a == nil || a.NodeAffinity == nil || a.NodeAffinity.RequiredDuringSchedulingIgnoredDuringExecution == nil || len(a.NodeAffinity.RequiredDuringSchedulingIgnoredDuringExecution.NodeSelectorTerms) <= 1 {
					break
				}
				a.NodeAffinity.RequiredDuringSchedulingIgnoredDuringExecution.NodeSelectorTerms = a.NodeAffinity.RequiredDuringSchedulingIgnoredDuringExecution.NodeSelectorTerms[1:]
			}
		}
		var residents []*corev1.Pod
		for _, ds := range b.DaemonSets {
			if p, ok := possible[ds.Name]; ok {
				residents = append(residents, p)
			}
		}
		for _, ch := range choices {
			if b.choiceOK != nil && !b.choiceOK(ch) {
				continue
			}
			// Karpenter adds the daemon overhead to the pod's requests and wants ALL of it to fit (the admission oracle only
			// judges the resources the placed pod asks for)
			if ok, _ := ref.Fits(ref.SumRequests(append(append([]*corev1.Pod{}, residents...), pod)...), it.Allocatable(ch.of)); !ok {
				continue
			}
			for _, custom := range combos {
				node := mkNode(it, ch, custom)
				if (ref.NodeCase{Node: node, Allocatable: it.Allocatable(ch.of), Residents: residents, Placed: []*corev1.Pod{pod}}).Admissible() == nil {
					return true, fmt.Sprintf("%s %s/%s/%s %v", it.Name, ch.of.Zone, ch.of.CapacityType, ch.os, custom)
				}
			}
		}
	}
	return false, ""
}

func execC19a(s *gen.SchedWorld, c *ev.Ctx) {
	b := build(s, c)
	res, err := b.Provisioner.Schedule(b.W.Ctx)
	if err != nil {
		c.Class("schedule_error")
		return
	}
	// limitsInert: nothing that exists or that this pass launches in the pool carries a resource the pool limits, so the
	// pool's remaining quota is never negative (a pool that is OVER a limit launches nothing at all - documented) and a
	// type carrying none of the limited resources stays launchable
	limitsInert := func(y *v1.NodePool) bool {
		carries := func(typeName string) bool {
			it, ok := b.itSpec(typeName)
			if !ok {
				return true
			}
			for r := range y.Spec.Limits {
				if q, ok := it.Capacity[string(r)]; ok && q != "0" && q != "" {
					return true
				}
			}
			return false
		}
		for _, bn := range b.Nodes {
			if bn.Spec.Pool == y.Name && carries(bn.Spec.TypeName) {
				return false
			}
		}
		for _, nc := range res.NewNodeClaims {
			if nc.NodePoolName != y.Name {
				continue
			}
			for _, it := range nc.InstanceTypeOptions {
				if carries(it.Name) {
					return false
				}
			}
		}
		return true
	}
	multiFeasible := false
	for _, nc := range res.NewNodeClaims {
		x := b.Pools[nc.NodePoolName]
		if x == nil {
			if u := b.Unready[nc.NodePoolName]; u != nil {
				c.Violate("weight:not-ready-pool-used", "NodeClaim opened in pool %s (weight %d) for pods %s, but that pool is not Ready (%s)", u.Name, weightOf(u), shortPods(nc.Pods), s.PoolReady[u.Name])
			}
			continue
		}
		c.Class("new_claim")
		// some pod of the claim must justify opening it in pool X: every heavier pool infeasible for that pod
		justified := false
		var witness string
		for _, p := range b.originals(nc.Pods) {
			ok := true
			feasibleCount := 0
			for _, y := range b.Pools {
				if f, how := b.poolFeasible(y, p); f {
					feasibleCount++
					// (a heavier pool with limits may legitimately be exhausted - unless it can host the pod on a type that
					// carries none of the limited resources)
					if free, _ := b.poolFeasibleBeyondLimits(y, p); weightOf(y) > weightOf(x) && free && limitsInert(y) {
						ok = false
						witness = fmt.Sprintf("pod %s fits pool %s (weight %d) as %s", p.Name, y.Name, weightOf(y), how)
					}
				}
			}
			if feasibleCount >= 2 {
				multiFeasible = true
			}
			if ok {
				justified = true
				break
			}
		}
		if !justified {
			c.Violate("weight:lighter-pool-used", "NodeClaim opened in pool %s (weight %d) for pods %s although a heavier pool can host each of them, e.g. %s", x.Name, weightOf(x), shortPods(nc.Pods), witness)
		}
	}
	// a pod left unassigned although a pool without limits could host it on a node of its own
	errPods := make([]*corev1.Pod, 0, len(res.PodErrors))
	for p := range res.PodErrors {
		errPods = append(errPods, p)
	}
	sort.Slice(errPods, func(i, j int) bool { return errPods[i].Name < errPods[j].Name })
	for _, ep := range b.originals(errPods) {
		if ep.Spec.NodeName != "" {
			continue
		}
		names := make([]string, 0, len(b.Pools))
		for n := range b.Pools {
			names = append(names, n)
		}
		sort.Strings(names)
		for _, n := range names {
			y := b.Pools[n]
			if len(y.Spec.Limits) > 0 {
				c.Class("errored_with_limited_pool")
			}
			if f, how := b.poolFeasibleBeyondLimits(y, ep); f && limitsInert(y) {
				c.Violate("weight:unassigned-although-pool-feasible", "pod %s was left unassigned although pool %s (weight %d, limits %v cannot bind) can host it as %s", ep.Name, y.Name, weightOf(y), y.Spec.Limits, how)
				break
			}
		}
	}
	c.ClassIf(multiFeasible, "multi_feasible")
	c.NTIf(multiFeasible)
	c.Sample(map[string]any{"pools": len(b.Pools), "claims": len(res.NewNodeClaims), "parallelism": s.Options.CPURequests / 1000})
}

var propC19a = ev.Prop[gen.SchedWorld]{
	ID: "C19", Test: "TestC19a",
	Rule: "rapid draws 2-4 ready NodePools with weights (ties, nil), differing requirements / taints / labels over one catalog, pods without inter-pod constraints, preferences, OR-ed terms, minValues or reservations, a third of the pools with a small cpu limit or a (possibly zero) quota on an extended resource only some types carry (so that heavier pools run out during the pass), parallelism 1-8; Provisioner.Schedule runs; " +
		"oracle: for every new NodeClaim of pool X some pod on it has no feasible heavier pool (feasible = some type/offering/label choice of the pool admits pod + daemons under the C01 admission oracle, all pool taints incl. PreferNoSchedule tolerated); non-trivial = some pod had >=2 feasible pools",
	Assumptions: []string{"preferring a lighter pool over violating a PreferNoSchedule taint or over relaxing to a later OR-ed term is documented behaviour, so such pods are not generated / judged"},
	Draw:        drawC19a, Exec: execC19a, ReplayTries: 10,
}

func TestC19a(t *testing.T) { ev.Run(t, propC19a) }

// ---- C19c: truncation inside the provisioning pass -------------------------------------------------------------------
//
// Provisioner.Schedule = NewScheduler + Solve + Results.TruncateInstanceTypes.  The same pipeline is run step by step so
// that the scheduler's options BEFORE truncation are visible; the truncated launch list must be the cheapest of them,
// ranked by each type's cheapest available offering that the NodeClaim's own (narrowed) requirements admit.

type c19cScenario struct {
	World    *gen.SchedWorld `json:"world"`
	MaxTypes int             `json:"maxTypes"`
}

func drawC19c(t *rapid.T) *c19cScenario {
	k := gen.DefaultKnobs()
	k.NoMinValues, k.NoLimits, k.InterPod = true, true, 0
	k.MaxNodes = 1
	k.FriendlyPools, k.EasyPods = true, true
	k.MaxTypes = 9
	w := gen.World(t, k)
	w.Options.ReservedCapacity = false
	return &c19cScenario{World: w, MaxTypes: rapid.SampledFrom([]int{1, 2, 2, 3, 4}).Draw(t, "maxInstanceTypes")}
}

func execC19c(s *c19cScenario, c *ev.Ctx) {
	b := build(s.World, c)
	w := b.W
	var res pscheduling.Results
	full := map[*pscheduling.NodeClaim][]string{}
	var serr error
	w.Quiet(func() {
		pods, err := b.Provisioner.GetPendingPods(w.Ctx)
		if err != nil || len(pods) == 0 {
			serr = fmt.Errorf("no pods: %v", err)
			return
		}
		opts := []pscheduling.Options{pscheduling.DisableReservedCapacityFallback, pscheduling.NumConcurrentReconciles(1), pscheduling.MinValuesPolicy(options.FromContext(w.Ctx).MinValuesPolicy)}
		if options.FromContext(w.Ctx).PreferencePolicy == options.PreferencePolicyIgnore {
			opts = append(opts, pscheduling.IgnorePreferences)
		}
		sch, err := b.Provisioner.NewScheduler(w.Ctx, pods, w.Cluster.DeepCopyNodes().Active(), nil, opts...)
		if err != nil {
			serr = err
			return
		}
		res, err = sch.Solve(w.Ctx, pods)
		if err != nil {
			serr = err
			return
		}
		for _, nc := range res.NewNodeClaims {
			for _, it := range nc.InstanceTypeOptions {
				full[nc] = append(full[nc], it.Name)
			}
		}
		res = res.TruncateInstanceTypes(w.Ctx, s.MaxTypes)
	})
	if serr != nil {
		c.Class("schedule_error")
		return
	}
	truncated, narrowed := false, false
	for _, nc := range res.NewNodeClaims {
		before := full[nc]
		var kept []string
		for _, it := range nc.InstanceTypeOptions {
			kept = append(kept, it.Name)
		}
		if len(before) <= s.MaxTypes {
			if len(kept) != len(before) {
				c.Violate("truncate:options-lost-below-bound", "NodeClaim (pool %s) had %d options (<= bound %d) and lists %d afterwards", nc.NodePoolName, len(before), s.MaxTypes, len(kept))
			}
			continue
		}
		truncated = true
		if len(kept) != s.MaxTypes {
			c.Violate("truncate:count", "NodeClaim (pool %s) had %d options, the bound is %d, it lists %d", nc.NodePoolName, len(before), s.MaxTypes, len(kept))
		}
		var zones, cts []string
		for _, z := range gen.Zones {
			if zr := nc.Requirements.Get(corev1.LabelTopologyZone); zr.Has(z) {
				zones = append(zones, z)
			}
		}
		for _, ct := range []string{"on-demand", "spot"} {
			if cr := nc.Requirements.Get(v1.CapacityTypeLabelKey); cr.Has(ct) {
				cts = append(cts, ct)
			}
		}
		pool := b.Pools[nc.NodePoolName]
		if pool != nil {
			poolReqs := scheduling.NewNodeSelectorRequirementsWithMinValues(pool.Spec.Template.Spec.Requirements...)
			for _, key := range []string{corev1.LabelTopologyZone, v1.CapacityTypeLabelKey} {
				for _, v := range append(append([]string{}, gen.Zones...), "on-demand", "spot") {
					if poolReqs.Get(key).Has(v) != nc.Requirements.Get(key).Has(v) {
						narrowed = true
					}
				}
			}
		}
		for _, d := range before {
			if contains(kept, d) {
				continue
			}
			ds, _ := b.itSpec(d)
			for _, k := range kept {
				if !contains(before, k) {
					c.Violate("truncate:type-invented", "NodeClaim (pool %s) lists %s, which was not among the scheduler's options %v", nc.NodePoolName, k, before)
					continue
				}
				ks, _ := b.itSpec(k)
				if pk, pd := refMinPrice(ks, zones, cts), refMinPrice(ds, zones, cts); pk > pd {
					c.Violate("truncate:dearer-kept:in-pass", "NodeClaim (pool %s, zones %v, capacity types %v) keeps %s (cheapest compatible available offering %v) but dropped the cheaper option %s (%v); options were %v, bound %d", nc.NodePoolName, zones, cts, k, pk, d, pd, before, s.MaxTypes)
				}
			}
		}
	}
	c.ClassIf(truncated, "options_truncated")
	c.ClassIf(truncated && narrowed, "claim_narrower_than_pool")
	c.NTIf(truncated)
	c.Sample(map[string]any{"types": len(s.World.Catalog), "bound": s.MaxTypes, "claims": len(res.NewNodeClaims), "truncated": truncated})
}

var propC19c = ev.Prop[c19cScenario]{
	ID: "C19", Test: "TestC19c",
	Rule: "a scheduler world (up to 9 instance types, 1-3 friendly pools without minValues, pods some of which pin a zone or capacity type) is run through the steps of Provisioner.Schedule (GetPendingPods, NewScheduler, Solve, Results.TruncateInstanceTypes with bound 1-4) so that the options before truncation are visible; " +
		"oracle: a NodeClaim with no more options than the bound keeps them all; otherwise it lists exactly `bound` of its options and no kept type's cheapest available offering admitted by the NodeClaim's own zone / capacity-type requirements is dearer than a dropped option's; " +
		"non-trivial = some NodeClaim was truncated",
	Assumptions: []string{"no minValues (truncation may keep dearer types to honour them: judged by TestC13c / TestC19b)", "reservations disabled"},
	Draw:        drawC19c, Exec: execC19c, ReplayTries: 5,
}

func TestC19c(t *testing.T) { ev.Run(t, propC19c) }
