package harness

import (
	"fmt"
	"testing"

	"k8s.io/apimachinery/pkg/types"
	"pgregory.net/rapid"

	"sigs.k8s.io/karpenter/pkg/state/nodepoolhealth"

	"verif/harness/ev"
)

// C20a: nodepoolhealth.State against a "last four outcomes" reference window.

type c20Op struct {
	Kind   string `json:"kind"` // update | dryrun | set | status
	UID    int    `json:"uid"`
	Val    bool   `json:"val,omitempty"`
	Status int    `json:"status,omitempty"`
}

type c20aScenario struct {
	Ops []c20Op `json:"ops"`
}

func drawC20a(t *rapid.T) *c20aScenario {
	n := rapid.IntRange(1, 60).Draw(t, "n")
	s := &c20aScenario{}
	// outcome bias per case so that long all-success / mostly-failure runs both occur
	bias := rapid.IntRange(1, 9).Draw(t, "bias")
	for i := 0; i < n; i++ {
		op := c20Op{UID: rapid.IntRange(0, 1).Draw(t, "uid")}
		switch k := rapid.IntRange(0, 19).Draw(t, "kind"); {
		case k < 11:
			op.Kind = "update"
			op.Val = rapid.IntRange(0, 9).Draw(t, "val") < bias
		case k < 18:
			op.Kind = "dryrun"
			op.Val = rapid.Bool().Draw(t, "val")
		case k < 19:
			op.Kind = "set"
			op.Status = rapid.IntRange(0, 2).Draw(t, "status")
		default:
			op.Kind = "status"
		}
		s.Ops = append(s.Ops, op)
	}
	return s
}

type window4 []bool

func (w window4) push(v bool) window4 {
	w = append(append(window4{}, w...), v)
	if len(w) > 4 {
		w = w[len(w)-4:]
	}
	return w
}

func (w window4) status() nodepoolhealth.Status {
	if len(w) == 0 {
		return nodepoolhealth.StatusUnknown
	}
	f := 0
	for _, v := range w {
		if !v {
			f++
		}
	}
	if 2*f >= 4 { // failures fill at least half of the 4-slot window
		return nodepoolhealth.StatusUnhealthy
	}
	return nodepoolhealth.StatusHealthy
}

func execC20a(s *c20aScenario, c *ev.Ctx) {
	st := nodepoolhealth.NewState()
	model := map[int]window4{}
	uid := func(i int) types.UID { return types.UID(fmt.Sprintf("pool-%d", i)) }
	recorded := map[int]int{}
	sawT, sawF := false, false
	wrapDryRun := false
	for i, op := range s.Ops {
		switch op.Kind {
		case "update":
			st.Update(uid(op.UID), op.Val)
			model[op.UID] = model[op.UID].push(op.Val)
			recorded[op.UID]++
			if op.Val {
				sawT = true
			} else {
				sawF = true
			}
		case "set":
			st.SetStatus(uid(op.UID), nodepoolhealth.Status(op.Status))
			switch nodepoolhealth.Status(op.Status) {
			case nodepoolhealth.StatusUnknown:
				model[op.UID] = nil
			case nodepoolhealth.StatusHealthy:
				model[op.UID] = window4{true}
			case nodepoolhealth.StatusUnhealthy:
				model[op.UID] = window4{false, false}
			}
			recorded[op.UID] = len(model[op.UID])
		case "dryrun":
			got := st.DryRun(uid(op.UID), op.Val).Status()
			want := model[op.UID].push(op.Val).status()
			if recorded[op.UID] > 4 {
				wrapDryRun = true
			}
			if got != want {
				sig := "dryrun"
				if recorded[op.UID] > 4 {
					sig = "dryrun:after-wrap"
				}
				c.Violate(sig, "step %d: DryRun(pool %d, %v).Status()=%d but recording it leads to %d (window %v)", i, op.UID, op.Val, got, want, model[op.UID])
			}
		}
		// after every step the real tracker agrees with the window (also shows DryRun left it unchanged)
		for u := 0; u <= 1; u++ {
			if got, want := st.Status(uid(u)), model[u].status(); got != want {
				c.Violate("status", "step %d (%+v): Status(pool %d)=%d, window %v says %d", i, op, u, got, model[u], want)
			}
		}
	}
	c.ClassIf(wrapDryRun, "dryrun_after_wrap")
	c.ClassIf(sawT && sawF, "both_outcomes")
	c.NTIf(wrapDryRun && sawT && sawF)
}

var propC20a = ev.Prop[c20aScenario]{
	ID: "C20", Test: "TestC20a",
	Rule: "rapid draws 1-40 operations (Update, DryRun, SetStatus, Status) over two NodePool UIDs with a per-case success bias; " +
		"oracle: chronological window of the last <=4 outcomes per pool (Unknown if empty, Unhealthy iff failures >= 2); " +
		"non-trivial = a DryRun issued after more than 4 recorded outcomes (ring wrapped) in a history with both outcomes",
	Assumptions: []string{"window size 4 and threshold one half as documented in the property"},
	Draw:        drawC20a, Exec: execC20a,
}

func TestC20a(t *testing.T) { ev.Run(t, propC20a) }
