package harness

import (
	"fmt"
	"testing"
	"time"

	metav1 "k8s.io/apimachinery/pkg/apis/meta/v1"
	"pgregory.net/rapid"
	"sigs.k8s.io/controller-runtime/pkg/client"

	v1 "sigs.k8s.io/karpenter/pkg/apis/v1"
	"sigs.k8s.io/karpenter/pkg/controllers/nodepool/registrationhealth"
	"sigs.k8s.io/karpenter/pkg/state/nodepoolhealth"
	testv1alpha1 "sigs.k8s.io/karpenter/pkg/test/v1alpha1"

	"verif/harness/ev"
	"verif/harness/sim"
)

// C20b: NodeRegistrationHealthy at controller level - the real lifecycle controller (registration success, liveness
// failure), the real registration-health controller (reset on NodePool / NodeClass updates, hydration after a restart)
// and nodepoolhealth.State, against the "last four outcomes since the last reset" window.

type c20bScenario struct {
	Events []string `json:"events"` // success | failure | poolEdit | classEdit | restart | health
}

func drawC20b(t *rapid.T) *c20bScenario {
	n := rapid.IntRange(2, 24).Draw(t, "n")
	bias := rapid.IntRange(2, 8).Draw(t, "bias")
	s := &c20bScenario{}
	for i := 0; i < n; i++ {
		switch k := rapid.IntRange(0, 19).Draw(t, "kind"); {
		case k < 13:
			if rapid.IntRange(0, 9).Draw(t, "outcome") < bias {
				s.Events = append(s.Events, "success")
			} else {
				s.Events = append(s.Events, "failure")
			}
		case k < 15:
			s.Events = append(s.Events, "classEdit")
		case k < 17:
			s.Events = append(s.Events, "poolEdit")
		case k < 18:
			s.Events = append(s.Events, "restart")
		default:
			s.Events = append(s.Events, "health")
		}
	}
	return s
}

func execC20b(s *c20bScenario, c *ev.Ctx) {
	w := sim.New(sim.Options{})
	nodeClass := w.ApplyNodeClass()
	w.Provider.Default = c14Catalog
	np := &v1.NodePool{ObjectMeta: metav1.ObjectMeta{Name: "p0", UID: "pool-uid-0", Generation: 1}}
	np.Spec.Template.Spec.ExpireAfter = v1.MustParseNillableDuration("Never")
	pool := w.ApplyPool(np)
	state := nodepoolhealth.NewState()
	lc := w.NewLifecycle(state)
	health := registrationhealth.NewController(w.Clock, w.Client, w.Provider, state)
	getPool := func() *v1.NodePool {
		p := &v1.NodePool{}
		w.Quiet(func() { _ = w.Client.Get(w.Ctx, client.ObjectKey{Name: "p0"}, p) })
		return p
	}
	reconcileHealth := func() {
		p := getPool()
		w.Quiet(func() { _, _ = health.Reconcile(w.Ctx, p) })
	}
	condOf := func() string {
		cnd := getPool().StatusConditions().Get(v1.ConditionTypeNodeRegistrationHealthy)
		switch {
		case cnd == nil:
			return "Absent"
		case cnd.IsTrue():
			return "True"
		case cnd.IsFalse():
			return "False"
		}
		return "Unknown"
	}
	// the registration-health controller sees the new pool first
	reconcileHealth()
	var win window4
	cond := "Unknown"
	seq := 0
	resets, restarts, outcomesAfterReset := 0, 0, 0
	for i, evn := range s.Events {
		c.Class("event:" + evn)
		switch evn {
		case "success", "failure":
			seq++
			now := w.Clock.Now()
			name := fmt.Sprintf("claim-%d", seq)
			nc := c16Claim1(w, name, pool, now.Add(-30*time.Minute))
			nc.Status.ProviderID = fmt.Sprintf("sim://zone-a/launch-%d", seq)
			nc.StatusConditions().SetTrue(v1.ConditionTypeLaunched)
			nc.StatusConditions().SetUnknownWithReason(v1.ConditionTypeRegistered, "NodeNotFound", "Node not registered with cluster")
			since := metav1.NewTime(now.Add(-time.Minute))
			if evn == "failure" {
				since = metav1.NewTime(now.Add(-16 * time.Minute)) // past the registration timeout
			}
			for j := range nc.Status.Conditions {
				nc.Status.Conditions[j].LastTransitionTime = since
			}
			w.Apply(nc)
			w.Provider.Adopt(nc, sim.LaunchOption{Type: c14Catalog[0], Offering: c14Catalog[0].Offerings[0], OS: "linux"})
			if evn == "success" {
				w.JoinNode(nc, sim.JoinOpts{Ready: true})
			}
			w.ReconcileNodeClaim(lc, name)
			win = win.push(evn == "success")
			if resets > 0 {
				outcomesAfterReset++
			}
			if evn == "success" && win.status() == nodepoolhealth.StatusHealthy {
				cond = "True"
			}
			if evn == "failure" && win.status() == nodepoolhealth.StatusUnhealthy {
				cond = "False"
			}
			// tidy: the claim's objects leave (they are not part of the property)
			if cur := w.GetNodeClaim(name); cur != nil {
				w.Remove(cur)
			}
			for _, n := range w.ListNodes() {
				n := n
				w.Remove(&n)
			}
			delete(w.Provider.Instances, nc.Status.ProviderID)
		case "poolEdit":
			p := getPool()
			p.Generation++
			p.Spec.Template.Labels = map[string]string{"ex.io/rev": fmt.Sprint(p.Generation)}
			w.Apply(p)
			reconcileHealth()
			win, cond = nil, "Unknown"
			resets++
		case "classEdit":
			nc := &testv1alpha1.TestNodeClass{}
			w.Quiet(func() { _ = w.Client.Get(w.Ctx, client.ObjectKeyFromObject(nodeClass), nc) })
			nc.Generation++
			w.Apply(nc)
			reconcileHealth()
			win, cond = nil, "Unknown"
			resets++
		case "restart":
			state = nodepoolhealth.NewState()
			lc = w.NewLifecycle(state)
			health = registrationhealth.NewController(w.Clock, w.Client, w.Provider, state)
			reconcileHealth()
			// the window is re-hydrated from the condition
			switch cond {
			case "True":
				win = window4{true}
			case "False":
				win = window4{false, false}
			default:
				win = nil
			}
			restarts++
		case "health":
			reconcileHealth()
		}
		if got := condOf(); got != cond {
			c.Violate(fmt.Sprintf("condition:%s-instead-of-%s:after-%s", got, cond, evn), "event %d (%s): NodeRegistrationHealthy is %s, the window %v since the last reset says %s (events %v)", i, evn, got, win, cond, s.Events[:i+1])
			return
		}
	}
	c.ClassIf(resets > 0 && outcomesAfterReset > 0, "outcomes_after_reset")
	c.ClassIf(restarts > 0, "restart")
	c.NTIf(resets > 0 && outcomesAfterReset > 0)
	c.Sample(map[string]any{"events": len(s.Events), "resets": resets, "restarts": restarts})
}

var propC20b = ev.Prop[c20bScenario]{
	ID: "C20", Test: "TestC20b",
	Rule: "rapid draws 2-24 events from {launch that registers, launch that hits the registration timeout, NodePool spec edit, NodeClass edit, controller restart, extra health reconcile}; each launch is a NodeClaim driven through the REAL lifecycle controller (registration records a success, liveness a failure), edits and restarts are followed by the REAL registration-health controller; " +
		"oracle: after every event the NodePool's NodeRegistrationHealthy condition equals the reference: a window of the four most recent outcomes since the last reset (empty after a reset, re-hydrated as [success] / [failure, failure] from the condition after a restart), failure sets False exactly when failures then fill >= half of the window, success sets True exactly when they fill less, a reset sets Unknown; " +
		"non-trivial = at least one outcome was recorded after a reset",
	Assumptions: []string{"generation bumps are applied by the harness (the fake API server does not maintain metadata.generation)", "one pool, one NodeClass"},
	Draw:        drawC20b, Exec: execC20b, ReplayTries: 3,
}

func TestC20b(t *testing.T) { ev.Run(t, propC20b) }
