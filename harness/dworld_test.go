package harness

import (
	"context"
	"fmt"
	"math"
	"os"
	"sort"
	"strconv"
	"strings"
	"sync"
	"sync/atomic"
	"time"

	corev1 "k8s.io/api/core/v1"
	policyv1 "k8s.io/api/policy/v1"
	"k8s.io/apimachinery/pkg/api/resource"
	metav1 "k8s.io/apimachinery/pkg/apis/meta/v1"
	"k8s.io/apimachinery/pkg/labels"
	"k8s.io/apimachinery/pkg/types"
	"k8s.io/apimachinery/pkg/util/intstr"
	"pgregory.net/rapid"
	"sigs.k8s.io/controller-runtime/pkg/client"

	v1 "sigs.k8s.io/karpenter/pkg/apis/v1"
	"sigs.k8s.io/karpenter/pkg/controllers/disruption"
	"sigs.k8s.io/karpenter/pkg/controllers/dynamicresources/deviceallocation"
	ncdisruption "sigs.k8s.io/karpenter/pkg/controllers/nodeclaim/disruption"
	"sigs.k8s.io/karpenter/pkg/controllers/nodeclaim/lifecycle"
	"sigs.k8s.io/karpenter/pkg/controllers/provisioning"
	"sigs.k8s.io/karpenter/pkg/state/virtualpods"

	"verif/harness/ev"
	"verif/harness/gen"
	"verif/harness/ref"
	"verif/harness/sim"
)

// ---------------------------------------------------------------------------------------------------------------------
// The disruption world (C05b, C06, C07, C08): a scheduler world whose nodes are mostly initialized and carry pods,
// decorated with every disruption blocker, budgets, drift and consolidation settings; a history of steps drives the
// REAL disruption controller (its five default methods wrapped by a recorder), the REAL orchestration queue, the REAL
// nodeclaim.disruption controller (Consolidatable maintenance) and the REAL NodeClaim lifecycle controller.
// ---------------------------------------------------------------------------------------------------------------------

type dPDB struct {
	Name        string `json:"name"`
	App         string `json:"app"`
	Allowed     int32  `json:"allowed"`
	AlwaysAllow bool   `json:"alwaysAllow,omitempty"`
	// IfHealthy: unhealthyPodEvictionPolicy is set explicitly to IfHealthyBudget (same meaning as unset)
	IfHealthy bool `json:"ifHealthy,omitempty"`
}

// dNodeX: disruption-relevant facts of a node that are not part of sim.NodeSpec.
type dNodeX struct {
	Drifted            bool   `json:"drifted,omitempty"`
	DriftedAgoSec      int    `json:"driftedAgoSec,omitempty"`
	LastPodEventAgoSec int    `json:"lastPodEventAgoSec,omitempty"` // 0: no pod event recorded
	DoNotDisrupt       string `json:"doNotDisrupt,omitempty"`       // node annotation value
	Nominated          bool   `json:"nominated,omitempty"`          // nominated for a pending pod at t0
	BufferPods         int    `json:"bufferPods,omitempty"`         // capacity-buffer placements recorded by the provisioner
	// ReadyStatus: how a NotReady node reports it: "" (Ready=False) | "Unknown" | "Missing" (no Ready condition)
	ReadyStatus string `json:"readyStatus,omitempty"`
	// ClaimTGP: the NodeClaim's own terminationGracePeriod differs from the pool template: "" (same) | "none" | "30s"
	ClaimTGP string `json:"claimTGP,omitempty"`
}

type dPodX struct {
	Terminating bool `json:"terminating,omitempty"`
}

// dMut is a change of the cluster made by "someone else" (users, kubelet, other controllers).
type dMut struct {
	Kind   string `json:"kind"`
	Target int    `json:"target"`
	Arg    string `json:"arg,omitempty"`
}

type dStep struct {
	Kind string `json:"kind"` // disrupt | advance | queue | init | lose | finish | mutate | provision
	Sec  int    `json:"sec,omitempty"`
	Mut  *dMut  `json:"mut,omitempty"` // for "mutate", and for "disrupt": applied while the controller waits to validate
}

type dScenario struct {
	World      *gen.SchedWorld   `json:"world"`
	PDBs       []dPDB            `json:"pdbs,omitempty"`
	NodeX      map[string]dNodeX `json:"nodeX,omitempty"`
	PodX       map[string]dPodX  `json:"podX,omitempty"`
	SpotToSpot bool              `json:"spotToSpot,omitempty"`
	StartUnix  int64             `json:"startUnix"`
	Steps      []dStep           `json:"steps"`
	// Budgets per pool in the reference form (also written into World.Pools)
	Budgets map[string][]ref.BudgetSpec `json:"budgets,omitempty"`
}

type dKnobs struct {
	Sched        gen.Knobs
	MaxSteps     int
	BlockerPct   int // probability of each individual blocker
	BudgetPct    int // probability that a pool carries generated (restrictive) budgets
	StaticPct    int
	DriftPct     int
	NeverPct     int // consolidateAfter: Never
	WhenEmptyPct int
	TGPPct       int
	EmptyNodePct int // probability that a node keeps no workload pods
	BigCatalog   int // probability of a catalog large enough for spot-to-spot
	Mutations    bool
	MultiRound   bool
	MinNodes     int
	EarlyPct     int // probability that a node is still registering / initializing
	BigPodPct    int // probability that a workload pod keeps the scheduler world's (often large) requests
	FillerPct    int // probability that a node carries a pod taking ~65% of its cpu
	MidWaitPct   int // probability that a third party changes something while a disrupt step waits to validate
	// MidWaitBlockers: mid-wait changes are mostly the ones that protect the node they land on
	MidWaitBlockers bool
	// MidWaitKinds (optional): the kinds of mid-wait changes to draw from
	MidWaitKinds []string
}

func defaultDKnobs() dKnobs {
	k := gen.DefaultKnobs()
	k.MaxNodes, k.MaxPools, k.MaxPending, k.MaxTypes = 7, 2, 2, 7
	k.InterPod, k.NoPrefs, k.NoLimits, k.NoSoftTaints, k.FriendlyPools, k.EasyPods, k.MoreInitialized = 0, true, true, true, true, true, true
	k.Overrides = false
	return dKnobs{Sched: k, MaxSteps: 6, BlockerPct: 10, BudgetPct: 30, StaticPct: 12, DriftPct: 25, NeverPct: 8, WhenEmptyPct: 20, TGPPct: 35, EmptyNodePct: 25, BigCatalog: 8, Mutations: true, MultiRound: true, MinNodes: 2, EarlyPct: 10, BigPodPct: 15, FillerPct: 30, MidWaitPct: 30}
}

// dpct is a calibrated Bernoulli draw (rapid's integer generators are heavily biased towards small values: IntRange(0,99)<10
// holds in ~42% of the draws). Seven fair bits give a uniform value in 0..127; the rare outcome sits at the top so
// that shrinking moves towards "no".
func dpct(t *rapid.T, p int, label string) bool {
	v := 0
	for i := 0; i < 7; i++ {
		v <<= 1
		if rapid.Bool().Draw(t, label) {
			v |= 1
		}
	}
	return v >= 128-(p*128+99)/100
}

// dNode draws a node of the disruption world with calibrated probabilities.
func dNode(t *rapid.T, i int, cat []sim.ITSpec, pools []*v1.NodePool, k dKnobs) sim.NodeSpec {
	l := fmt.Sprintf("node%d", i)
	opts := gen.AvailableOptions(cat)
	if len(opts) == 0 || dpct(t, k.BlockerPct, l+"_unmanaged") {
		n := sim.NodeSpec{Name: fmt.Sprintf("unmanaged-%d", i), Allocatable: map[string]string{"cpu": "8", "memory": "16Gi", "pods": "110"},
			Labels: map[string]string{corev1.LabelArchStable: "amd64", corev1.LabelOSStable: "linux", corev1.LabelTopologyZone: rapid.SampledFrom(gen.Zones).Draw(t, l+"_zoneV")}}
		return n
	}
	o := rapid.SampledFrom(opts).Draw(t, l+"_opt")
	pool := pools[rapid.IntRange(0, len(pools)-1).Draw(t, l+"_pool")]
	n := sim.NodeSpec{Name: fmt.Sprintf("node-%d", i), Pool: pool.Name, TypeName: o.Type.Name, Zone: o.Offering.Zone, CT: o.Offering.CapacityType, OS: o.OS, AgeSeconds: rapid.SampledFrom([]int{600, 30, 100, 4000}).Draw(t, l+"_age")}
	n.Stage = sim.StageInitialized
	if dpct(t, k.EarlyPct, l+"_early") {
		n.Stage = rapid.SampledFrom([]string{sim.StageRegistered, sim.StageLaunched, sim.StageUnregistered}).Draw(t, l+"_stage")
	}
	if n.Stage == sim.StageInitialized {
		n.NotReady = dpct(t, k.BlockerPct/2, l+"_notReady")
		n.Marked = dpct(t, k.BlockerPct/2, l+"_marked")
		n.ClaimDeleting = dpct(t, k.BlockerPct/2, l+"_claimDeleting")
	}
	return n
}

var dDoNotDisruptValues = []string{"true", "true", "10m", "45s", "2h", "false", "bogus", ""}

// drawDisrupt draws a disruption scenario.
func drawDisrupt(t *rapid.T, k dKnobs) *dScenario {
	s := &dScenario{NodeX: map[string]dNodeX{}, PodX: map[string]dPodX{}, Budgets: map[string][]ref.BudgetSpec{}}
	sk := k.Sched
	big := dpct(t, k.BigCatalog, "bigCatalog")
	if big {
		sk.MaxTypes = 22
	}
	w := gen.World(t, sk)
	if big {
		// many cheap spot types so that spot-to-spot has >= 15 cheaper options
		for i := len(w.Catalog); i < 18; i++ {
			w.Catalog = append(w.Catalog, sim.ITSpec{Name: fmt.Sprintf("s%d", i), Arch: "amd64", OS: []string{"linux"}, Family: "f1", Gen: "1",
				Capacity:  map[string]string{"cpu": "4", "memory": "8Gi", "pods": "110"},
				Offerings: []sim.OfferingSpec{{Zone: gen.Zones[i%len(gen.Zones)], CapacityType: v1.CapacityTypeSpot, Price: 0.1 + float64(i)/1000, Available: true}}})
		}
	}
	// the nodes and their workload are redrawn with calibrated probabilities
	nn := rapid.IntRange(k.MinNodes, sk.MaxNodes).Draw(t, "dNodes")
	w.Nodes, w.Bound, w.DaemonOn = nil, nil, nil
	for i := 0; i < nn; i++ {
		n := dNode(t, i, w.Catalog, w.Pools, k)
		w.Nodes = append(w.Nodes, n)
		if n.Stage == sim.StageLaunched || n.Stage == sim.StageUnlaunched {
			continue
		}
		nb := 1 + rapid.IntRange(0, 2).Draw(t, fmt.Sprintf("node%d_nBound", i))
		for j := 0; j < nb; j++ {
			bp := gen.BoundPod(t, len(w.Bound), n.Name, sk)
			if !dpct(t, k.BigPodPct, fmt.Sprintf("node%d_pod%d_big", i, j)) {
				// workload pods are mostly small, so that nodes are underutilized rather than over-committed
				bp.Spec.Containers[0].Resources.Requests = corev1.ResourceList{
					corev1.ResourceCPU:    resource.MustParse(rapid.SampledFrom([]string{"100m", "250m", "500m"}).Draw(t, fmt.Sprintf("node%d_pod%d_cpu", i, j))),
					corev1.ResourceMemory: resource.MustParse(rapid.SampledFrom([]string{"64Mi", "128Mi", "512Mi"}).Draw(t, fmt.Sprintf("node%d_pod%d_mem", i, j)))}
				bp.Spec.Containers[0].Resources.Limits = nil
			}
			w.Bound = append(w.Bound, bp)
		}
		// a filler pod takes most of the node: other nodes' pods cannot move here, which forces replacements
		if n.TypeName != "" && dpct(t, k.FillerPct, fmt.Sprintf("node%d_filler", i)) {
			for _, it := range w.Catalog {
				if it.Name != n.TypeName {
					continue
				}
				cpu := resource.MustParse(it.Capacity["cpu"])
				fp := gen.BoundPod(t, len(w.Bound), n.Name, sk)
				fp.Spec.Containers[0].Resources.Requests = corev1.ResourceList{corev1.ResourceCPU: *resource.NewMilliQuantity(cpu.MilliValue()*65/100, resource.DecimalSI)}
				fp.Spec.Containers[0].Resources.Limits = nil
				fp.Spec.Containers[0].Ports = nil
				fp.Labels["filler"] = "true"
				w.Bound = append(w.Bound, fp)
			}
		}
		for _, ds := range w.DaemonSets {
			if !dpct(t, 15, fmt.Sprintf("%s_missing_on_node%d", ds.Name, i)) {
				w.DaemonOn = append(w.DaemonOn, ds.Name+"@"+n.Name)
			}
		}
	}
	if len(w.Pending) > sk.MaxPending {
		w.Pending = w.Pending[:sk.MaxPending]
	}
	if dpct(t, 60, "noPending") {
		w.Pending = nil
	}
	s.World = w
	s.SpotToSpot = dpct(t, 50, "spotToSpot")

	// ---- pools: consolidation policy, consolidateAfter, budgets, static, terminationGracePeriod
	for i, np := range w.Pools {
		l := fmt.Sprintf("dpool%d", i)
		np.Spec.Disruption.ConsolidationPolicy = v1.ConsolidationPolicyWhenEmptyOrUnderutilized
		if dpct(t, k.WhenEmptyPct, l+"_whenEmpty") {
			np.Spec.Disruption.ConsolidationPolicy = v1.ConsolidationPolicyWhenEmpty
		} else if dpct(t, 12, l+"_balanced") {
			np.Spec.Disruption.ConsolidationPolicy = v1.ConsolidationPolicyBalanced
		}
		ca := "0s"
		if dpct(t, k.NeverPct, l+"_never") {
			ca = "Never"
		} else if dpct(t, 45, l+"_caLong") {
			ca = rapid.SampledFrom([]string{"30s", "2m", "10m", "1h"}).Draw(t, l+"_ca")
		}
		np.Spec.Disruption.ConsolidateAfter = v1.MustParseNillableDuration(ca)
		if dpct(t, k.TGPPct, l+"_tgp") {
			np.Spec.Template.Spec.TerminationGracePeriod = &metav1.Duration{Duration: time.Duration(rapid.SampledFrom([]int{30, 600}).Draw(t, l+"_tgpSec")) * time.Second}
		}
		if dpct(t, k.StaticPct, l+"_static") {
			r := int64(rapid.IntRange(1, 6).Draw(t, l+"_replicas"))
			np.Spec.Replicas = &r
			np.Spec.Weight = nil
			np.Spec.Limits = nil
		}
		np.Spec.Disruption.Budgets = []v1.Budget{{Nodes: "100%"}}
		s.Budgets[np.Name] = []ref.BudgetSpec{{Nodes: "100%"}}
		if dpct(t, k.BudgetPct, l+"_budgets") {
			n := rapid.IntRange(1, 3).Draw(t, l+"_nBudgets")
			var bs []ref.BudgetSpec
			for j := 0; j < n; j++ {
				bs = append(bs, genBudget(t, fmt.Sprintf("%s_b%d", l, j), true))
			}
			s.Budgets[np.Name] = bs
			np.Spec.Disruption.Budgets = nil
			for _, b := range bs {
				np.Spec.Disruption.Budgets = append(np.Spec.Disruption.Budgets, toBudget(b))
			}
		}
	}

	// ---- the instant: Epoch, or near a window edge of a scheduled budget
	start := sim.Epoch.Add(time.Duration(rapid.IntRange(0, 3000).Draw(t, "startOffsetMin")) * time.Minute)
	for pool, bs := range s.Budgets {
		_ = pool
		for i, b := range bs {
			if b.Schedule == nil || rapid.IntRange(0, 2).Draw(t, fmt.Sprintf("edge_%s_%d", pool, i)) == 0 {
				continue
			}
			cr, err := ref.ParseCron(*b.Schedule)
			if err != nil {
				continue
			}
			if hit, ok := cr.NextHit(start, 4500); ok {
				d := time.Duration(*b.DurationMin) * time.Minute
				edge := rapid.SampledFrom([]time.Duration{-20 * time.Second, -10 * time.Second, -time.Second, 0, time.Second, d - 20*time.Second, d - 10*time.Second, d - time.Second, d, d + time.Second, d / 2}).Draw(t, fmt.Sprintf("edgeKind_%s_%d", pool, i))
				start = hit.Add(edge)
			}
		}
	}
	s.StartUnix = start.Unix()

	// ---- PDBs
	nPDB := 0
	if dpct(t, 3*k.BlockerPct, "hasPDBs") {
		nPDB = rapid.IntRange(1, 3).Draw(t, "nPDBs")
	}
	for i := 0; i < nPDB; i++ {
		l := fmt.Sprintf("pdb%d", i)
		s.PDBs = append(s.PDBs, dPDB{Name: l, App: rapid.SampledFrom([]string{"web", "db", "cache"}).Draw(t, l+"_app"),
			Allowed: int32(rapid.SampledFrom([]int{0, 0, 1, 2}).Draw(t, l+"_allowed")), AlwaysAllow: dpct(t, 25, l+"_alwaysAllow"), IfHealthy: dpct(t, 35, l+"_ifHealthy")})
	}

	// ---- nodes
	for i := range w.Nodes {
		n := &w.Nodes[i]
		l := fmt.Sprintf("dnode%d", i)
		x := dNodeX{}
		if n.Pool == "" {
			continue
		}
		if dpct(t, k.DriftPct, l+"_drifted") {
			x.Drifted = true
			x.DriftedAgoSec = rapid.IntRange(0, 300).Draw(t, l+"_driftedAgo")
		}
		if dpct(t, 50, l+"_podEvent") {
			x.LastPodEventAgoSec = rapid.SampledFrom([]int{1, 10, 29, 30, 31, 100, 119, 120, 121, 599, 600, 3600, 4000}).Draw(t, l+"_podEventAgo")
		}
		if dpct(t, k.BlockerPct, l+"_dnd") {
			x.DoNotDisrupt = rapid.SampledFrom([]string{"true", "true", "false", "5m"}).Draw(t, l+"_dndV")
		}
		x.Nominated = dpct(t, k.BlockerPct, l+"_nominated")
		if n.NotReady {
			x.ReadyStatus = rapid.SampledFrom([]string{"", "Unknown", "Missing"}).Draw(t, l+"_readyStatus")
		}
		if dpct(t, 12, l+"_claimTGP") {
			x.ClaimTGP = rapid.SampledFrom([]string{"none", "30s"}).Draw(t, l+"_claimTGPV")
		}
		if dpct(t, k.BlockerPct/2, l+"_buffer") {
			x.BufferPods = rapid.IntRange(1, 2).Draw(t, l+"_bufferN")
		}
		s.NodeX[n.Name] = x
	}
	// empty some nodes
	emptied := map[string]bool{}
	for i, n := range w.Nodes {
		if dpct(t, k.EmptyNodePct, fmt.Sprintf("dnode%d_empty", i)) {
			emptied[n.Name] = true
		}
	}
	var kept []*corev1.Pod
	for _, p := range w.Bound {
		if !emptied[p.Spec.NodeName] {
			kept = append(kept, p)
		}
	}
	w.Bound = kept

	// ---- pods: owners, annotations, phases, tolerations, costs
	for i, p := range w.Bound {
		l := fmt.Sprintf("dpod%d", i)
		// replace the tolerate-everything toleration: workload pods normally do not tolerate the disruption taint
		p.Spec.Tolerations = []corev1.Toleration{{Key: "dedicated", Operator: corev1.TolerationOpExists}, {Key: "evict", Operator: corev1.TolerationOpExists}, {Key: "soft", Operator: corev1.TolerationOpExists}}
		if dpct(t, k.BlockerPct/2, l+"_toleratesAll") {
			p.Spec.Tolerations = []corev1.Toleration{{Operator: corev1.TolerationOpExists}}
		}
		p.Status.Phase = corev1.PodRunning
		p.Status.StartTime = &metav1.Time{Time: start.Add(-time.Duration(rapid.SampledFrom([]int{5, 40, 50, 300, 590, 610, 7000, 7300}).Draw(t, l+"_startAgo")) * time.Second)}
		p.Status.Conditions = []corev1.PodCondition{{Type: corev1.PodReady, Status: corev1.ConditionTrue}}
		if dpct(t, 15, l+"_unready") {
			p.Status.Conditions[0].Status = corev1.ConditionFalse
		}
		if dpct(t, k.BlockerPct, l+"_dnd") {
			v := rapid.SampledFrom(dDoNotDisruptValues).Draw(t, l+"_dndV")
			p.Annotations = map[string]string{v1.DoNotDisruptAnnotationKey: v}
			if dpct(t, 15, l+"_noStart") {
				p.Status.StartTime = nil
			}
		}
		switch 19 - rapid.IntRange(0, 19).Draw(t, l+"_owner") {
		case 0:
			p.OwnerReferences = []metav1.OwnerReference{{APIVersion: "apps/v1", Kind: "StatefulSet", Name: "ss", UID: "ss-uid", Controller: lo_ptr(true)}}
		case 1:
			p.OwnerReferences = []metav1.OwnerReference{{APIVersion: "v1", Kind: "Node", Name: p.Spec.NodeName, UID: "node-uid", Controller: lo_ptr(true)}}
		case 2:
			// (a DaemonSet-owned pod without its DaemonSet object would be an inconsistent world: Karpenter nets running
			// daemon pods against the DaemonSets it knows; real daemon pods come from the world's DaemonSets)
		case 3:
			p.OwnerReferences = nil
		}
		switch 19 - rapid.IntRange(0, 19).Draw(t, l+"_phase") {
		case 0:
			p.Status.Phase = corev1.PodSucceeded
		case 1:
			p.Status.Phase = corev1.PodFailed
		case 2:
			s.PodX[p.Name] = dPodX{Terminating: true}
		}
		switch 14 - rapid.IntRange(0, 14).Draw(t, l+"_cost") {
		case 0:
			if p.Annotations == nil {
				p.Annotations = map[string]string{}
			}
			p.Annotations[corev1.PodDeletionCost] = rapid.SampledFrom([]string{"-2147483647", "-500000000", "2147483647", "100"}).Draw(t, l+"_delCost")
		case 1:
			pr := int32(rapid.SampledFrom([]int{-2000000000, -100000000, 1000000000, 1000}).Draw(t, l+"_prio"))
			p.Spec.Priority = &pr
		}
	}

	// ---- history
	nSteps := 1
	if k.MultiRound {
		nSteps = rapid.IntRange(1, k.MaxSteps).Draw(t, "nSteps")
	}
	for i := 0; i < nSteps; i++ {
		l := fmt.Sprintf("step%d", i)
		kinds := []string{"disrupt", "disrupt", "disrupt", "disrupt", "advance", "queue", "init", "finish", "provision"}
		if k.Mutations {
			kinds = append(kinds, "mutate", "lose")
		}
		kind := rapid.SampledFrom(kinds).Draw(t, l+"_kind")
		if i == 0 && dpct(t, 70, l+"_firstDisrupt") {
			kind = "disrupt"
		}
		st := dStep{Kind: kind}
		switch kind {
		case "advance":
			st.Sec = rapid.SampledFrom([]int{1, 5, 9, 10, 11, 20, 21, 60, 600, 3600}).Draw(t, l+"_sec")
		case "mutate":
			m := drawMut(t, l, w)
			st.Mut = &m
		case "disrupt":
			if k.Mutations && dpct(t, k.MidWaitPct, l+"_midWait") {
				m := drawMut(t, l, w)
				if len(k.MidWaitKinds) > 0 {
					m.Kind = rapid.SampledFrom(k.MidWaitKinds).Draw(t, l+"_midWaitKindOf")
					if m.Kind == "nodeNotReady" {
						m.Arg = rapid.SampledFrom([]string{"", "Unknown", "Missing"}).Draw(t, l+"_midWaitArg")
					}
				}
				if k.MidWaitBlockers {
					// a change that protects the node it lands on
					m.Kind = rapid.SampledFrom([]string{"podAnnotate", "nodeAnnotate", "pdbBlock", "nominate", "podAnnotate", "nodeAnnotate", "addPod", "claimDelete"}).Draw(t, l+"_midWaitKind")
					if m.Kind == "podAnnotate" {
						m.Arg = "true"
					}
				}
				st.Mut = &m
			}
		}
		s.Steps = append(s.Steps, st)
	}
	return s
}

var dMutKinds = []string{"podAnnotate", "nodeAnnotate", "nodeNotReady", "podEvent", "claimDelete", "nominate", "pdbBlock", "drift", "addPod", "podDelete", "queueProgress", "queueProgress"}

func drawMut(t *rapid.T, l string, w *gen.SchedWorld) dMut {
	m := dMut{Kind: rapid.SampledFrom(dMutKinds).Draw(t, l+"_mutKind")}
	m.Target = rapid.IntRange(0, 15).Draw(t, l+"_mutTarget")
	if m.Kind == "podAnnotate" {
		m.Arg = rapid.SampledFrom([]string{"true", "true", "30m", "bogus"}).Draw(t, l+"_mutArg")
	}
	if m.Kind == "nodeNotReady" {
		m.Arg = rapid.SampledFrom([]string{"", "Unknown", "Missing"}).Draw(t, l+"_mutArg")
	}
	return m
}

func lo_ptr[T any](v T) *T { return &v }

// setNotReady makes the node not ready the way the kubelet / node lifecycle controller report it.
func setNotReady(n *corev1.Node, how string, now time.Time) {
	var kept []corev1.NodeCondition
	for _, c := range n.Status.Conditions {
		if c.Type != corev1.NodeReady {
			kept = append(kept, c)
		}
	}
	switch how {
	case "Missing":
	case "Unknown":
		kept = append(kept, corev1.NodeCondition{Type: corev1.NodeReady, Status: corev1.ConditionUnknown, LastTransitionTime: metav1.NewTime(now)})
	default:
		kept = append(kept, corev1.NodeCondition{Type: corev1.NodeReady, Status: corev1.ConditionFalse, LastTransitionTime: metav1.NewTime(now)})
	}
	n.Status.Conditions = kept
}

// ---------------------------------------------------------------------------------------------------------------------
// recorder around a disruption method
// ---------------------------------------------------------------------------------------------------------------------

type dRound struct {
	Step       int
	Method     string
	Reason     string
	Class      string
	Entry      time.Time
	Exit       time.Time
	BudgetsIn  map[string]int
	Candidates []string
	Cmds       []disruption.Command
	Err        error
	Snap       *dSnap
	// Started: provider ids whose command entered the queue (filled after the reconcile returned)
	Started map[string]bool
}

type recMethod struct {
	disruption.Method
	name string
	run  *dRun
}

func (m *recMethod) ComputeCommands(ctx context.Context, budgets map[string]int, candidates ...*disruption.Candidate) ([]disruption.Command, error) {
	r := &dRound{Step: m.run.step, Method: m.name, Reason: string(m.Method.Reason()), Class: m.Method.Class(), Entry: m.run.b.W.Clock.Now(), BudgetsIn: map[string]int{}}
	for k, v := range budgets {
		r.BudgetsIn[k] = v
	}
	for _, cn := range candidates {
		r.Candidates = append(r.Candidates, cn.Name())
		m.run.candObjs.Store(cn.ProviderID(), cn)
	}
	sort.Strings(r.Candidates)
	cmds, err := m.Method.ComputeCommands(ctx, budgets, candidates...)
	r.Exit = m.run.b.W.Clock.Now()
	r.Err = err
	for _, c := range cmds {
		if c.Decision() != disruption.NoOpDecision {
			r.Cmds = append(r.Cmds, c)
		}
	}
	if len(r.Cmds) > 0 {
		r.Snap = m.run.snapshot()
		m.run.inStart.Store(true)
	}
	m.run.rounds = append(m.run.rounds, r)
	if len(r.Cmds) > 0 {
		for _, o := range m.run.observers {
			o(r)
		}
	}
	return cmds, err
}

func (m *recMethod) SetNodePoolTotals(t map[string]disruption.NodePoolTotals) {
	if s, ok := m.Method.(disruption.NodePoolTotalsSetter); ok {
		s.SetNodePoolTotals(t)
	}
}

// ---------------------------------------------------------------------------------------------------------------------
// run state
// ---------------------------------------------------------------------------------------------------------------------

type dRun struct {
	b     *builtWorld
	s     *dScenario
	c     *ev.Ctx
	queue *disruption.Queue
	ctrl  *disruption.Controller
	ncd   *ncdisruption.Controller
	lc    *lifecycle.Controller
	step  int

	rounds    []*dRound
	observers []func(r *dRound)
	// facts the harness knows independently of Karpenter's in-memory state
	marked      map[string]bool      // provider ids marked for deletion at build time
	nominatedAt map[string]time.Time // provider id -> last nomination instant
	buffer      map[string]int
	window      time.Duration
	podSeq      int
	// where the system under test currently is (read by the fault matcher from controller goroutines)
	inCtrl, inStart, inQueue atomic.Bool
	// started: every command that entered the queue, as the queue holds it
	started []*disruption.Command
	// candObjs: provider id -> the latest Candidate object a method was offered for it
	candObjs sync.Map
}

// dSnap is the API state at one instant plus the harness-side facts.
type dSnap struct {
	Now      time.Time
	Nodes    map[string]*corev1.Node
	Claims   map[string]*v1.NodeClaim // by provider id
	ClaimsBy map[string]*v1.NodeClaim // by name
	Pods     []*corev1.Pod
	PDBs     []policyv1.PodDisruptionBudget
	Pools    map[string]*v1.NodePool
	InFlight map[string]bool // provider ids that are candidates of a command in the queue
	// NominatedAt: the harness's record of nominations as of this instant
	NominatedAt map[string]time.Time
}

func (r *dRun) snapshot() *dSnap {
	w := r.b.W
	sn := &dSnap{Now: w.Clock.Now(), Nodes: map[string]*corev1.Node{}, Claims: map[string]*v1.NodeClaim{}, ClaimsBy: map[string]*v1.NodeClaim{}, Pools: map[string]*v1.NodePool{}, InFlight: map[string]bool{}}
	w.Quiet(func() {
		var nodes corev1.NodeList
		_ = w.Client.List(w.Ctx, &nodes)
		for i := range nodes.Items {
			sn.Nodes[nodes.Items[i].Name] = &nodes.Items[i]
		}
		var ncs v1.NodeClaimList
		_ = w.Client.List(w.Ctx, &ncs)
		for i := range ncs.Items {
			if id := ncs.Items[i].Status.ProviderID; id != "" {
				sn.Claims[id] = &ncs.Items[i]
			}
			sn.ClaimsBy[ncs.Items[i].Name] = &ncs.Items[i]
		}
		var pods corev1.PodList
		_ = w.Client.List(w.Ctx, &pods)
		for i := range pods.Items {
			sn.Pods = append(sn.Pods, &pods.Items[i])
		}
		var pdbs policyv1.PodDisruptionBudgetList
		_ = w.Client.List(w.Ctx, &pdbs)
		sn.PDBs = pdbs.Items
		var nps v1.NodePoolList
		_ = w.Client.List(w.Ctx, &nps)
		for i := range nps.Items {
			sn.Pools[nps.Items[i].Name] = &nps.Items[i]
		}
	})
	for _, cmd := range r.queue.GetCommands() {
		for _, cn := range cmd.Candidates {
			sn.InFlight[cn.ProviderID()] = true
		}
	}
	sn.NominatedAt = map[string]time.Time{}
	for k, v := range r.nominatedAt {
		sn.NominatedAt[k] = v
	}
	return sn
}

func (sn *dSnap) podsOn(node string) []*corev1.Pod {
	var out []*corev1.Pod
	for _, p := range sn.Pods {
		if p.Spec.NodeName == node {
			out = append(out, p)
		}
	}
	return out
}

// ---- independent pod predicates (written from the documentation / the property statements) -------------------------

func dTerminal(p *corev1.Pod) bool {
	return p.Status.Phase == corev1.PodSucceeded || p.Status.Phase == corev1.PodFailed
}
func dTerminating(p *corev1.Pod) bool { return p.DeletionTimestamp != nil }
func dActive(p *corev1.Pod) bool      { return !dTerminal(p) && !dTerminating(p) }
func dOwnedBy(p *corev1.Pod, kind string) bool {
	for _, o := range p.OwnerReferences {
		if o.Kind == kind {
			return true
		}
	}
	return false
}

// dReschedulable: the pod will need a new home when its node goes away.
func dReschedulable(p *corev1.Pod) bool {
	return (dActive(p) || (dOwnedBy(p, "StatefulSet") && dTerminating(p) && !dTerminal(p))) && !dOwnedBy(p, "DaemonSet") && !dOwnedBy(p, "Node")
}

func dToleratesDisrupted(p *corev1.Pod) bool {
	taint := v1.DisruptedNoScheduleTaint
	for _, tol := range p.Spec.Tolerations {
		if tol.Effect != "" && tol.Effect != taint.Effect {
			continue
		}
		if tol.Key != "" && tol.Key != taint.Key {
			continue
		}
		if tol.Operator == corev1.TolerationOpExists || (tol.Key != "" && tol.Value == taint.Value) {
			return true
		}
	}
	return false
}

// dDoNotDisruptActive: "true", or a duration that has not elapsed since the pod started (unknown start: still active).
func dDoNotDisruptActive(p *corev1.Pod, now time.Time) bool {
	v, ok := p.Annotations[v1.DoNotDisruptAnnotationKey]
	if !ok {
		return false
	}
	if v == "true" {
		return true
	}
	d, err := time.ParseDuration(v)
	if err != nil || d <= 0 {
		return false
	}
	if p.Status.StartTime == nil {
		return true
	}
	return now.Sub(p.Status.StartTime.Time) < d
}

// dPDBBlocks: evicting the pod through the eviction API is refused right now.
func (sn *dSnap) dPDBBlocks(p *corev1.Pod) (string, bool) {
	// pods Karpenter would not evict (finished, already terminating, static, tolerating the disruption taint) are not
	// subject to PDB blocking
	if !dActive(p) || dOwnedBy(p, "Node") || dToleratesDisrupted(p) {
		return "", false
	}
	var matching []*policyv1.PodDisruptionBudget
	for i := range sn.PDBs {
		pdb := &sn.PDBs[i]
		sel, err := metav1.LabelSelectorAsSelector(pdb.Spec.Selector)
		if err != nil || pdb.Namespace != p.Namespace || !sel.Matches(labels.Set(p.Labels)) {
			continue
		}
		matching = append(matching, pdb)
	}
	if len(matching) > 1 {
		return "multiple-pdbs", true
	}
	for _, pdb := range matching {
		if pdb.Spec.UnhealthyPodEvictionPolicy != nil && *pdb.Spec.UnhealthyPodEvictionPolicy == policyv1.AlwaysAllow {
			for _, c := range p.Status.Conditions {
				if c.Type == corev1.PodReady && c.Status == corev1.ConditionFalse {
					return "", false
				}
			}
		}
		if pdb.Status.DisruptionsAllowed == 0 {
			return "pdb:" + pdb.Name, true
		}
	}
	return "", false
}

func dEvictionCost(p *corev1.Pod) float64 {
	cost := 1.0
	if s, ok := p.Annotations[corev1.PodDeletionCost]; ok {
		if f, err := strconv.ParseFloat(s, 64); err == nil {
			cost += f / math.Pow(2, 27)
		}
	}
	if p.Spec.Priority != nil {
		cost += float64(*p.Spec.Priority) / math.Pow(2, 25)
	}
	return math.Max(-10, math.Min(10, cost))
}

// dEmpty: no reschedulable pod with a positive eviction cost.
func (sn *dSnap) dEmpty(node string) bool {
	for _, p := range sn.podsOn(node) {
		if dReschedulable(p) && dEvictionCost(p) > 0 {
			return false
		}
	}
	return true
}

// ---------------------------------------------------------------------------------------------------------------------
// building and stepping
// ---------------------------------------------------------------------------------------------------------------------

func newDRun(s *dScenario, c *ev.Ctx) *dRun {
	return newDRunWith(s, c, nil)
}

func newDRunWith(s *dScenario, c *ev.Ctx, prepare func(*builtWorld)) *dRun {
	ko := karpenterOptions(s.World.Options)
	ko.FeatureGates.SpotToSpotConsolidation = s.SpotToSpot
	ko.FeatureGates.StaticCapacity = true
	b := buildWith(s.World, c, sim.Options{Karpenter: ko, Start: time.Unix(s.StartUnix, 0).UTC()})
	w := b.W
	r := &dRun{b: b, s: s, c: c, marked: map[string]bool{}, nominatedAt: map[string]time.Time{}, buffer: map[string]int{}}
	r.window = 2 * ko.BatchMaxDuration
	if r.window < 10*time.Second {
		r.window = 10 * time.Second
	}
	now := w.Clock.Now()
	// PDBs
	for _, p := range s.PDBs {
		pdb := &policyv1.PodDisruptionBudget{ObjectMeta: metav1.ObjectMeta{Name: p.Name, Namespace: "default"},
			Spec:   policyv1.PodDisruptionBudgetSpec{Selector: &metav1.LabelSelector{MatchLabels: map[string]string{"app": p.App}}, MaxUnavailable: lo_ptr(intstr.FromInt32(1))},
			Status: policyv1.PodDisruptionBudgetStatus{DisruptionsAllowed: p.Allowed}}
		if p.AlwaysAllow {
			pdb.Spec.UnhealthyPodEvictionPolicy = lo_ptr(policyv1.AlwaysAllow)
		} else if p.IfHealthy {
			pdb.Spec.UnhealthyPodEvictionPolicy = lo_ptr(policyv1.IfHealthyBudget)
		}
		w.Apply(pdb)
	}
	// node extras
	names := make([]string, 0, len(b.Nodes))
	for n := range b.Nodes {
		names = append(names, n)
	}
	sort.Strings(names)
	for _, name := range names {
		bn := b.Nodes[name]
		x, ok := s.NodeX[name]
		if bn.NodeClaim == nil {
			continue
		}
		if bn.Spec.Marked && bn.NodeClaim.Status.ProviderID != "" {
			r.marked[bn.NodeClaim.Status.ProviderID] = true
		}
		if !ok {
			continue
		}
		nc := w.GetNodeClaim(bn.NodeClaim.Name)
		if nc == nil {
			continue
		}
		changed := false
		if x.Drifted {
			w.Provider.SetDrifted(nc.Name, "CloudProviderDrift")
			nc.StatusConditions().SetTrueWithReason(v1.ConditionTypeDrifted, "CloudProviderDrift", "CloudProviderDrift")
			for i := range nc.Status.Conditions {
				if nc.Status.Conditions[i].Type == v1.ConditionTypeDrifted {
					nc.Status.Conditions[i].LastTransitionTime = metav1.NewTime(now.Add(-time.Duration(x.DriftedAgoSec) * time.Second))
				}
			}
			changed = true
		}
		if x.LastPodEventAgoSec > 0 && bn.Spec.Stage == sim.StageInitialized {
			nc.Status.LastPodEventTime = metav1.NewTime(now.Add(-time.Duration(x.LastPodEventAgoSec) * time.Second))
			changed = true
		}
		switch x.ClaimTGP {
		case "none":
			nc.Spec.TerminationGracePeriod = nil
			changed = true
		case "30s":
			nc.Spec.TerminationGracePeriod = &metav1.Duration{Duration: 30 * time.Second}
			changed = true
		}
		if changed {
			w.Apply(nc)
			bn.NodeClaim = nc
		}
		if x.ReadyStatus != "" && bn.Node != nil {
			bn.Node = w.UpdateNode(bn.Node.Name, func(n *corev1.Node) { setNotReady(n, x.ReadyStatus, now) })
		}
		if x.DoNotDisrupt != "" && bn.Node != nil {
			bn.Node = w.UpdateNode(bn.Node.Name, func(n *corev1.Node) {
				if n.Annotations == nil {
					n.Annotations = map[string]string{}
				}
				n.Annotations[v1.DoNotDisruptAnnotationKey] = x.DoNotDisrupt
			})
		}
	}
	// terminating pods
	for name, x := range s.PodX {
		if !x.Terminating {
			continue
		}
		p := &corev1.Pod{}
		var err error
		w.Quiet(func() { err = w.Client.Get(w.Ctx, types.NamespacedName{Namespace: "default", Name: name}, p) })
		if err == nil {
			w.SetPodDeletionTime(p, now.Add(20*time.Second))
		}
	}
	if prepare != nil {
		prepare(b)
	}
	w.Sync()
	for _, name := range names {
		bn := b.Nodes[name]
		x := s.NodeX[name]
		if bn.NodeClaim == nil || bn.NodeClaim.Status.ProviderID == "" {
			continue
		}
		pid := bn.NodeClaim.Status.ProviderID
		if x.Nominated {
			w.Cluster.NominateNodeForPod(w.Ctx, pid)
			r.nominatedAt[pid] = now
		}
		if x.BufferPods > 0 {
			r.buffer[pid] = x.BufferPods
		}
	}
	w.Cluster.UpdateBufferPodCounts(copyIntMap(r.buffer))
	r.wire()
	return r
}

// wire builds the controllers under test on the world's current in-memory state (also used after a restart).
func (r *dRun) wire() {
	w, b := r.b.W, r.b
	r.queue = disruption.NewQueue(w.Client, w.Recorder, w.Cluster, w.Clock, b.Provisioner)
	inner := disruption.NewMethods(w.Clock, w.Cluster, w.Client, b.Provisioner, w.Provider, w.Recorder, r.queue)
	var methods []disruption.Method
	for _, m := range inner {
		name := strings.TrimPrefix(fmt.Sprintf("%T", m), "*disruption.")
		methods = append(methods, &recMethod{Method: m, name: name, run: r})
	}
	r.ctrl = disruption.NewController(w.Clock, w.Client, b.Provisioner, w.Provider, w.Recorder, w.Cluster, r.queue, w.Cost, disruption.WithMethods(methods...))
	r.ncd = ncdisruption.NewController(w.Clock, w.Client, w.Provider)
	r.lc = w.NewLifecycle(nil)
}

// restart loses everything the controllers keep in memory: cluster state (marks, nominations), the orchestration
// queue with its commands in flight, the provisioner and the method state.
func (r *dRun) restart() {
	w := r.b.W
	w.RestartState()
	r.b.Provisioner = provisioning.NewProvisioner(w.Client, w.Recorder, w.Provider, w.Cluster, w.Clock, deviceallocation.NewController(w.Client), virtualpods.NewVirtualPodCache(w.Client))
	r.marked = map[string]bool{}
	r.nominatedAt = map[string]time.Time{}
	r.buffer = map[string]int{}
	r.wire()
	r.c.Class("restart")
}

func copyIntMap(m map[string]int) map[string]int {
	out := map[string]int{}
	for k, v := range m {
		out[k] = v
	}
	return out
}

// refreshConsolidatable runs the real nodeclaim.disruption controller for every NodeClaim (it owns the Consolidatable
// condition) and delivers the result to the cluster state.
func (r *dRun) refreshConsolidatable() {
	w := r.b.W
	for _, nc := range w.ListNodeClaims() {
		nc := nc
		w.Quiet(func() { _, _ = r.ncd.Reconcile(w.Ctx, &nc) })
	}
	w.Sync()
}

func (r *dRun) nodeAt(i int) *sim.BuiltNode {
	names := make([]string, 0, len(r.b.Nodes))
	for n, bn := range r.b.Nodes {
		if bn.Node != nil {
			names = append(names, n)
		}
	}
	if len(names) == 0 {
		return nil
	}
	sort.Strings(names)
	return r.b.Nodes[names[i%len(names)]]
}

func (r *dRun) podAt(i int) *corev1.Pod {
	pods := r.b.W.ListPods()
	var bound []corev1.Pod
	for _, p := range pods {
		if p.Spec.NodeName != "" && !dOwnedBy(&p, "DaemonSet") && p.DeletionTimestamp == nil {
			bound = append(bound, p)
		}
	}
	if len(bound) == 0 {
		return nil
	}
	sort.Slice(bound, func(a, b int) bool { return bound[a].Name < bound[b].Name })
	return &bound[i%len(bound)]
}

// mutate applies a third-party change and lets the informers see it.
func (r *dRun) mutate(m dMut) {
	w := r.b.W
	c := r.c
	now := w.Clock.Now()
	c.Class("mut:" + m.Kind)
	switch m.Kind {
	case "queueProgress":
		// the orchestration queue is its own controller: it keeps reconciling the commands in flight while the
		// disruption controller computes / validates the next one. While the disruption controller's goroutine is
		// parked on the fake clock the queue is reconciled synchronously (queue.Reconcile never waits on the clock;
		// stepping the clock here would wake the parked controller and run the two truly concurrently)
		if r.inCtrl.Load() {
			cmds := r.queue.GetCommands()
			sort.Slice(cmds, func(i, j int) bool { return cmds[i].Candidates[0].Name() < cmds[j].Candidates[0].Name() })
			r.inCtrl.Store(false)
			for _, cmd := range cmds {
				r.inQueue.Store(true)
				_, _ = r.queue.Reconcile(w.Ctx, cmd.Candidates[0].NodeClaim)
				r.inQueue.Store(false)
			}
			r.inCtrl.Store(true)
		} else {
			r.runQueue()
		}
	case "podAnnotate":
		if p := r.podAt(m.Target); p != nil {
			if p.Annotations == nil {
				p.Annotations = map[string]string{}
			}
			p.Annotations[v1.DoNotDisruptAnnotationKey] = m.Arg
			w.Apply(p)
		}
	case "podDelete":
		if p := r.podAt(m.Target); p != nil {
			w.Remove(p)
		}
	case "nodeAnnotate":
		if bn := r.nodeAt(m.Target); bn != nil {
			w.UpdateNode(bn.Node.Name, func(n *corev1.Node) {
				if n.Annotations == nil {
					n.Annotations = map[string]string{}
				}
				n.Annotations[v1.DoNotDisruptAnnotationKey] = "true"
			})
		}
	case "nodeNotReady":
		if bn := r.nodeAt(m.Target); bn != nil {
			w.UpdateNode(bn.Node.Name, func(n *corev1.Node) { setNotReady(n, m.Arg, now) })
		}
	case "podEvent":
		if bn := r.nodeAt(m.Target); bn != nil && bn.NodeClaim != nil {
			if nc := w.GetNodeClaim(bn.NodeClaim.Name); nc != nil && nc.DeletionTimestamp.IsZero() {
				nc.Status.LastPodEventTime = metav1.NewTime(now)
				w.Apply(nc)
				w.Quiet(func() {
					_, err := r.ncd.Reconcile(w.Ctx, nc)
					if os.Getenv("VERIF_DBG") != "" {
						fmt.Println("DBG podEvent", nc.Name, err, nc.StatusConditions().Get(v1.ConditionTypeConsolidatable))
					}
				})
			}
		}
	case "addPod":
		if bn := r.nodeAt(m.Target); bn != nil {
			r.podSeq++
			p := sim.Bound(&corev1.Pod{ObjectMeta: metav1.ObjectMeta{Name: fmt.Sprintf("late-%02d", r.podSeq), Namespace: "default", UID: types.UID(fmt.Sprintf("late-uid-%02d", r.podSeq)), Labels: map[string]string{"app": "web"},
				OwnerReferences: []metav1.OwnerReference{{APIVersion: "apps/v1", Kind: "ReplicaSet", Name: "rs", UID: "rs-uid", Controller: lo_ptr(true)}}},
				Spec: corev1.PodSpec{Containers: []corev1.Container{{Name: "c", Image: "img"}}}}, bn.Node.Name)
			p.Status.Phase = corev1.PodRunning
			p.Status.StartTime = &metav1.Time{Time: now}
			w.Apply(p)
			r.b.Originals[p.UID] = p.DeepCopy()
			if bn.NodeClaim != nil {
				if nc := w.GetNodeClaim(bn.NodeClaim.Name); nc != nil && nc.DeletionTimestamp.IsZero() {
					nc.Status.LastPodEventTime = metav1.NewTime(now)
					w.Apply(nc)
					w.Quiet(func() { _, _ = r.ncd.Reconcile(w.Ctx, nc) })
				}
			}
		}
	case "claimDelete":
		if bn := r.nodeAt(m.Target); bn != nil && bn.NodeClaim != nil {
			if nc := w.GetNodeClaim(bn.NodeClaim.Name); nc != nil {
				w.Delete(nc)
			}
		}
	case "nominate":
		if bn := r.nodeAt(m.Target); bn != nil && bn.NodeClaim != nil && bn.NodeClaim.Status.ProviderID != "" {
			w.Cluster.NominateNodeForPod(w.Ctx, bn.NodeClaim.Status.ProviderID)
			r.nominatedAt[bn.NodeClaim.Status.ProviderID] = now
		}
	case "pdbBlock":
		if len(r.s.PDBs) > 0 {
			name := r.s.PDBs[m.Target%len(r.s.PDBs)].Name
			pdb := &policyv1.PodDisruptionBudget{}
			var err error
			w.Quiet(func() { err = w.Client.Get(w.Ctx, types.NamespacedName{Namespace: "default", Name: name}, pdb) })
			if err == nil {
				pdb.Status.DisruptionsAllowed = 0
				w.Apply(pdb)
			}
		}
	case "drift":
		if bn := r.nodeAt(m.Target); bn != nil && bn.NodeClaim != nil {
			if nc := w.GetNodeClaim(bn.NodeClaim.Name); nc != nil && nc.DeletionTimestamp.IsZero() {
				w.Provider.SetDrifted(nc.Name, "CloudProviderDrift")
				w.Quiet(func() { _, _ = r.ncd.Reconcile(w.Ctx, nc) })
			}
		}
	}
	w.Sync()
}

// disruptOnce is one reconcile of the disruption controller; mid (optional) is applied while it waits to validate.
func (r *dRun) disruptOnce(mid *dMut) {
	w := r.b.W
	r.refreshConsolidatable()
	before := len(r.rounds)
	applied := false
	r.inCtrl.Store(true)
	defer func() { r.inCtrl.Store(false); r.inStart.Store(false) }()
	w.RunBlocking(func() {
		res, err := r.ctrl.Reconcile(w.Ctx)
		if os.Getenv("VERIF_DBG") != "" {
			fmt.Println("    DBG disruption reconcile ->", res, err)
		}
	}, 5*time.Second, func(n int) {
		if mid != nil && !applied {
			applied = true
			r.c.Class("mid_wait_mutation")
			r.mutate(*mid)
		}
	})
	r.inCtrl.Store(false)
	r.inStart.Store(false)
	// which commands entered the queue; nominations made by StartCommand
	inQueue := map[string]bool{}
	for _, cmd := range r.queue.GetCommands() {
		known := false
		for _, k := range r.started {
			known = known || k == cmd
		}
		if !known {
			r.started = append(r.started, cmd)
		}
		for _, cn := range cmd.Candidates {
			inQueue[cn.ProviderID()] = true
		}
	}
	for _, rd := range r.rounds[before:] {
		rd.Started = map[string]bool{}
		for _, cmd := range rd.Cmds {
			started := false
			for _, cn := range cmd.Candidates {
				if inQueue[cn.ProviderID()] {
					rd.Started[cn.ProviderID()] = true
					started = true
				}
			}
			if started {
				for _, en := range cmd.Results.ExistingNodes {
					if len(en.Pods) > 0 {
						r.nominatedAt[en.ProviderID()] = w.Clock.Now()
					}
				}
			}
		}
	}
	w.Sync()
}

// initReplacements drives every not-yet-initialized NodeClaim through the real lifecycle controller.
func (r *dRun) initReplacements() {
	w := r.b.W
	for _, nc := range w.ListNodeClaims() {
		if !nc.DeletionTimestamp.IsZero() || nc.StatusConditions().Get(v1.ConditionTypeInitialized).IsTrue() {
			continue
		}
		if r.b.nodeByStateName(nc.Name) != nil {
			continue // a node of the generated world that is deliberately kept in an early stage
		}
		name := nc.Name
		if _, _, ok := w.ReconcileNodeClaim(r.lc, name); !ok {
			continue
		}
		cur := w.GetNodeClaim(name)
		if cur == nil || cur.Status.ProviderID == "" || !cur.DeletionTimestamp.IsZero() {
			r.c.Class("replacement_launch_failed")
			continue
		}
		node := w.JoinNode(cur, sim.JoinOpts{Ready: false})
		w.ReconcileNodeClaim(r.lc, name)
		w.MakeNodeReady(node.Name, cur)
		w.ReconcileNodeClaim(r.lc, name)
		cur = w.GetNodeClaim(name)
		var n corev1.Node
		w.Quiet(func() { _ = w.Client.Get(w.Ctx, types.NamespacedName{Name: node.Name}, &n) })
		opt := w.Provider.Instances[cur.Status.ProviderID].Option
		r.b.Nodes[node.Name] = &sim.BuiltNode{Spec: sim.NodeSpec{Name: node.Name, Pool: cur.Labels[v1.NodePoolLabelKey], TypeName: opt.Type.Name, Zone: opt.Offering.Zone, CT: opt.Offering.CapacityType, Stage: sim.StageInitialized}, Node: &n, NodeClaim: cur, Option: &opt}
		r.c.Class("replacement_initialized")
	}
	w.Sync()
}

// runQueue reconciles the orchestration queue once per command in flight.
func (r *dRun) runQueue() {
	w := r.b.W
	cmds := r.queue.GetCommands()
	sort.Slice(cmds, func(i, j int) bool { return cmds[i].Candidates[0].Name() < cmds[j].Candidates[0].Name() })
	for _, cmd := range cmds {
		nc := cmd.Candidates[0].NodeClaim
		r.inQueue.Store(true)
		w.RunBlocking(func() { _, _ = r.queue.Reconcile(w.Ctx, nc) }, time.Second, nil)
		r.inQueue.Store(false)
	}
	w.Sync()
}

// loseReplacement removes one NodeClaim that Karpenter created and that is not initialized yet.
func (r *dRun) loseReplacement() {
	w := r.b.W
	for _, nc := range w.ListNodeClaims() {
		if r.b.nodeByStateName(nc.Name) != nil || nc.StatusConditions().Get(v1.ConditionTypeInitialized).IsTrue() {
			continue
		}
		nc := nc
		w.Remove(&nc)
		r.c.Class("replacement_lost")
		break
	}
	w.Sync()
}

// loseReplacementNoSync removes a replacement from the API without delivering the deletion to the cluster state.
func (r *dRun) loseReplacementNoSync() {
	w := r.b.W
	for _, nc := range w.ListNodeClaims() {
		if r.b.nodeByStateName(nc.Name) != nil || nc.StatusConditions().Get(v1.ConditionTypeInitialized).IsTrue() {
			continue
		}
		nc := nc
		w.Remove(&nc)
		r.c.Class("replacement_lost_unseen")
		break
	}
}

// candidateGone removes the first candidate (by name) of a command in flight from the cluster, together with its pods.
func (r *dRun) candidateGone() {
	w := r.b.W
	cmds := r.queue.GetCommands()
	sort.Slice(cmds, func(i, j int) bool { return cmds[i].Candidates[0].Name() < cmds[j].Candidates[0].Name() })
	for _, cmd := range cmds {
		if len(cmd.Candidates) < 2 {
			continue
		}
		cn := cmd.Candidates[0]
		nc := w.GetNodeClaim(cn.NodeClaim.Name)
		if nc == nil {
			continue
		}
		for _, p := range w.ListPods() {
			if cn.Node != nil && p.Spec.NodeName == cn.Node.Name {
				p := p
				w.Remove(&p)
			}
		}
		if cn.Node != nil {
			n := &corev1.Node{ObjectMeta: metav1.ObjectMeta{Name: cn.Node.Name}}
			var err error
			w.Quiet(func() { err = w.Client.Get(w.Ctx, client.ObjectKeyFromObject(n), n) })
			if err == nil {
				w.Remove(n)
			}
			if bn := r.b.Nodes[cn.Node.Name]; bn != nil {
				bn.Node = nil
			}
		}
		delete(w.Provider.Instances, nc.Status.ProviderID)
		w.Remove(nc)
		r.c.Class("candidate_gone")
		break
	}
	w.Sync()
}

// finishDeleting completes the termination of every deleting NodeClaim: its pods leave, Node and NodeClaim disappear.
func (r *dRun) finishDeleting() {
	w := r.b.W
	for _, nc := range w.ListNodeClaims() {
		if nc.DeletionTimestamp.IsZero() {
			continue
		}
		nc := nc
		for _, p := range w.ListPods() {
			if p.Spec.NodeName != "" && p.Spec.NodeName == nc.Status.NodeName {
				p := p
				w.Remove(&p)
			}
		}
		if nc.Status.NodeName != "" {
			n := &corev1.Node{ObjectMeta: metav1.ObjectMeta{Name: nc.Status.NodeName}}
			var err error
			w.Quiet(func() { err = w.Client.Get(w.Ctx, client.ObjectKeyFromObject(n), n) })
			if err == nil {
				w.Remove(n)
			}
			if bn := r.b.Nodes[nc.Status.NodeName]; bn != nil {
				bn.Node = nil
			}
		}
		delete(w.Provider.Instances, nc.Status.ProviderID)
		w.Remove(&nc)
		r.c.Class("node_terminated")
	}
	w.Sync()
}

func (r *dRun) provision() {
	w := r.b.W
	res, err := r.b.Provisioner.Schedule(w.Ctx)
	if err != nil {
		r.c.Class("provision_error")
		return
	}
	// Schedule nominates the existing nodes it placed pods on
	for _, en := range res.ExistingNodes {
		if len(en.Pods) > 0 {
			r.nominatedAt[en.ProviderID()] = w.Clock.Now()
			r.c.Class("provisioner_nominated_node")
		}
	}
	if len(res.NewNodeClaims) > 0 {
		_, _ = r.b.Provisioner.CreateNodeClaims(w.Ctx, res.NewNodeClaims)
	}
	w.Sync()
}

// play runs the history.
func (r *dRun) play() {
	for i, st := range r.s.Steps {
		r.step = i
		r.c.Class("step:" + st.Kind)
		switch st.Kind {
		case "disrupt":
			r.disruptOnce(st.Mut)
		case "advance":
			r.b.W.Clock.Step(time.Duration(st.Sec) * time.Second)
		case "queue":
			r.runQueue()
		case "init":
			r.initReplacements()
		case "lose":
			r.loseReplacement()
		case "finish":
			r.finishDeleting()
		case "mutate":
			if st.Mut != nil {
				r.mutate(*st.Mut)
			}
		case "provision":
			r.provision()
		case "restart":
			r.restart()
		}
	}
}

// ---------------------------------------------------------------------------------------------------------------------
// independent eligibility predicate (C07)
// ---------------------------------------------------------------------------------------------------------------------

func isConsolidationMethod(m string) bool {
	return m == "Emptiness" || m == "MultiNodeConsolidation" || m == "SingleNodeConsolidation"
}

// blockers lists every reason why the node must not be selected by the method at the instant of the snapshot.
func (r *dRun) blockers(sn *dSnap, nodeName, method, class string, queuedBefore map[string]bool) []string {
	var out []string
	node := sn.Nodes[nodeName]
	if node == nil {
		return []string{"no-node"}
	}
	nc := sn.Claims[node.Spec.ProviderID]
	if nc == nil || node.Spec.ProviderID == "" {
		return []string{"unmanaged"}
	}
	if _, ok := node.Labels[v1.NodePoolLabelKey]; !ok {
		out = append(out, "unmanaged")
	}
	if node.Labels[v1.NodeInitializedLabelKey] != "true" {
		out = append(out, "uninitialized")
	}
	if nc.DeletionTimestamp != nil {
		out = append(out, "deleting")
	}
	if r.marked[node.Spec.ProviderID] || queuedBefore[node.Spec.ProviderID] {
		out = append(out, "already-selected")
	}
	if at, ok := sn.NominatedAt[node.Spec.ProviderID]; ok && sn.Now.Before(at.Add(r.window)) {
		out = append(out, "nominated")
	}
	if node.Annotations[v1.DoNotDisruptAnnotationKey] == "true" {
		out = append(out, "node-do-not-disrupt")
	}
	overridable := class == disruption.EventualDisruptionClass && nc.Spec.TerminationGracePeriod != nil
	if !overridable {
		for _, p := range sn.podsOn(nodeName) {
			if dActive(p) && dDoNotDisruptActive(p, sn.Now) {
				out = append(out, "pod-do-not-disrupt")
				break
			}
		}
		for _, p := range sn.podsOn(nodeName) {
			if dActive(p) && dDoNotDisruptActive(p, sn.Now) {
				continue
			}
			if _, blocked := sn.dPDBBlocks(p); blocked {
				out = append(out, "pdb")
				break
			}
		}
	}
	if isConsolidationMethod(method) {
		pool := sn.Pools[node.Labels[v1.NodePoolLabelKey]]
		switch {
		case pool == nil:
			out = append(out, "no-pool")
		case pool.Spec.Replicas != nil:
			out = append(out, "static-pool")
		case pool.Spec.Disruption.ConsolidateAfter.Duration == nil:
			out = append(out, "consolidation-disabled")
		default:
			since := nc.Status.LastPodEventTime.Time
			if nc.Status.LastPodEventTime.IsZero() {
				if c := nc.StatusConditions().Get(v1.ConditionTypeInitialized); c != nil {
					since = c.LastTransitionTime.Time
				}
			}
			if sn.Now.Sub(since) < *pool.Spec.Disruption.ConsolidateAfter.Duration {
				out = append(out, "consolidate-after-not-elapsed")
			}
			empty := sn.dEmpty(nodeName)
			if !empty && pool.Spec.Disruption.ConsolidationPolicy == v1.ConsolidationPolicyWhenEmpty {
				out = append(out, "when-empty-policy")
			}
			if method == "Emptiness" && r.buffer[node.Spec.ProviderID] > 0 {
				out = append(out, "buffer-pods")
			}
		}
	}
	return out
}
