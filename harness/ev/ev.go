// Package ev is the evidence / replay / known-finding plumbing shared by every property.
//
// A property is a pair (Draw, Exec): Draw produces a JSON-serialisable scenario from rapid draws only,
// Exec runs the real Karpenter code on the scenario and reports classes, non-triviality and violations
// through a *Ctx. Run drives it with rapid, counts what was generated, writes a replay file for every
// violation that is not a listed known finding and flushes an evidence fragment when the test ends.
package ev

import (
	"encoding/json"
	"fmt"
	"hash/fnv"
	"os"
	"path/filepath"
	"runtime/debug"
	"sort"
	"strings"
	"sync"
	"testing"
	"time"

	"pgregory.net/rapid"
)

// Violation is one oracle failure; Sig is the root-cause signature used by known_findings.json.
type Violation struct {
	Sig  string `json:"sig"`
	What string `json:"what"`
}

// Ctx collects what one executed case looked like.
type Ctx struct {
	classes    map[string]struct{}
	nontrivial bool
	sample     any
	viol       []Violation
	counters   map[string]int
	known      map[string]bool
	// Replay is true when the case is re-executed from a replay file.
	Replay bool
	logs   []string
}

func (c *Ctx) Class(s string) {
	if c.classes == nil {
		c.classes = map[string]struct{}{}
	}
	c.classes[s] = struct{}{}
}
func (c *Ctx) ClassIf(b bool, s string) {
	if b {
		c.Class(s)
	}
}
func (c *Ctx) NT()            { c.nontrivial = true }
func (c *Ctx) NTIf(b bool)    { c.nontrivial = c.nontrivial || b }
func (c *Ctx) Sample(v any)   { c.sample = v }
func (c *Ctx) IsNT() bool     { return c.nontrivial }
func (c *Ctx) Count(k string) { c.Add(k, 1) }
func (c *Ctx) Add(k string, n int) {
	if c.counters == nil {
		c.counters = map[string]int{}
	}
	c.counters[k] += n
}
func (c *Ctx) Logf(format string, a ...any) {
	if len(c.logs) < 200 {
		c.logs = append(c.logs, fmt.Sprintf(format, a...))
	}
}

// Violate records an oracle failure with a root-cause signature.
func (c *Ctx) Violate(sig, format string, a ...any) {
	if len(c.viol) < 20 {
		c.viol = append(c.viol, Violation{Sig: sig, What: fmt.Sprintf(format, a...)})
	}
}
func (c *Ctx) Violations() []Violation { return c.viol }

// Known reports whether a signature is a listed known finding (so an oracle can keep exploring behind it).
func (c *Ctx) Known(sig string) bool { return c.known[sig] }

type fragment struct {
	Property    string            `json:"property"`
	Test        string            `json:"test"`
	Level       string            `json:"level"`
	Rule        string            `json:"rule"`
	Assumptions []string          `json:"assumptions"`
	Cases       int               `json:"cases"`
	NTCases     int               `json:"nt_cases"`
	NTHashes    []string          `json:"nt_hashes"`
	NTCapped    bool              `json:"nt_capped"`
	Classes     map[string]int    `json:"classes"`
	Counters    map[string]int    `json:"counters"`
	Samples     []any             `json:"samples"`
	Known       map[string]int    `json:"known"`
	KnownWhat   map[string]string `json:"known_what"`
	Violations  []replayFile      `json:"violations"`
	WallS       float64           `json:"wall_s"`
	Seed        string            `json:"rapid_seed"`
	Exhaustive  bool              `json:"exhaustive,omitempty"`
}

type replayFile struct {
	Property    string          `json:"property"`
	Test        string          `json:"test"`
	Signature   string          `json:"signature"`
	Explanation []Violation     `json:"explanation"`
	Scenario    json.RawMessage `json:"scenario"`
	Path        string          `json:"path,omitempty"`
}

type knownFinding struct {
	Property string `json:"property"`
	Key      string `json:"key"`
	What     string `json:"what"`
	Status   string `json:"status,omitempty"` // "known" (default) or "fixed" (documentation only, suppresses nothing)
}

// Prop describes one executable property.
type Prop[S any] struct {
	ID          string // C12
	Test        string // TestC12a
	Level       string // exploration | fault_enumeration
	Rule        string
	Assumptions []string
	Draw        func(t *rapid.T) *S
	Exec        func(s *S, c *Ctx)
	// Summary turns a scenario into a short sample for the evidence file (default: the scenario itself).
	Summary func(s *S, c *Ctx) any
	// ReplayTries is how many times a replay re-executes (SUT-internal nondeterminism); default 25.
	ReplayTries int
}

const ntCap = 150000

type recorder struct {
	mu        sync.Mutex
	frag      fragment
	nt        map[uint64]struct{}
	best      map[string]int // signature -> size of smallest replay so far
	out       string
	know      map[string]knownFinding
	ntSamples int
}

func loadKnown(prop string) map[string]knownFinding {
	m := map[string]knownFinding{}
	path := os.Getenv("VERIF_KNOWN")
	if path == "" {
		return m
	}
	b, err := os.ReadFile(path)
	if err != nil {
		return m
	}
	var file struct {
		Findings []knownFinding `json:"findings"`
	}
	if json.Unmarshal(b, &file) != nil {
		return m
	}
	for _, f := range file.Findings {
		if f.Property == prop && (f.Status == "" || f.Status == "known") {
			m[f.Key] = f
		}
	}
	return m
}

func hashBytes(b []byte) uint64 {
	h := fnv.New64a()
	h.Write(b)
	return h.Sum64()
}

// exec runs p.Exec, converting a panic in the code under test into a violation.
func exec[S any](p *Prop[S], s *S, c *Ctx) {
	defer func() {
		if r := recover(); r != nil {
			st := string(debug.Stack())
			c.Violate("panic:"+panicSite(st), "panic: %v\n%s", r, trimStack(st))
		}
	}()
	p.Exec(s, c)
}

// panicSite returns the first karpenter (or harness) frame below the panic.
func panicSite(st string) string {
	lines := strings.Split(st, "\n")
	seenPanic := false
	first := ""
	for _, l := range lines {
		if strings.HasPrefix(l, "panic(") {
			seenPanic = true
			continue
		}
		if !seenPanic || strings.HasPrefix(l, "\t") || l == "" {
			continue
		}
		fn := l
		if i := strings.LastIndex(fn, "("); i > 0 {
			fn = fn[:i]
		}
		if strings.HasPrefix(fn, "runtime.") || strings.HasPrefix(fn, "runtime/") {
			continue
		}
		if first == "" {
			first = fn
		}
		if strings.Contains(fn, "sigs.k8s.io/karpenter/") {
			return strings.TrimPrefix(fn, "sigs.k8s.io/karpenter/")
		}
	}
	if first == "" {
		return "unknown"
	}
	return first
}

func trimStack(st string) string {
	lines := strings.Split(st, "\n")
	if len(lines) > 40 {
		lines = lines[:40]
	}
	return strings.Join(lines, "\n")
}

// Run drives a property under rapid (or replays one file when VERIF_REPLAY is set).
func Run[S any](t *testing.T, p Prop[S]) {
	if p.Level == "" {
		p.Level = "exploration"
	}
	if p.ReplayTries == 0 {
		p.ReplayTries = 25
	}
	rec := &recorder{nt: map[uint64]struct{}{}, best: map[string]int{}, out: os.Getenv("VERIF_OUT"), know: loadKnown(p.ID)}
	rec.frag = fragment{Property: p.ID, Test: p.Test, Level: p.Level, Rule: p.Rule, Assumptions: p.Assumptions,
		Classes: map[string]int{}, Counters: map[string]int{}, Known: map[string]int{}, KnownWhat: map[string]string{}}
	start := time.Now() // evidence bookkeeping only; never visible to a property
	defer func() {
		rec.frag.WallS = time.Since(start).Seconds()
		rec.flush()
	}()
	knownSet := map[string]bool{}
	for k := range rec.know {
		knownSet[k] = true
	}

	if path := os.Getenv("VERIF_REPLAY"); path != "" {
		b, err := os.ReadFile(path)
		if err != nil {
			t.Fatalf("replay: %v", err)
		}
		var rf replayFile
		if err := json.Unmarshal(b, &rf); err != nil {
			t.Fatalf("replay: %v", err)
		}
		if rf.Test != p.Test {
			t.Skipf("replay file is for %s", rf.Test)
		}
		for i := 0; i < p.ReplayTries; i++ {
			s := new(S)
			if err := json.Unmarshal(rf.Scenario, s); err != nil {
				t.Fatalf("replay scenario: %v", err)
			}
			c := &Ctx{known: knownSet, Replay: true}
			exec(&p, s, c)
			fresh := rec.finish(&p, s, c, rf.Scenario, false)
			if len(fresh) > 0 {
				fmt.Printf("REPLAY-VIOLATION property=%s test=%s try=%d\n", p.ID, p.Test, i+1)
				for _, v := range fresh {
					fmt.Printf("  [%s] %s\n", v.Sig, v.What)
				}
				t.Fatalf("replay reproduces the violation")
			}
		}
		fmt.Printf("REPLAY-OK property=%s test=%s tries=%d\n", p.ID, p.Test, p.ReplayTries)
		return
	}

	rapid.Check(t, func(rt *rapid.T) {
		s := p.Draw(rt)
		c := &Ctx{known: knownSet}
		exec(&p, s, c)
		raw, err := json.Marshal(s)
		if err != nil {
			rt.Fatalf("scenario not serialisable: %v", err)
		}
		fresh := rec.finish(&p, s, c, raw, true)
		if len(fresh) > 0 {
			// the message must be a pure function of the input: rapid only shrinks when a re-run yields the identical
			// error string, so details (stack traces, pointers) go to the replay file, not here
			rt.Fatalf("property %s violated: [%s]", p.ID, fresh[0].Sig)
		}
	})
}

// RunExhaustive drives a property over an explicit finite enumeration instead of rapid draws.
func RunExhaustive[S any](t *testing.T, p Prop[S], each func(yield func(*S) bool)) {
	if p.Level == "" {
		p.Level = "exploration"
	}
	rec := &recorder{nt: map[uint64]struct{}{}, best: map[string]int{}, out: os.Getenv("VERIF_OUT"), know: loadKnown(p.ID)}
	rec.frag = fragment{Property: p.ID, Test: p.Test, Level: p.Level, Rule: p.Rule, Assumptions: p.Assumptions,
		Classes: map[string]int{}, Counters: map[string]int{}, Known: map[string]int{}, KnownWhat: map[string]string{}, Exhaustive: true}
	start := time.Now()
	defer func() {
		rec.frag.WallS = time.Since(start).Seconds()
		rec.flush()
	}()
	if os.Getenv("VERIF_REPLAY") != "" {
		Run(t, p)
		return
	}
	knownSet := map[string]bool{}
	for k := range rec.know {
		knownSet[k] = true
	}
	failed := 0
	each(func(s *S) bool {
		c := &Ctx{known: knownSet}
		exec(&p, s, c)
		raw, _ := json.Marshal(s)
		fresh := rec.finish(&p, s, c, raw, true)
		if len(fresh) > 0 {
			failed++
			for _, v := range fresh {
				t.Errorf("[%s] %s", v.Sig, v.What)
			}
		}
		return failed < 5
	})
}

func (r *recorder) finish(p any, s any, c *Ctx, raw []byte, count bool) []Violation {
	r.mu.Lock()
	defer r.mu.Unlock()
	if count {
		r.frag.Cases++
		for k := range c.classes {
			r.frag.Classes[k]++
		}
		for k, n := range c.counters {
			r.frag.Counters[k] += n
		}
		if c.nontrivial {
			r.frag.NTCases++
			if len(r.nt) < ntCap {
				r.nt[hashBytes(raw)] = struct{}{}
			} else {
				r.frag.NTCapped = true
			}
		}
		// keep up to 5 samples, preferring non-trivial ones
		smp := c.sample
		if smp == nil {
			smp = json.RawMessage(raw)
		}
		if len(r.frag.Samples) < 5 {
			r.frag.Samples = append(r.frag.Samples, smp)
			if c.nontrivial {
				r.ntSamples++
			}
		} else if c.nontrivial && r.ntSamples < 5 && r.frag.NTCases%7 == 1 {
			r.frag.Samples[r.ntSamples] = smp
			r.ntSamples++
		}
	}
	var fresh []Violation
	for _, v := range c.viol {
		if kf, ok := r.know[v.Sig]; ok {
			r.frag.Known[v.Sig]++
			r.frag.KnownWhat[v.Sig] = kf.What
			continue
		}
		fresh = append(fresh, v)
	}
	if len(fresh) > 0 {
		sig := fresh[0].Sig
		if best, ok := r.best[sig]; !ok || len(raw) < best {
			r.best[sig] = len(raw)
			r.writeReplay(sig, fresh, raw, c)
		}
	}
	return fresh
}

func sanitize(s string) string {
	var sb strings.Builder
	for _, ch := range s {
		switch {
		case ch >= 'a' && ch <= 'z', ch >= 'A' && ch <= 'Z', ch >= '0' && ch <= '9', ch == '-', ch == '_', ch == '.':
			sb.WriteRune(ch)
		default:
			sb.WriteRune('_')
		}
	}
	out := sb.String()
	if len(out) > 80 {
		out = out[:80]
	}
	return out
}

func (r *recorder) writeReplay(sig string, fresh []Violation, raw []byte, c *Ctx) {
	if r.out == "" {
		return
	}
	rf := replayFile{Property: r.frag.Property, Test: r.frag.Test, Signature: sig, Explanation: fresh, Scenario: raw}
	path := filepath.Join(r.out, fmt.Sprintf("%s.%s.%s.replay.json", r.frag.Test, os.Getenv("VERIF_SHARD"), sanitize(sig)))
	rf.Path = path
	b, _ := json.MarshalIndent(rf, "", " ")
	_ = os.WriteFile(path, b, 0o644)
	// remember in the fragment (latest = smallest per signature)
	kept := r.frag.Violations[:0]
	for _, v := range r.frag.Violations {
		if v.Signature != sig {
			kept = append(kept, v)
		}
	}
	rf.Scenario = nil
	r.frag.Violations = append(kept, rf)
}

func (r *recorder) flush() {
	if r.out == "" {
		return
	}
	r.mu.Lock()
	defer r.mu.Unlock()
	hs := make([]string, 0, len(r.nt))
	for h := range r.nt {
		hs = append(hs, fmt.Sprintf("%016x", h))
	}
	sort.Strings(hs)
	r.frag.NTHashes = hs
	r.frag.Seed = os.Getenv("VERIF_RAPID_SEED")
	b, _ := json.Marshal(r.frag)
	path := filepath.Join(r.out, fmt.Sprintf("%s.%s.frag.json", r.frag.Test, os.Getenv("VERIF_SHARD")))
	_ = os.WriteFile(path, b, 0o644)
}
