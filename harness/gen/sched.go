// Package gen holds the rapid generators for scheduler / disruption worlds. Everything is built by construction from small
// universes so that collisions (shared zones, labels, ports, prices) are frequent.
package gen

import (
	"fmt"
	"sort"
	"time"

	appsv1 "k8s.io/api/apps/v1"
	corev1 "k8s.io/api/core/v1"
	"k8s.io/apimachinery/pkg/api/resource"
	metav1 "k8s.io/apimachinery/pkg/apis/meta/v1"
	"k8s.io/apimachinery/pkg/types"
	"k8s.io/apimachinery/pkg/util/intstr"
	"pgregory.net/rapid"

	v1 "sigs.k8s.io/karpenter/pkg/apis/v1"

	"verif/harness/sim"
)

var (
	Zones     = []string{"zone-a", "zone-b", "zone-c"}
	CTs       = []string{v1.CapacityTypeOnDemand, v1.CapacityTypeSpot}
	Archs     = []string{"amd64", "arm64"}
	Families  = []string{"f1", "f2", "f3"}
	Gens      = []string{"1", "2", "3", "5"}
	TierKey   = "ex.io/tier"
	RankKey   = "ex.io/rank" // integer-valued user label
	TeamKey   = "team"
	GPU       = "ex.io/gpu"
	cpuLat    = []string{"1", "2", "4", "8", "16"}
	memLat    = []string{"2Gi", "4Gi", "8Gi", "16Gi", "32Gi"}
	podsLat   = []string{"2", "4", "10", "110"}
	prices    = []float64{0.5, 1, 1, 2, 3, 5}
	podCPU    = []string{"0", "100m", "500m", "1", "1500m", "2", "4", "7"}
	podMem    = []string{"0", "128Mi", "1Gi", "3Gi", "4Gi", "20Gi"}
	hostPorts = []int32{8080, 9090}
	hostIPs   = []string{"", "0.0.0.0", "10.0.0.1", "10.0.0.2"}
)

// SchedOptions are the operator options varied per case.
type SchedOptions struct {
	IgnorePreferences   bool `json:"ignorePreferences"`
	MinValuesBestEffort bool `json:"minValuesBestEffort"`
	CPURequests         int  `json:"cpuRequests"` // 1000..8000 => 1..8 parallel evaluators
	ReservedCapacity    bool `json:"reservedCapacity"`
}

// SchedWorld is the JSON-serialisable scenario for everything that runs through the scheduler.
type SchedWorld struct {
	Catalog    []sim.ITSpec        `json:"catalog"`
	Pools      []*v1.NodePool      `json:"pools"`
	Nodes      []sim.NodeSpec      `json:"nodes"`
	Bound      []*corev1.Pod       `json:"bound"`
	DaemonSets []*appsv1.DaemonSet `json:"daemonsets"`
	// DaemonOn lists "<daemonset>@<node>" pairs for which a daemon pod already runs
	DaemonOn []string      `json:"daemonOn"`
	Pending  []*corev1.Pod `json:"pending"`
	Options  SchedOptions  `json:"options"`
	// PoolReady: per pool name, why the pool is NOT ready: "unknown" (NodeClassReady Unknown), "false" (NodeClassReady
	// False), "none" (no status conditions yet). Absent = Ready.
	PoolReady map[string]string `json:"poolReady,omitempty"`
}

// Knobs bias the generator for a particular property.
type Knobs struct {
	MaxTypes, MaxPools, MaxNodes, MaxPending int
	Reserved                                 bool    // generate reserved offerings
	InterPod                                 float64 // probability that a pending pod carries an inter-pod constraint
	NoPrefs                                  bool    // no preferred terms / ScheduleAnyway (C04, C19)
	NoMinValues                              bool
	NoLimits                                 bool
	Overrides                                bool // capacity / overhead overrides on offerings
	MinPools                                 int
	NoDaemonSets                             bool
	SingleTerm                               bool // at most one required node-affinity term (no OR alternatives)
	FriendlyPools                            bool // fewer taints / requirements so that several pools can host a pod
	EasyPods                                 bool // mostly small pods with few selectors
	NoSoftTaints                             bool // no PreferNoSchedule taints on pools
	CustomKeyHeavy                           bool // pools use many operators on user-defined label keys
	MoreInitialized                          bool // bias existing nodes to initialized, healthy, managed ones (disruption worlds)
}

func DefaultKnobs() Knobs {
	return Knobs{MaxTypes: 7, MaxPools: 3, MaxNodes: 4, MaxPending: 9, InterPod: 0.15, Overrides: true, MinPools: 1}
}

func pct(t *rapid.T, p int, label string) bool { return rapid.IntRange(0, 99).Draw(t, label) < p }

func pick[T any](t *rapid.T, xs []T, label string) T { return rapid.SampledFrom(xs).Draw(t, label) }

func subset(t *rapid.T, xs []string, min int, label string) []string {
	var out []string
	for _, x := range xs {
		if rapid.Bool().Draw(t, label+"_"+x) {
			out = append(out, x)
		}
	}
	for len(out) < min {
		x := pick(t, xs, label+"_fill")
		dup := false
		for _, y := range out {
			dup = dup || y == x
		}
		if !dup {
			out = append(out, x)
		}
	}
	sort.Strings(out)
	return out
}

// ---------------------------------------------------------------------------------------------------------------------
// catalog
// ---------------------------------------------------------------------------------------------------------------------

func Catalog(t *rapid.T, k Knobs) []sim.ITSpec {
	n := rapid.IntRange(1, k.MaxTypes).Draw(t, "nTypes")
	var out []sim.ITSpec
	for i := 0; i < n; i++ {
		l := fmt.Sprintf("it%d", i)
		it := sim.ITSpec{Name: fmt.Sprintf("t%d", i), Arch: "amd64", OS: []string{"linux"}}
		if pct(t, 20, l+"_arm") {
			it.Arch = "arm64"
		}
		if pct(t, 15, l+"_win") {
			it.OS = []string{"linux", "windows"}
		}
		if pct(t, 85, l+"_hasFamily") {
			it.Family = pick(t, Families, l+"_family")
		}
		if pct(t, 80, l+"_hasGen") {
			it.Gen = pick(t, Gens, l+"_gen")
		}
		it.Capacity = map[string]string{"cpu": pick(t, cpuLat, l+"_cpu"), "memory": pick(t, memLat, l+"_mem"), "pods": pick(t, podsLat, l+"_pods")}
		if pct(t, 12, l+"_gpu") {
			it.Capacity[GPU] = pick(t, []string{"1", "2"}, l+"_gpus")
		}
		if pct(t, 60, l+"_reserved") {
			it.KubeReserved = map[string]string{"cpu": pick(t, []string{"100m", "500m"}, l+"_kcpu")}
			if pct(t, 50, l+"_kmem") {
				it.KubeReserved["memory"] = "256Mi"
			}
		}
		it.ZonesFromAll = pct(t, 30, l+"_zonesFromAll")
		nOf := rapid.IntRange(1, 5).Draw(t, l+"_nOf")
		seen := map[string]bool{}
		for j := 0; j < nOf; j++ {
			ol := fmt.Sprintf("%s_of%d", l, j)
			of := sim.OfferingSpec{Zone: pick(t, Zones, ol+"_zone"), CapacityType: pick(t, CTs, ol+"_ct"), Price: pick(t, prices, ol+"_price"), Available: !pct(t, 15, ol+"_unavail")}
			if k.Reserved && pct(t, 35, ol+"_isReserved") {
				of.CapacityType = v1.CapacityTypeReserved
				of.ReservationID = pick(t, []string{"r-1", "r-2", "r-3"}, ol+"_rid")
				of.ReservationCapacity = rapid.IntRange(0, 3).Draw(t, ol+"_rcap")
				of.Price = of.Price / 100
				if of.ReservationCapacity == 0 {
					of.Available = false
				}
			}
			key := of.Zone + "/" + of.CapacityType + "/" + of.ReservationID
			if seen[key] {
				continue
			}
			seen[key] = true
			if k.Overrides && pct(t, 10, ol+"_capOverride") {
				of.CapacityOverride = map[string]string{"memory": pick(t, memLat, ol+"_capMem")}
			}
			if k.Overrides && pct(t, 6, ol+"_ovhOverride") {
				of.OverheadOverride = map[string]string{"cpu": pick(t, []string{"0", "900m"}, ol+"_ovhCPU")}
			}
			it.Offerings = append(it.Offerings, of)
		}
		out = append(out, it)
	}
	return out
}

// ---------------------------------------------------------------------------------------------------------------------
// node pools
// ---------------------------------------------------------------------------------------------------------------------

func req(key string, op corev1.NodeSelectorOperator, values ...string) v1.NodeSelectorRequirementWithMinValues {
	return v1.NodeSelectorRequirementWithMinValues{Key: key, Operator: op, Values: values}
}

var poolTaints = []corev1.Taint{
	{Key: "dedicated", Value: "x", Effect: corev1.TaintEffectNoSchedule},
	{Key: "soft", Value: "y", Effect: corev1.TaintEffectPreferNoSchedule},
	{Key: "evict", Effect: corev1.TaintEffectNoExecute},
}

var startupTaint = corev1.Taint{Key: "startup.ex.io/agent", Effect: corev1.TaintEffectNoSchedule}

func Pool(t *rapid.T, i int, k Knobs) *v1.NodePool {
	l := fmt.Sprintf("pool%d", i)
	sc := func(p int) int {
		if k.FriendlyPools {
			return p / 2
		}
		return p
	}
	np := &v1.NodePool{ObjectMeta: metav1.ObjectMeta{Name: fmt.Sprintf("p%d", i), UID: types.UID(fmt.Sprintf("pool-uid-%d", i))}}
	np.Spec.Template.Spec.NodeClassRef = sim.NodeClassRef()
	np.Spec.Template.Spec.ExpireAfter = v1.MustParseNillableDuration("Never")
	np.Spec.Disruption.ConsolidateAfter = v1.MustParseNillableDuration("0s")
	np.Spec.Disruption.ConsolidationPolicy = v1.ConsolidationPolicyWhenEmptyOrUnderutilized
	np.Spec.Disruption.Budgets = []v1.Budget{{Nodes: "100%"}}
	var reqs []v1.NodeSelectorRequirementWithMinValues
	if pct(t, sc(45), l+"_zoneReq") {
		op := pick(t, []corev1.NodeSelectorOperator{corev1.NodeSelectorOpIn, corev1.NodeSelectorOpIn, corev1.NodeSelectorOpNotIn}, l+"_zoneOp")
		reqs = append(reqs, req(corev1.LabelTopologyZone, op, subset(t, Zones, 1, l+"_zones")...))
	}
	if pct(t, sc(40), l+"_ctReq") {
		cts := append([]string{}, CTs...)
		if k.Reserved {
			cts = append(cts, v1.CapacityTypeReserved)
		}
		reqs = append(reqs, req(v1.CapacityTypeLabelKey, corev1.NodeSelectorOpIn, subset(t, cts, 1, l+"_cts")...))
	}
	if pct(t, sc(20), l+"_archReq") {
		reqs = append(reqs, req(corev1.LabelArchStable, corev1.NodeSelectorOpIn, subset(t, Archs, 1, l+"_archs")...))
	}
	if pct(t, sc(30), l+"_famReq") {
		switch rapid.IntRange(0, 3).Draw(t, l+"_famOp") {
		case 0:
			reqs = append(reqs, req(sim.LabelFamily, corev1.NodeSelectorOpNotIn, subset(t, Families, 1, l+"_fams")...))
		case 1:
			reqs = append(reqs, req(sim.LabelFamily, corev1.NodeSelectorOpExists))
		default:
			r := req(sim.LabelFamily, corev1.NodeSelectorOpIn, subset(t, Families, 1, l+"_fams")...)
			if !k.NoMinValues && pct(t, 30, l+"_famMin") {
				mv := rapid.IntRange(1, len(r.Values)).Draw(t, l+"_famMinV")
				r.MinValues = &mv
			}
			reqs = append(reqs, r)
		}
	}
	if pct(t, sc(25), l+"_genReq") {
		switch rapid.IntRange(0, 3).Draw(t, l+"_genOp") {
		case 0:
			reqs = append(reqs, req(sim.LabelGen, corev1.NodeSelectorOpGt, pick(t, []string{"0", "1", "2"}, l+"_genGt")))
		case 1:
			reqs = append(reqs, req(sim.LabelGen, corev1.NodeSelectorOpLt, pick(t, []string{"3", "5", "6"}, l+"_genLt")))
		case 2:
			reqs = append(reqs, req(sim.LabelGen, v1.NodeSelectorOpGte, pick(t, []string{"1", "2"}, l+"_genGte")))
		default:
			reqs = append(reqs, req(sim.LabelGen, corev1.NodeSelectorOpIn, subset(t, Gens, 1, l+"_gens")...))
		}
	}
	if !k.NoMinValues && pct(t, 10, l+"_itMin") {
		mv := rapid.IntRange(1, 3).Draw(t, l+"_itMinV")
		r := req(corev1.LabelInstanceTypeStable, corev1.NodeSelectorOpExists)
		r.MinValues = &mv
		reqs = append(reqs, r)
	}
	labels := map[string]string{}
	if k.CustomKeyHeavy && pct(t, 60, l+"_rank") {
		switch rapid.IntRange(0, 5).Draw(t, l+"_rankOp") {
		case 0:
			reqs = append(reqs, req(RankKey, corev1.NodeSelectorOpGt, pick(t, []string{"0", "1", "3"}, l+"_rankGt")))
		case 1:
			reqs = append(reqs, req(RankKey, corev1.NodeSelectorOpLt, pick(t, []string{"0", "1", "4", "6"}, l+"_rankLt")))
		case 2:
			reqs = append(reqs, req(RankKey, corev1.NodeSelectorOpGt, "1"), req(RankKey, corev1.NodeSelectorOpLt, "6"))
		case 3:
			reqs = append(reqs, req(RankKey, corev1.NodeSelectorOpNotIn, "3", "4"), req(RankKey, corev1.NodeSelectorOpLt, "6"))
		case 4:
			reqs = append(reqs, req(RankKey, corev1.NodeSelectorOpNotIn, "3"))
		default:
			reqs = append(reqs, req(RankKey, corev1.NodeSelectorOpIn, "1", "2", "5"))
		}
	}
	switch rapid.IntRange(0, 5).Draw(t, l+"_tier") {
	case 0:
		reqs = append(reqs, req(TierKey, corev1.NodeSelectorOpIn, subset(t, []string{"a", "b", "c"}, 1, l+"_tiers")...))
	case 1:
		labels[TierKey] = pick(t, []string{"a", "b"}, l+"_tierLabel")
	case 2:
		reqs = append(reqs, req(TierKey, corev1.NodeSelectorOpExists))
	}
	if pct(t, 35, l+"_team") {
		labels[TeamKey] = pick(t, []string{"x", "y"}, l+"_teamV")
	}
	if len(labels) > 0 {
		np.Spec.Template.Labels = labels
	}
	np.Spec.Template.Spec.Requirements = reqs
	taintPct := 12
	if k.FriendlyPools {
		taintPct = 6
	}
	for j, tt := range poolTaints {
		if k.NoSoftTaints && tt.Effect == corev1.TaintEffectPreferNoSchedule {
			continue
		}
		if pct(t, taintPct, fmt.Sprintf("%s_taint%d", l, j)) {
			np.Spec.Template.Spec.Taints = append(np.Spec.Template.Spec.Taints, tt)
		}
	}
	if pct(t, 20, l+"_startup") {
		np.Spec.Template.Spec.StartupTaints = []corev1.Taint{startupTaint}
	}
	if pct(t, 60, l+"_weight") {
		w := int32(pick(t, []int{1, 10, 10, 50}, l+"_weightV"))
		np.Spec.Weight = &w
	}
	if !k.NoLimits && pct(t, 25, l+"_limits") {
		np.Spec.Limits = v1.Limits{}
		switch rapid.IntRange(0, 2).Draw(t, l+"_limitKind") {
		case 0:
			np.Spec.Limits[corev1.ResourceCPU] = resource.MustParse(pick(t, []string{"0", "4", "9", "20"}, l+"_limCPU"))
		case 1:
			np.Spec.Limits[corev1.ResourceMemory] = resource.MustParse(pick(t, []string{"8Gi", "20Gi"}, l+"_limMem"))
		default:
			np.Spec.Limits["nodes"] = resource.MustParse(pick(t, []string{"0", "1", "3"}, l+"_limNodes"))
		}
	}
	return np
}

// ---------------------------------------------------------------------------------------------------------------------
// pods
// ---------------------------------------------------------------------------------------------------------------------

var apps = []string{"web", "db", "cache"}

func container(t *rapid.T, l string, small bool) corev1.Container {
	c := corev1.Container{Name: "c", Image: "img"}
	reqs := corev1.ResourceList{}
	cpus, mems := podCPU, podMem
	if small {
		cpus, mems = []string{"100m", "250m", "500m"}, []string{"64Mi", "128Mi", "512Mi"}
	}
	if v := pick(t, cpus, l+"_cpu"); v != "0" {
		reqs[corev1.ResourceCPU] = resource.MustParse(v)
	}
	if v := pick(t, mems, l+"_mem"); v != "0" {
		reqs[corev1.ResourceMemory] = resource.MustParse(v)
	}
	if !small && pct(t, 5, l+"_gpu") {
		reqs[corev1.ResourceName(GPU)] = resource.MustParse("1")
		c.Resources.Limits = corev1.ResourceList{corev1.ResourceName(GPU): resource.MustParse("1")}
	}
	c.Resources.Requests = reqs
	return c
}

// hostPortList: the container's port list; often a plain (no hostPort) entry precedes or follows the hostPort entry, as
// in real manifests.
func hostPortList(t *rapid.T, l string) []corev1.ContainerPort {
	hp := hostPort(t, l)
	switch rapid.IntRange(0, 4).Draw(t, l+"_shape") {
	case 1, 2:
		return []corev1.ContainerPort{{ContainerPort: 8081, Protocol: corev1.ProtocolTCP}, hp}
	case 3:
		return []corev1.ContainerPort{hp, {ContainerPort: 8081, Protocol: corev1.ProtocolTCP}}
	}
	return []corev1.ContainerPort{hp}
}

func hostPort(t *rapid.T, l string) corev1.ContainerPort {
	return corev1.ContainerPort{ContainerPort: 80, HostPort: pick(t, hostPorts, l+"_port"), HostIP: pick(t, hostIPs, l+"_ip"), Protocol: pick(t, []corev1.Protocol{corev1.ProtocolTCP, corev1.ProtocolTCP, corev1.ProtocolUDP}, l+"_proto")}
}

// selectorExpr draws one node-selector expression a validated pod may carry.
func selectorExpr(t *rapid.T, l string) corev1.NodeSelectorRequirement {
	type choice struct {
		key  string
		vals []string
		num  bool
	}
	c := pick(t, []choice{
		{corev1.LabelTopologyZone, Zones, false}, {corev1.LabelTopologyZone, Zones, false},
		{v1.CapacityTypeLabelKey, CTs, false}, {corev1.LabelArchStable, Archs, false},
		{sim.LabelFamily, Families, false}, {sim.LabelGen, Gens, true},
		{corev1.LabelInstanceTypeStable, []string{"t0", "t1", "t2", "t3"}, false},
		{TierKey, []string{"a", "b", "c"}, false}, {TeamKey, []string{"x", "y"}, false}, {RankKey, []string{"1", "2", "3", "4", "5"}, true},
		{corev1.LabelOSStable, []string{"linux", "windows"}, false},
	}, l+"_key")
	ops := []corev1.NodeSelectorOperator{corev1.NodeSelectorOpIn, corev1.NodeSelectorOpIn, corev1.NodeSelectorOpIn, corev1.NodeSelectorOpNotIn, corev1.NodeSelectorOpExists, corev1.NodeSelectorOpDoesNotExist}
	if c.num {
		ops = append(ops, corev1.NodeSelectorOpGt, corev1.NodeSelectorOpLt)
	}
	op := pick(t, ops, l+"_op")
	switch op {
	case corev1.NodeSelectorOpExists, corev1.NodeSelectorOpDoesNotExist:
		return corev1.NodeSelectorRequirement{Key: c.key, Operator: op}
	case corev1.NodeSelectorOpGt, corev1.NodeSelectorOpLt:
		return corev1.NodeSelectorRequirement{Key: c.key, Operator: op, Values: []string{pick(t, []string{"0", "1", "2", "3", "4"}, l+"_bound")}}
	default:
		return corev1.NodeSelectorRequirement{Key: c.key, Operator: op, Values: subset(t, c.vals, 1, l+"_vals")}
	}
}

func selectorTerm(t *rapid.T, l string) corev1.NodeSelectorTerm {
	n := rapid.IntRange(1, 2).Draw(t, l+"_n")
	term := corev1.NodeSelectorTerm{}
	for i := 0; i < n; i++ {
		term.MatchExpressions = append(term.MatchExpressions, selectorExpr(t, fmt.Sprintf("%s_e%d", l, i)))
	}
	return term
}

func tolerations(t *rapid.T, l string) []corev1.Toleration {
	switch rapid.IntRange(0, 9).Draw(t, l+"_tol") {
	case 0, 1:
		return []corev1.Toleration{{Key: "dedicated", Operator: corev1.TolerationOpEqual, Value: "x", Effect: corev1.TaintEffectNoSchedule}}
	case 2:
		return []corev1.Toleration{{Operator: corev1.TolerationOpExists}}
	case 3:
		return []corev1.Toleration{{Key: "evict", Operator: corev1.TolerationOpExists}, {Key: "dedicated", Operator: corev1.TolerationOpExists}}
	}
	return nil
}

// PendingPod draws one unschedulable pod. idx makes names / UIDs / creation order deterministic.
func PendingPod(t *rapid.T, idx int, k Knobs) *corev1.Pod {
	l := fmt.Sprintf("pod%d", idx)
	app := pick(t, apps, l+"_app")
	p := &corev1.Pod{
		ObjectMeta: metav1.ObjectMeta{Name: fmt.Sprintf("pending-%02d", idx), Namespace: "default", UID: types.UID(fmt.Sprintf("pending-uid-%02d", idx)),
			Labels:            map[string]string{"app": app},
			CreationTimestamp: metav1.NewTime(sim.Epoch.Add(-timeSec(rapid.IntRange(1, 4).Draw(t, l+"_age"))))},
		Spec: corev1.PodSpec{Containers: []corev1.Container{container(t, l, k.EasyPods && pct(t, 70, l+"_easy"))}},
	}
	selPct := func(p int) int {
		if k.EasyPods {
			return p / 2
		}
		return p
	}
	if pct(t, 12, l+"_twoContainers") {
		c2 := container(t, l+"_c2", true)
		c2.Name = "c2"
		p.Spec.Containers = append(p.Spec.Containers, c2)
	}
	if pct(t, 10, l+"_init") {
		ic := container(t, l+"_init", false)
		ic.Name = "init"
		p.Spec.InitContainers = []corev1.Container{ic}
	}
	if pct(t, 5, l+"_overhead") {
		p.Spec.Overhead = corev1.ResourceList{corev1.ResourceCPU: resource.MustParse("250m")}
	}
	if pct(t, 15, l+"_hostPort") {
		p.Spec.Containers[0].Ports = hostPortList(t, l+"_hp")
	}
	if pct(t, selPct(30), l+"_nodeSelector") {
		e := selectorExpr(t, l+"_ns")
		if e.Operator == corev1.NodeSelectorOpIn {
			p.Spec.NodeSelector = map[string]string{e.Key: e.Values[0]}
		}
	}
	if pct(t, selPct(35), l+"_required") {
		n := rapid.IntRange(1, 3).Draw(t, l+"_nTerms")
		if k.SingleTerm {
			n = 1
		}
		na := &corev1.NodeSelector{}
		for i := 0; i < n; i++ {
			na.NodeSelectorTerms = append(na.NodeSelectorTerms, selectorTerm(t, fmt.Sprintf("%s_term%d", l, i)))
		}
		p.Spec.Affinity = &corev1.Affinity{NodeAffinity: &corev1.NodeAffinity{RequiredDuringSchedulingIgnoredDuringExecution: na}}
	}
	if !k.NoPrefs && pct(t, 20, l+"_preferred") {
		if p.Spec.Affinity == nil {
			p.Spec.Affinity = &corev1.Affinity{}
		}
		if p.Spec.Affinity.NodeAffinity == nil {
			p.Spec.Affinity.NodeAffinity = &corev1.NodeAffinity{}
		}
		n := rapid.IntRange(1, 2).Draw(t, l+"_nPref")
		for i := 0; i < n; i++ {
			p.Spec.Affinity.NodeAffinity.PreferredDuringSchedulingIgnoredDuringExecution = append(p.Spec.Affinity.NodeAffinity.PreferredDuringSchedulingIgnoredDuringExecution,
				corev1.PreferredSchedulingTerm{Weight: int32(rapid.IntRange(1, 100).Draw(t, fmt.Sprintf("%s_prefW%d", l, i))), Preference: selectorTerm(t, fmt.Sprintf("%s_pref%d", l, i))})
		}
	}
	p.Spec.Tolerations = tolerations(t, l)
	if rapid.Float64Range(0, 1).Draw(t, l+"_interPodP") < k.InterPod {
		InterPod(t, p, l, k)
	}
	return sim.Unschedulable(p)
}

func timeSec(n int) time.Duration { return time.Duration(n) * time.Second }

// Seconds converts a second count to a duration.
func Seconds(n int) time.Duration { return timeSec(n) }

// InterPod adds one inter-pod constraint to the pod.
func InterPod(t *rapid.T, p *corev1.Pod, l string, k Knobs) {
	sel := &metav1.LabelSelector{MatchLabels: map[string]string{"app": pick(t, apps, l+"_ipApp")}}
	if pct(t, 60, l+"_ipSelf") {
		sel = &metav1.LabelSelector{MatchLabels: map[string]string{"app": p.Labels["app"]}}
	}
	topo := pick(t, []string{corev1.LabelHostname, corev1.LabelTopologyZone, corev1.LabelTopologyZone, sim.LabelRack}, l+"_ipTopo")
	if p.Spec.Affinity == nil {
		p.Spec.Affinity = &corev1.Affinity{}
	}
	term := corev1.PodAffinityTerm{LabelSelector: sel, TopologyKey: topo}
	kinds := []string{"anti", "anti", "affinity", "spread", "spread", "spreadSoft", "antiSoft", "affinitySoft"}
	if k.NoPrefs {
		kinds = []string{"anti", "affinity", "spread"}
	}
	switch pick(t, kinds, l+"_ipKind") {
	case "anti":
		p.Spec.Affinity.PodAntiAffinity = &corev1.PodAntiAffinity{RequiredDuringSchedulingIgnoredDuringExecution: []corev1.PodAffinityTerm{term}}
	case "antiSoft":
		p.Spec.Affinity.PodAntiAffinity = &corev1.PodAntiAffinity{PreferredDuringSchedulingIgnoredDuringExecution: []corev1.WeightedPodAffinityTerm{{Weight: 10, PodAffinityTerm: term}}}
	case "affinity":
		p.Spec.Affinity.PodAffinity = &corev1.PodAffinity{RequiredDuringSchedulingIgnoredDuringExecution: []corev1.PodAffinityTerm{term}}
	case "affinitySoft":
		p.Spec.Affinity.PodAffinity = &corev1.PodAffinity{PreferredDuringSchedulingIgnoredDuringExecution: []corev1.WeightedPodAffinityTerm{{Weight: 10, PodAffinityTerm: term}}}
	case "spread", "spreadSoft":
		tsc := corev1.TopologySpreadConstraint{MaxSkew: int32(rapid.IntRange(1, 2).Draw(t, l+"_skew")), TopologyKey: topo, WhenUnsatisfiable: corev1.DoNotSchedule, LabelSelector: sel}
		if pick(t, kinds, l+"_soft") == "spreadSoft" && !k.NoPrefs {
			tsc.WhenUnsatisfiable = corev1.ScheduleAnyway
		}
		if pct(t, 15, l+"_minDomains") && tsc.WhenUnsatisfiable == corev1.DoNotSchedule {
			md := int32(rapid.IntRange(2, 3).Draw(t, l+"_minDomainsV"))
			tsc.MinDomains = &md
		}
		p.Spec.TopologySpreadConstraints = append(p.Spec.TopologySpreadConstraints, tsc)
	}
	if p.Spec.Affinity.NodeAffinity == nil && p.Spec.Affinity.PodAffinity == nil && p.Spec.Affinity.PodAntiAffinity == nil {
		p.Spec.Affinity = nil
	}
}

// ---------------------------------------------------------------------------------------------------------------------
// daemonsets
// ---------------------------------------------------------------------------------------------------------------------

func DaemonSet(t *rapid.T, i int) *appsv1.DaemonSet {
	l := fmt.Sprintf("ds%d", i)
	spec := corev1.PodSpec{Containers: []corev1.Container{container(t, l, true)}}
	switch rapid.IntRange(0, 7).Draw(t, l+"_sel") {
	case 0:
		spec.NodeSelector = map[string]string{corev1.LabelArchStable: pick(t, Archs, l+"_arch")}
	case 1:
		spec.NodeSelector = map[string]string{corev1.LabelOSStable: "linux"}
	case 2:
		spec.NodeSelector = map[string]string{TeamKey: pick(t, []string{"x", "y"}, l+"_team")}
	case 3:
		// two OR-ed required terms
		spec.Affinity = &corev1.Affinity{NodeAffinity: &corev1.NodeAffinity{RequiredDuringSchedulingIgnoredDuringExecution: &corev1.NodeSelector{NodeSelectorTerms: []corev1.NodeSelectorTerm{
			{MatchExpressions: []corev1.NodeSelectorRequirement{{Key: sim.LabelFamily, Operator: corev1.NodeSelectorOpIn, Values: []string{pick(t, Families, l+"_fam1")}}}},
			{MatchExpressions: []corev1.NodeSelectorRequirement{{Key: corev1.LabelArchStable, Operator: corev1.NodeSelectorOpIn, Values: []string{pick(t, Archs, l+"_arch2")}}}},
		}}}}
	case 4:
		spec.NodeSelector = map[string]string{corev1.LabelTopologyZone: pick(t, Zones, l+"_zone")}
	}
	if pct(t, 70, l+"_tolAll") {
		spec.Tolerations = []corev1.Toleration{{Operator: corev1.TolerationOpExists}}
	}
	if pct(t, 20, l+"_hostPort") {
		spec.Containers[0].Ports = hostPortList(t, l+"_hp")
	}
	ds := sim.DaemonSetFor(fmt.Sprintf("ds%d", i), "kube-system", spec, map[string]string{"ds": fmt.Sprintf("ds%d", i)})
	ds.UID = types.UID(fmt.Sprintf("ds-uid-%d", i))
	return ds
}

// ---------------------------------------------------------------------------------------------------------------------
// existing nodes
// ---------------------------------------------------------------------------------------------------------------------

// AvailableOptions lists every (type, non-reserved offering) pair of the catalog.
func AvailableOptions(cat []sim.ITSpec) []sim.LaunchOption {
	var out []sim.LaunchOption
	for _, it := range cat {
		for _, of := range it.Offerings {
			if of.CapacityType == v1.CapacityTypeReserved {
				continue
			}
			out = append(out, sim.LaunchOption{Type: it, Offering: of, OS: it.OS[0]})
		}
	}
	return out
}

func Node(t *rapid.T, i int, cat []sim.ITSpec, pools []*v1.NodePool, k Knobs) sim.NodeSpec {
	l := fmt.Sprintf("node%d", i)
	opts := AvailableOptions(cat)
	if len(opts) == 0 || pct(t, 15, l+"_unmanaged") {
		n := sim.NodeSpec{Name: fmt.Sprintf("unmanaged-%d", i), Allocatable: map[string]string{"cpu": pick(t, cpuLat, l+"_cpu"), "memory": pick(t, memLat, l+"_mem"), "pods": pick(t, podsLat, l+"_pods")},
			Labels: map[string]string{corev1.LabelArchStable: "amd64", corev1.LabelOSStable: "linux"}}
		if pct(t, 70, l+"_zone") {
			n.Labels[corev1.LabelTopologyZone] = pick(t, Zones, l+"_zoneV")
		}
		if pct(t, 30, l+"_team") {
			n.Labels[TeamKey] = pick(t, []string{"x", "y"}, l+"_teamV")
		}
		if pct(t, 15, l+"_taint") {
			n.ExtraTaints = []corev1.Taint{poolTaints[0]}
		}
		n.Cordoned = pct(t, 8, l+"_cordoned")
		return n
	}
	o := pick(t, opts, l+"_opt")
	pool := pools[rapid.IntRange(0, len(pools)-1).Draw(t, l+"_pool")]
	n := sim.NodeSpec{Name: fmt.Sprintf("node-%d", i), Pool: pool.Name, TypeName: o.Type.Name, Zone: o.Offering.Zone, CT: o.Offering.CapacityType, OS: o.OS, AgeSeconds: rapid.IntRange(30, 600).Draw(t, l+"_age")}
	stages := []string{sim.StageInitialized, sim.StageInitialized, sim.StageInitialized, sim.StageRegistered, sim.StageUnregistered, sim.StageLaunched, sim.StageLaunched}
	if k.MoreInitialized {
		stages = []string{sim.StageInitialized, sim.StageInitialized, sim.StageInitialized, sim.StageInitialized, sim.StageInitialized, sim.StageRegistered, sim.StageLaunched}
	}
	n.Stage = pick(t, stages, l+"_stage")
	if n.Stage == sim.StageRegistered {
		n.StartupTaintsLeft = pct(t, 60, l+"_startupLeft")
		if n.StartupTaintsLeft && pct(t, 25, l+"_startupStyled") {
			n.StartupTaintStyle = pick(t, []string{"value", "timeAdded"}, l+"_startupStyle")
		}
		if pct(t, 25, l+"_zero") {
			n.ZeroStatus = []string{pick(t, []string{"memory", "pods", GPU}, l+"_zeroRes")}
		}
		n.NotReady = pct(t, 30, l+"_notReadyEarly")
	}
	if n.Stage == sim.StageInitialized {
		n.NotReady = pct(t, 6, l+"_notReady")
		n.Cordoned = pct(t, 6, l+"_cordoned")
		n.Marked = pct(t, 8, l+"_marked")
		n.ClaimDeleting = pct(t, 6, l+"_claimDeleting")
	}
	if pct(t, 20, l+"_rack") {
		n.ExtraLabels = map[string]string{sim.LabelRack: pick(t, []string{"r1", "r2"}, l+"_rackV")}
	}
	return n
}

func BoundPod(t *rapid.T, idx int, node string, k Knobs) *corev1.Pod {
	l := fmt.Sprintf("bound%d", idx)
	p := &corev1.Pod{
		ObjectMeta: metav1.ObjectMeta{Name: fmt.Sprintf("bound-%02d", idx), Namespace: "default", UID: types.UID(fmt.Sprintf("bound-uid-%02d", idx)), Labels: map[string]string{"app": pick(t, apps, l+"_app")},
			OwnerReferences: []metav1.OwnerReference{{APIVersion: "apps/v1", Kind: "ReplicaSet", Name: "rs", UID: "rs-uid", Controller: ptr(true)}}},
		Spec: corev1.PodSpec{Containers: []corev1.Container{container(t, l, pct(t, 50, l+"_small"))}},
	}
	if pct(t, 15, l+"_hostPort") {
		p.Spec.Containers[0].Ports = hostPortList(t, l+"_hp")
	}
	if k.InterPod > 0 && pct(t, 15, l+"_anti") {
		p.Spec.Affinity = &corev1.Affinity{PodAntiAffinity: &corev1.PodAntiAffinity{RequiredDuringSchedulingIgnoredDuringExecution: []corev1.PodAffinityTerm{{
			LabelSelector: &metav1.LabelSelector{MatchLabels: map[string]string{"app": pick(t, apps, l+"_antiApp")}}, TopologyKey: pick(t, []string{corev1.LabelHostname, corev1.LabelTopologyZone}, l+"_antiTopo")}}}}
	}
	p.Spec.Tolerations = []corev1.Toleration{{Operator: corev1.TolerationOpExists}}
	p = sim.Bound(p, node)
	// a finished pod (a completed Job, a crashed pod that is not restarted) stays bound to its node until it is
	// garbage collected: it holds no resources, ports or topology any more
	if pct(t, 10, l+"_completed") {
		p.Status.Phase = pick(t, []corev1.PodPhase{corev1.PodSucceeded, corev1.PodFailed}, l+"_completedPhase")
	}
	return p
}

func ptr[T any](v T) *T { return &v }

// World draws a complete scheduler scenario.
func World(t *rapid.T, k Knobs) *SchedWorld {
	w := &SchedWorld{}
	w.Catalog = Catalog(t, k)
	np := rapid.IntRange(k.MinPools, k.MaxPools).Draw(t, "nPools")
	for i := 0; i < np; i++ {
		w.Pools = append(w.Pools, Pool(t, i, k))
	}
	// most clusters have one general-purpose pool: keep scheduling success frequent enough to be informative
	if pct(t, 55, "openPool") {
		p := w.Pools[rapid.IntRange(0, np-1).Draw(t, "openPoolIdx")]
		p.Spec.Template.Spec.Taints = nil
		p.Spec.Template.Spec.Requirements = nil
		p.Spec.Limits = nil
	}
	nn := rapid.IntRange(0, k.MaxNodes).Draw(t, "nNodes")
	boundIdx := 0
	for i := 0; i < nn; i++ {
		n := Node(t, i, w.Catalog, w.Pools, k)
		w.Nodes = append(w.Nodes, n)
		if n.Stage == sim.StageLaunched || n.Stage == sim.StageUnlaunched {
			continue
		}
		nb := rapid.IntRange(0, 2).Draw(t, fmt.Sprintf("node%d_nBound", i))
		for j := 0; j < nb; j++ {
			w.Bound = append(w.Bound, BoundPod(t, boundIdx, n.Name, k))
			boundIdx++
		}
	}
	if !k.NoDaemonSets {
		nd := rapid.IntRange(0, 2).Draw(t, "nDaemonSets")
		for i := 0; i < nd; i++ {
			ds := DaemonSet(t, i)
			w.DaemonSets = append(w.DaemonSets, ds)
			for j, n := range w.Nodes {
				if n.Stage == sim.StageLaunched || n.Stage == sim.StageUnlaunched {
					continue
				}
				if pct(t, 75, fmt.Sprintf("ds%d_on_node%d", i, j)) {
					w.DaemonOn = append(w.DaemonOn, ds.Name+"@"+n.Name)
				}
			}
		}
	}
	npend := rapid.IntRange(1, k.MaxPending).Draw(t, "nPending")
	for i := 0; i < npend; i++ {
		w.Pending = append(w.Pending, PendingPod(t, i, k))
	}
	w.Options = SchedOptions{
		IgnorePreferences:   pct(t, 25, "ignorePrefs"),
		MinValuesBestEffort: pct(t, 30, "minValuesBestEffort"),
		CPURequests:         1000 * rapid.IntRange(1, 8).Draw(t, "parallelism"),
		ReservedCapacity:    k.Reserved || pct(t, 50, "reservedGate"),
	}
	return w
}

var _ = intstr.FromInt
