module verif/harness

go 1.26.6

require (
	github.com/awslabs/operatorpkg v0.0.0-20260708223819-4da4c353c5fa
	github.com/google/go-cmp v0.7.0
	github.com/google/uuid v1.6.0
	k8s.io/api v0.36.1
	k8s.io/apimachinery v0.36.1
	k8s.io/client-go v0.36.1
	k8s.io/component-helpers v0.35.0
	k8s.io/klog/v2 v2.140.0
	k8s.io/utils v0.0.0-20260319190234-28399d86e0b5
	pgregory.net/rapid v1.3.0
	sigs.k8s.io/controller-runtime v0.24.1
	sigs.k8s.io/karpenter v0.0.0
)

require (
	cel.dev/expr v0.25.1 // indirect
	github.com/antlr4-go/antlr/v4 v4.13.0 // indirect
	github.com/beorn7/perks v1.0.1 // indirect
	github.com/blang/semver/v4 v4.0.0 // indirect
	github.com/cespare/xxhash/v2 v2.3.0 // indirect
	github.com/davecgh/go-spew v1.1.2-0.20180830191138-d8f796af33cc // indirect
	github.com/emicklei/go-restful/v3 v3.13.0 // indirect
	github.com/evanphx/json-patch/v5 v5.9.11 // indirect
	github.com/fsnotify/fsnotify v1.9.0 // indirect
	github.com/fxamacker/cbor/v2 v2.9.2 // indirect
	github.com/go-logr/logr v1.4.3 // indirect
	github.com/go-logr/zapr v1.3.0 // indirect
	github.com/go-openapi/jsonpointer v0.23.1 // indirect
	github.com/go-openapi/jsonreference v0.21.5 // indirect
	github.com/go-openapi/swag v0.26.0 // indirect
	github.com/go-openapi/swag/cmdutils v0.26.0 // indirect
	github.com/go-openapi/swag/conv v0.26.0 // indirect
	github.com/go-openapi/swag/fileutils v0.26.0 // indirect
	github.com/go-openapi/swag/jsonname v0.26.0 // indirect
	github.com/go-openapi/swag/jsonutils v0.26.0 // indirect
	github.com/go-openapi/swag/loading v0.26.0 // indirect
	github.com/go-openapi/swag/mangling v0.26.0 // indirect
	github.com/go-openapi/swag/netutils v0.26.0 // indirect
	github.com/go-openapi/swag/stringutils v0.26.0 // indirect
	github.com/go-openapi/swag/typeutils v0.26.0 // indirect
	github.com/go-openapi/swag/yamlutils v0.26.0 // indirect
	github.com/google/cel-go v0.26.0 // indirect
	github.com/google/gnostic-models v0.7.1 // indirect
	github.com/json-iterator/go v1.1.12 // indirect
	github.com/mitchellh/hashstructure/v2 v2.0.2 // indirect
	github.com/modern-go/concurrent v0.0.0-20180306012644-bacd9c7ef1dd // indirect
	github.com/modern-go/reflect2 v1.0.3-0.20250322232337-35a7c28c31ee // indirect
	github.com/munnerz/goautoneg v0.0.0-20191010083416-a7dc8b61c822 // indirect
	github.com/patrickmn/go-cache v2.1.0+incompatible // indirect
	github.com/pmezard/go-difflib v1.0.1-0.20181226105442-5d4384ee4fb2 // indirect
	github.com/prometheus/client_golang v1.23.2 // indirect
	github.com/prometheus/client_model v0.6.2 // indirect
	github.com/prometheus/common v0.67.5 // indirect
	github.com/prometheus/procfs v0.20.1 // indirect
	github.com/robfig/cron/v3 v3.0.1 // indirect
	github.com/samber/lo v1.53.0 // indirect
	github.com/spf13/cobra v1.10.2 // indirect
	github.com/spf13/pflag v1.0.10 // indirect
	github.com/stoewer/go-strcase v1.3.0 // indirect
	github.com/x448/float16 v0.8.4 // indirect
	go.opentelemetry.io/otel v1.44.0 // indirect
	go.opentelemetry.io/otel/trace v1.44.0 // indirect
	go.uber.org/multierr v1.11.0 // indirect
	go.uber.org/zap v1.28.0 // indirect
	go.yaml.in/yaml/v2 v2.4.4 // indirect
	go.yaml.in/yaml/v3 v3.0.4 // indirect
	golang.org/x/exp v0.0.0-20251219203646-944ab1f22d93 // indirect
	golang.org/x/net v0.56.0 // indirect
	golang.org/x/oauth2 v0.36.0 // indirect
	golang.org/x/sync v0.21.0 // indirect
	golang.org/x/sys v0.46.0 // indirect
	golang.org/x/term v0.44.0 // indirect
	golang.org/x/text v0.39.0 // indirect
	golang.org/x/time v0.15.0 // indirect
	gomodules.xyz/jsonpatch/v2 v2.5.0 // indirect
	google.golang.org/genproto/googleapis/api v0.0.0-20260128011058-8636f8732409 // indirect
	google.golang.org/genproto/googleapis/rpc v0.0.0-20260128011058-8636f8732409 // indirect
	google.golang.org/protobuf v1.36.12-0.20260120151049-f2248ac996af // indirect
	gopkg.in/evanphx/json-patch.v4 v4.13.0 // indirect
	gopkg.in/inf.v0 v0.9.1 // indirect
	k8s.io/apiextensions-apiserver v0.36.0 // indirect
	k8s.io/apiserver v0.36.0 // indirect
	k8s.io/autoscaler/vertical-pod-autoscaler v1.7.0 // indirect
	k8s.io/cloud-provider v0.35.0 // indirect
	k8s.io/component-base v0.36.1 // indirect
	k8s.io/csi-translation-lib v0.35.0 // indirect
	k8s.io/dynamic-resource-allocation v0.35.0 // indirect
	k8s.io/kube-openapi v0.0.0-20260414162039-ec9c827d403f // indirect
	sigs.k8s.io/json v0.0.0-20250730193827-2d320260d730 // indirect
	sigs.k8s.io/randfill v1.0.0 // indirect
	sigs.k8s.io/structured-merge-diff/v6 v6.4.0 // indirect
	sigs.k8s.io/yaml v1.6.0 // indirect
)

replace sigs.k8s.io/karpenter => /repo
