package ref

import (
	"fmt"
	"sort"

	corev1 "k8s.io/api/core/v1"
	"k8s.io/apimachinery/pkg/api/resource"
	resourcehelper "k8s.io/component-helpers/resource"
	schedcorev1 "k8s.io/component-helpers/scheduling/corev1"
	"k8s.io/component-helpers/scheduling/corev1/nodeaffinity"
	"k8s.io/klog/v2"
)

// Reject explains why Kubernetes would not admit a pod on a node.
type Reject struct {
	Rule string // affinity | taint | hostport | resources | volume-zone | volume-limit
	What string
}

func (r *Reject) String() string { return r.Rule + ": " + r.What }

// MatchesNodeAffinity: nodeSelector AND (any required node-affinity term), evaluated by the Kubernetes library.
func MatchesNodeAffinity(pod *corev1.Pod, node *corev1.Node) bool {
	ok, err := nodeaffinity.GetRequiredNodeAffinity(pod).Match(node)
	return err == nil && ok
}

// UntoleratedTaint returns a NoSchedule / NoExecute taint the pod does not tolerate (PreferNoSchedule never blocks).
func UntoleratedTaint(pod *corev1.Pod, taints []corev1.Taint) (corev1.Taint, bool) {
	return schedcorev1.FindMatchingUntoleratedTaint(klog.Background(), taints, pod.Spec.Tolerations, func(t *corev1.Taint) bool {
		return t.Effect == corev1.TaintEffectNoSchedule || t.Effect == corev1.TaintEffectNoExecute
	}, false)
}

// PodRequests is what kube-scheduler sums for a pod (containers, init containers, overhead) plus one "pods" slot.
func PodRequests(pod *corev1.Pod) corev1.ResourceList {
	rl := resourcehelper.PodRequests(pod, resourcehelper.PodResourcesOptions{})
	rl[corev1.ResourcePods] = resource.MustParse("1")
	return rl
}

// SumRequests adds up the requests of the pods.
func SumRequests(pods ...*corev1.Pod) corev1.ResourceList {
	total := corev1.ResourceList{}
	for _, p := range pods {
		for k, v := range PodRequests(p) {
			q := total[k]
			q.Add(v)
			total[k] = q
		}
	}
	return total
}

// Fits reports whether every requested (non-zero) resource is within allocatable.
func Fits(requests, allocatable corev1.ResourceList) (bool, string) {
	names := make([]string, 0, len(requests))
	for k := range requests {
		names = append(names, string(k))
	}
	sort.Strings(names)
	for _, n := range names {
		req := requests[corev1.ResourceName(n)]
		if req.IsZero() {
			continue
		}
		alloc := allocatable[corev1.ResourceName(n)]
		if req.Cmp(alloc) > 0 {
			return false, fmt.Sprintf("%s requested %s > allocatable %s", n, req.String(), alloc.String())
		}
	}
	return true, ""
}

type hostPort struct {
	ip, proto string
	port      int32
}

func podHostPorts(pod *corev1.Pod) []hostPort {
	var out []hostPort
	add := func(cs []corev1.Container) {
		for _, c := range cs {
			for _, p := range c.Ports {
				if p.HostPort == 0 {
					continue
				}
				ip := p.HostIP
				if ip == "" {
					ip = "0.0.0.0"
				}
				proto := string(p.Protocol)
				if proto == "" {
					proto = "TCP"
				}
				out = append(out, hostPort{ip: ip, proto: proto, port: p.HostPort})
			}
		}
	}
	add(pod.Spec.Containers)
	add(pod.Spec.InitContainers)
	return out
}

// HostPortConflict implements the NodePorts rule: same protocol and port, and equal IPs or either side a wildcard.
func HostPortConflict(a, b *corev1.Pod) (string, bool) {
	for _, x := range podHostPorts(a) {
		for _, y := range podHostPorts(b) {
			if x.port == y.port && x.proto == y.proto && (x.ip == y.ip || x.ip == "0.0.0.0" || y.ip == "0.0.0.0" || x.ip == "::" || y.ip == "::") {
				return fmt.Sprintf("%s/%d on %s (pod %s) vs %s (pod %s)", x.proto, x.port, x.ip, a.Name, y.ip, b.Name), true
			}
		}
	}
	return "", false
}

// NodeCase is a concrete node together with the pods that will share it.
type NodeCase struct {
	Node        *corev1.Node
	Allocatable corev1.ResourceList
	// Residents already run there (bound pods, expected daemons); Placed are the pods Karpenter decided to put there.
	Residents []*corev1.Pod
	Placed    []*corev1.Pod
	// PoolPrims (optional): the NodePool's own requirements per key, only used to attribute an affinity mismatch to the
	// known presence-loss defect of the requirement representation
	PoolPrims map[string][]Prim
	// PresenceLossy re-judges node affinity the way the (known-defective) requirement representation does; it is only
	// used to attribute a rejection to that known root cause
	PresenceLossy bool
	// Expected are pods that will still start there (daemons not running yet): they count for resources only
	Expected []*corev1.Pod
	// VolumeCheck (optional) returns a rejection when the pod's volumes cannot be used on this node.
	VolumeCheck func(pod *corev1.Pod, node *corev1.Node) *Reject
}

// Admissible checks every placed pod against the node under Kubernetes scheduling rules for required constraints.
func (nc NodeCase) Admissible() *Reject {
	for _, p := range nc.Placed {
		if nc.PresenceLossy {
			if !MatchesNodeAffinity(p, nc.Node) && !MatchesUnderPresenceLoss(p, nc.Node.Labels, nc.PoolPrims) {
				return &Reject{"affinity", "no match even under presence loss"}
			}
		} else if !MatchesNodeAffinity(p, nc.Node) {
			rule := "affinity"
			if MatchesUnderPresenceLoss(p, nc.Node.Labels, nc.PoolPrims) {
				rule = "affinity:presence-lost"
			}
			return &Reject{rule, fmt.Sprintf("pod %s: nodeSelector/required node affinity does not match node %s labels %v", p.Name, nc.Node.Name, nc.Node.Labels)}
		}
		if t, bad := UntoleratedTaint(p, nc.Node.Spec.Taints); bad {
			return &Reject{"taint", fmt.Sprintf("pod %s does not tolerate taint %s=%s:%s on node %s", p.Name, t.Key, t.Value, t.Effect, nc.Node.Name)}
		}
		if nc.VolumeCheck != nil {
			if r := nc.VolumeCheck(p, nc.Node); r != nil {
				return r
			}
		}
	}
	all := append(append(append([]*corev1.Pod{}, nc.Residents...), nc.Placed...), nc.Expected...)
	for i, p := range nc.Placed {
		for _, q := range nc.Residents {
			if what, bad := HostPortConflict(p, q); bad {
				return &Reject{"hostport", what}
			}
		}
		for _, q := range nc.Placed[i+1:] {
			if what, bad := HostPortConflict(p, q); bad {
				return &Reject{"hostport", what}
			}
		}
	}
	// only resources the placed pods ask for are judged: residents over-committing some other resource say nothing
	// about the placement decision
	total := SumRequests(all...)
	asked := SumRequests(nc.Placed...)
	for k := range total {
		if q, ok := asked[k]; !ok || q.IsZero() {
			delete(total, k)
		}
	}
	if ok, why := Fits(total, nc.Allocatable); !ok {
		return &Reject{"resources", fmt.Sprintf("node %s: %s (residents %d, placed %d)", nc.Node.Name, why, len(nc.Residents), len(nc.Placed))}
	}
	return nil
}

// PodTerms returns, per alternative (OR-ed required term, or one implicit alternative), the primitives per label key
// including the nodeSelector entries.
func PodTerms(pod *corev1.Pod) []map[string][]Prim {
	base := map[string][]Prim{}
	for k, v := range pod.Spec.NodeSelector {
		base[k] = append(base[k], Prim{Op: "In", Values: []string{v}})
	}
	var terms []corev1.NodeSelectorTerm
	if a := pod.Spec.Affinity; a != nil && a.NodeAffinity != nil && a.NodeAffinity.RequiredDuringSchedulingIgnoredDuringExecution != nil {
		terms = a.NodeAffinity.RequiredDuringSchedulingIgnoredDuringExecution.NodeSelectorTerms
	}
	// Karpenter additionally treats one preferred term at a time as if it were required
	var preferred []corev1.NodeSelectorTerm
	if a := pod.Spec.Affinity; a != nil && a.NodeAffinity != nil {
		for _, pt := range a.NodeAffinity.PreferredDuringSchedulingIgnoredDuringExecution {
			preferred = append(preferred, pt.Preference)
		}
	}
	if len(terms) == 0 {
		terms = []corev1.NodeSelectorTerm{{}}
	}
	var out []map[string][]Prim
	for _, t := range terms {
		for pi := -1; pi < len(preferred); pi++ {
			m := map[string][]Prim{}
			for k, v := range base {
				m[k] = append([]Prim{}, v...)
			}
			for _, e := range t.MatchExpressions {
				m[e.Key] = append(m[e.Key], Prim{Op: string(e.Operator), Values: e.Values})
			}
			if pi >= 0 {
				for _, e := range preferred[pi].MatchExpressions {
					m[e.Key] = append(m[e.Key], Prim{Op: string(e.Operator), Values: e.Values})
				}
			}
			out = append(out, m)
		}
	}
	return out
}

// MatchesUnderPresenceLoss reports whether the labels would satisfy the pod if a requirement whose admitted set is
// empty, or a complement with exclusions, were (wrongly) satisfied by an absent label - the documented known defect of
// the requirement representation (C12). Used only to attribute an affinity mismatch to that root cause.
func MatchesUnderPresenceLoss(pod *corev1.Pod, labels map[string]string, extra map[string][]Prim) bool {
	for _, term := range PodTerms(pod) {
		ok := true
		for k, prims := range term {
			prims = append(append([]Prim{}, prims...), extra[k]...)
			valid := true
			for _, p := range prims {
				if (p.Op == "Gt" || p.Op == "Lt") && len(p.Values) != 1 {
					valid = false
				}
			}
			if !valid {
				ok = false
				break
			}
			d := FromPrims(prims)
			if v, present := labels[k]; present {
				if !d.Has(v) {
					ok = false
					break
				}
				continue
			}
			lossyAbsent := d.Absent || d.Empty() || (d.Co && len(d.Vals) > 0)
			if !lossyAbsent {
				ok = false
				break
			}
		}
		if ok {
			return true
		}
	}
	return false
}
