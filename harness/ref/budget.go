package ref

import (
	"fmt"
	"strconv"
	"strings"
	"time"
)

// Cron is an independent evaluator for the 5-field cron syntax Kubernetes CronJobs use (robfig/cron "standard" parser
// semantics: minute hour day-of-month month day-of-week, lists, ranges, steps, names, @macros; when both day fields
// are restricted a day matches if EITHER matches).
type Cron struct {
	min, hour, dom, month, dow map[int]bool
	domStar, dowStar           bool
}

var cronMacros = map[string]string{
	"@yearly": "0 0 1 1 *", "@annually": "0 0 1 1 *", "@monthly": "0 0 1 * *", "@weekly": "0 0 * * 0",
	"@daily": "0 0 * * *", "@midnight": "0 0 * * *", "@hourly": "0 * * * *",
}

var monthNames = map[string]int{"jan": 1, "feb": 2, "mar": 3, "apr": 4, "may": 5, "jun": 6, "jul": 7, "aug": 8, "sep": 9, "oct": 10, "nov": 11, "dec": 12}
var dowNames = map[string]int{"sun": 0, "mon": 1, "tue": 2, "wed": 3, "thu": 4, "fri": 5, "sat": 6}

func parseCronField(f string, lo, hi int, names map[string]int) (map[int]bool, bool, error) {
	out := map[int]bool{}
	star := false
	for _, part := range strings.Split(f, ",") {
		if part == "" {
			return nil, false, fmt.Errorf("empty list element")
		}
		rangeAndStep := strings.Split(part, "/")
		if len(rangeAndStep) > 2 {
			return nil, false, fmt.Errorf("too many slashes")
		}
		lowHigh := strings.Split(rangeAndStep[0], "-")
		if len(lowHigh) > 2 {
			return nil, false, fmt.Errorf("too many hyphens")
		}
		parse := func(s string) (int, error) {
			if names != nil {
				if v, ok := names[strings.ToLower(s)]; ok {
					return v, nil
				}
			}
			v, err := strconv.Atoi(s)
			if err != nil || v < 0 {
				return 0, fmt.Errorf("bad number %q", s)
			}
			return v, nil
		}
		var start, end int
		partStar := false
		if lowHigh[0] == "*" || lowHigh[0] == "?" {
			if len(lowHigh) != 1 {
				return nil, false, fmt.Errorf("star with range")
			}
			start, end, partStar = lo, hi, true
		} else {
			var err error
			if start, err = parse(lowHigh[0]); err != nil {
				return nil, false, err
			}
			end = start
			if len(lowHigh) == 2 {
				if end, err = parse(lowHigh[1]); err != nil {
					return nil, false, err
				}
			}
		}
		step := 1
		if len(rangeAndStep) == 2 {
			var err error
			if step, err = strconv.Atoi(rangeAndStep[1]); err != nil || step <= 0 {
				return nil, false, fmt.Errorf("bad step")
			}
			if len(lowHigh) == 1 && !partStar {
				end = hi // N/step means N-max/step
			}
			if step > 1 {
				partStar = false
			}
		}
		if start < lo || end > hi || start > end {
			return nil, false, fmt.Errorf("out of range")
		}
		for v := start; v <= end; v += step {
			out[v] = true
		}
		star = star || partStar
	}
	return out, star, nil
}

// ParseCron parses a standard 5-field schedule or @macro.
func ParseCron(spec string) (*Cron, error) {
	if m, ok := cronMacros[spec]; ok {
		spec = m
	} else if strings.HasPrefix(spec, "@") {
		return nil, fmt.Errorf("unsupported descriptor")
	}
	fields := strings.Fields(spec)
	if len(fields) != 5 {
		return nil, fmt.Errorf("want 5 fields")
	}
	c := &Cron{}
	var err error
	if c.min, _, err = parseCronField(fields[0], 0, 59, nil); err != nil {
		return nil, err
	}
	if c.hour, _, err = parseCronField(fields[1], 0, 23, nil); err != nil {
		return nil, err
	}
	if c.dom, c.domStar, err = parseCronField(fields[2], 1, 31, nil); err != nil {
		return nil, err
	}
	if c.month, _, err = parseCronField(fields[3], 1, 12, monthNames); err != nil {
		return nil, err
	}
	if c.dow, c.dowStar, err = parseCronField(fields[4], 0, 6, dowNames); err != nil {
		return nil, err
	}
	return c, nil
}

// Hits reports whether the schedule fires at the minute starting at t (t is truncated to the minute, UTC).
func (c *Cron) Hits(t time.Time) bool {
	t = t.UTC()
	if !c.min[t.Minute()] || !c.hour[t.Hour()] || !c.month[int(t.Month())] {
		return false
	}
	dom, dow := c.dom[t.Day()], c.dow[int(t.Weekday())]
	if c.domStar || c.dowStar {
		return dom && dow
	}
	return dom || dow
}

// ActiveAt: a budget window is [hit, hit+d) after each hit; found by scanning every minute boundary in (now-d, now].
func (c *Cron) ActiveAt(now time.Time, d time.Duration) bool {
	now = now.UTC()
	for h := now.Truncate(time.Minute); h.After(now.Add(-d)); h = h.Add(-time.Minute) {
		if c.Hits(h) {
			return true
		}
	}
	return false
}

// NextHit scans forward minute by minute for at most limit minutes.
func (c *Cron) NextHit(from time.Time, limit int) (time.Time, bool) {
	t := from.UTC().Truncate(time.Minute)
	if t.Before(from) {
		t = t.Add(time.Minute)
	}
	for i := 0; i < limit; i++ {
		if c.Hits(t) {
			return t, true
		}
		t = t.Add(time.Minute)
	}
	return time.Time{}, false
}

// BudgetSpec is a disruption budget as the NodePool API states it.
type BudgetSpec struct {
	Nodes       string   `json:"nodes"`
	Reasons     []string `json:"reasons,omitempty"`
	Schedule    *string  `json:"schedule,omitempty"`
	DurationMin *int     `json:"durationMin,omitempty"`
}

const Unbounded = int(^uint32(0) >> 1) // MaxInt32

// NodesValue parses the nodes field: (value, isPercent, ok).
func NodesValue(s string) (int, bool, bool) {
	if strings.HasSuffix(s, "%") {
		v, err := strconv.Atoi(strings.TrimSuffix(s, "%"))
		if err != nil || v < 0 {
			return 0, true, false
		}
		return v, true, true
	}
	v, err := strconv.Atoi(s)
	if err != nil {
		return 0, false, false
	}
	return v, false, true
}

// Allowed returns what one budget allows at now for a pool of n nodes: (allowed, malformed).
func (b BudgetSpec) Allowed(now time.Time, n int) (int, bool) {
	if b.Schedule != nil || b.DurationMin != nil {
		sched := ""
		if b.Schedule != nil {
			sched = *b.Schedule
		}
		c, err := ParseCron(sched)
		if err != nil {
			return 0, true
		}
		d := time.Duration(0)
		if b.DurationMin != nil {
			d = time.Duration(*b.DurationMin) * time.Minute
		}
		if !c.ActiveAt(now, d) {
			return Unbounded, false
		}
	}
	v, pct, ok := NodesValue(b.Nodes)
	if !ok {
		return 0, true
	}
	if pct {
		return (v*n + 99) / 100, false // rounds up
	}
	return v, false
}

// AllowedFor is the most restrictive budget that lists the reason or lists none; malformed budgets allow zero.
func AllowedFor(budgets []BudgetSpec, reason string, now time.Time, n int) (allowed int, anyMalformed bool) {
	allowed = Unbounded
	for _, b := range budgets {
		v, bad := b.Allowed(now, n)
		anyMalformed = anyMalformed || bad
		applies := len(b.Reasons) == 0
		for _, r := range b.Reasons {
			applies = applies || r == reason
		}
		if applies && v < allowed {
			allowed = v
		}
	}
	return allowed, anyMalformed
}
