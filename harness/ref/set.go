// Package ref holds reference semantics written from the Kubernetes documentation, independent of Karpenter's code.
package ref

import (
	"fmt"
	"math"
	"sort"
	"strconv"
	"strings"
)

// Set is the denotation of a (possibly compound) node-selector requirement on one label key:
// the set of label *values* it admits (over all strings) and whether it admits a node that lacks the label.
//
//	Co=false: exactly the strings in Vals (already filtered by bounds)
//	Co=true : every string not in Vals; when a bound is present only strings that parse as an integer within [Lo,Hi]
type Set struct {
	Co     bool
	Vals   map[string]bool
	Lo, Hi *int64 // inclusive; only meaningful when Co
	None   bool   // admits no value at all (e.g. Gt MaxInt)
	Absent bool   // a node without the label satisfies the requirement
}

func i64(v int64) *int64 { return &v }

// Prim is one primitive node-selector requirement as the Kubernetes API states it.
type Prim struct {
	Op     string   `json:"op"`
	Values []string `json:"values,omitempty"`
}

func (p Prim) String() string { return fmt.Sprintf("%s%v", p.Op, p.Values) }

// FromPrim builds the denotation of one primitive. Gt/Lt/Gte/Lte take exactly one integer value (validated domain).
func FromPrim(p Prim) Set {
	vals := map[string]bool{}
	for _, v := range p.Values {
		vals[v] = true
	}
	switch p.Op {
	case "In":
		return Set{Vals: vals}
	case "NotIn":
		return Set{Co: true, Vals: vals, Absent: true}
	case "Exists":
		return Set{Co: true, Vals: map[string]bool{}}
	case "DoesNotExist":
		return Set{Vals: map[string]bool{}, Absent: true}
	}
	n, err := strconv.ParseInt(p.Values[0], 10, 64)
	if err != nil {
		panic("ref.FromPrim: bound operator needs an integer value: " + p.Values[0])
	}
	s := Set{Co: true, Vals: map[string]bool{}}
	switch p.Op {
	case "Gt":
		if n == math.MaxInt64 {
			return Set{Vals: map[string]bool{}, None: true}
		}
		s.Lo = i64(n + 1)
	case "Gte":
		s.Lo = i64(n)
	case "Lt":
		if n == math.MinInt64 {
			return Set{Vals: map[string]bool{}, None: true}
		}
		s.Hi = i64(n - 1)
	case "Lte":
		s.Hi = i64(n)
	default:
		panic("ref.FromPrim: unknown operator " + p.Op)
	}
	return s
}

func inBounds(v string, lo, hi *int64) bool {
	if lo == nil && hi == nil {
		return true
	}
	n, err := strconv.ParseInt(v, 10, 64)
	if err != nil {
		return false
	}
	if lo != nil && n < *lo {
		return false
	}
	if hi != nil && n > *hi {
		return false
	}
	return true
}

// Has reports whether a node labelled with value v satisfies the requirement.
func (s Set) Has(v string) bool {
	if s.None {
		return false
	}
	if s.Co {
		return !s.Vals[v] && inBounds(v, s.Lo, s.Hi)
	}
	return s.Vals[v]
}

func maxP(a, b *int64) *int64 {
	if a == nil {
		return b
	}
	if b == nil {
		return a
	}
	if *a > *b {
		return a
	}
	return b
}
func minP(a, b *int64) *int64 {
	if a == nil {
		return b
	}
	if b == nil {
		return a
	}
	if *a < *b {
		return a
	}
	return b
}

// And is the conjunction of two requirements on the same key.
func (s Set) And(o Set) Set {
	out := Set{Absent: s.Absent && o.Absent, Vals: map[string]bool{}}
	if s.None || o.None {
		out.None = true
		return out
	}
	switch {
	case s.Co && o.Co:
		out.Co = true
		for v := range s.Vals {
			out.Vals[v] = true
		}
		for v := range o.Vals {
			out.Vals[v] = true
		}
		out.Lo, out.Hi = maxP(s.Lo, o.Lo), minP(s.Hi, o.Hi)
		if out.Lo != nil && out.Hi != nil && *out.Lo > *out.Hi {
			return Set{None: true, Vals: map[string]bool{}, Absent: out.Absent}
		}
	case s.Co && !o.Co:
		for v := range o.Vals {
			if s.Has(v) {
				out.Vals[v] = true
			}
		}
	case !s.Co && o.Co:
		for v := range s.Vals {
			if o.Has(v) {
				out.Vals[v] = true
			}
		}
	default:
		for v := range s.Vals {
			if o.Vals[v] {
				out.Vals[v] = true
			}
		}
	}
	return out
}

// Empty reports whether no string at all is admitted. A bounded co-finite set is never emptied by a finite
// exclusion list because every integer has unboundedly many spellings ("5", "05", "005", ...).
func (s Set) Empty() bool {
	if s.None {
		return true
	}
	if s.Co {
		return s.Lo != nil && s.Hi != nil && *s.Lo > *s.Hi
	}
	return len(s.Vals) == 0
}

// Overlaps reports whether some label value satisfies both.
func (s Set) Overlaps(o Set) bool { return !s.And(o).Empty() }

// Finite returns the admitted values when the set is finite.
func (s Set) Finite() ([]string, bool) {
	if s.None {
		return nil, true
	}
	if s.Co {
		return nil, false
	}
	out := make([]string, 0, len(s.Vals))
	for v := range s.Vals {
		out = append(out, v)
	}
	sort.Strings(out)
	return out, true
}

// SubsetOf reports s ⊆ o over all strings (exact for the shapes this package builds).
func (s Set) SubsetOf(o Set) bool {
	if s.Empty() {
		return true
	}
	if vals, ok := s.Finite(); ok {
		for _, v := range vals {
			if !o.Has(v) {
				return false
			}
		}
		return true
	}
	// s is co-finite (possibly bounded), o must be co-finite too
	if !o.Co || o.None {
		return false
	}
	// every exclusion of o that s would admit breaks inclusion
	for v := range o.Vals {
		if s.Has(v) {
			return false
		}
	}
	if o.Lo != nil || o.Hi != nil {
		if s.Lo == nil && s.Hi == nil {
			return false // s admits non-integers
		}
		lo, hi := int64(math.MinInt64), int64(math.MaxInt64)
		if s.Lo != nil {
			lo = *s.Lo
		}
		if s.Hi != nil {
			hi = *s.Hi
		}
		if o.Lo != nil && lo < *o.Lo {
			return false
		}
		if o.Hi != nil && hi > *o.Hi {
			return false
		}
	}
	return true
}

func (s Set) String() string {
	var sb strings.Builder
	if s.None {
		sb.WriteString("∅")
	} else {
		vals := make([]string, 0, len(s.Vals))
		for v := range s.Vals {
			vals = append(vals, strconv.Quote(v))
		}
		sort.Strings(vals)
		if s.Co {
			sb.WriteString("ALL")
			if len(vals) > 0 {
				sb.WriteString(" \\ {" + strings.Join(vals, ",") + "}")
			}
			if s.Lo != nil {
				fmt.Fprintf(&sb, " >=%d", *s.Lo)
			}
			if s.Hi != nil {
				fmt.Fprintf(&sb, " <=%d", *s.Hi)
			}
		} else {
			sb.WriteString("{" + strings.Join(vals, ",") + "}")
		}
	}
	if s.Absent {
		sb.WriteString(" +absent")
	}
	return sb.String()
}

// All is the denotation of "no requirement on this key".
func All() Set { return Set{Co: true, Vals: map[string]bool{}, Absent: true} }

// FromPrims is the conjunction of several primitives on one key.
func FromPrims(ps []Prim) Set {
	s := All()
	for _, p := range ps {
		s = s.And(FromPrim(p))
	}
	return s
}

// ProbeUniverse returns the strings worth probing for a collection of primitives: every mentioned value, every bound
// and bound±1 in three spellings, plus fresh integer and non-integer strings.
func ProbeUniverse(ps ...Prim) []string {
	seen := map[string]bool{}
	var out []string
	add := func(v string) {
		if !seen[v] {
			seen[v] = true
			out = append(out, v)
		}
	}
	for _, p := range ps {
		for _, v := range p.Values {
			add(v)
			if n, err := strconv.ParseInt(v, 10, 64); err == nil {
				for _, d := range []int64{-1, 0, 1} {
					if (d < 0 && n == math.MinInt64) || (d > 0 && n == math.MaxInt64) {
						continue
					}
					m := n + d
					add(strconv.FormatInt(m, 10))
					if m >= 0 {
						add("0" + strconv.FormatInt(m, 10))
						add("+" + strconv.FormatInt(m, 10))
					} else if m != math.MinInt64 {
						add("-0" + strconv.FormatInt(-m, 10))
					}
				}
			}
		}
	}
	for _, v := range []string{"", "zz-fresh", "7777", "-7777", "1.5", "1e3", " 1", "0", "9223372036854775807", "-9223372036854775808"} {
		add(v)
	}
	return out
}
