package harness

import (
	"fmt"
	"sort"
	"strings"

	appsv1 "k8s.io/api/apps/v1"
	corev1 "k8s.io/api/core/v1"
	metav1 "k8s.io/apimachinery/pkg/apis/meta/v1"
	"k8s.io/apimachinery/pkg/types"

	v1 "sigs.k8s.io/karpenter/pkg/apis/v1"
	"sigs.k8s.io/karpenter/pkg/controllers/dynamicresources/deviceallocation"
	"sigs.k8s.io/karpenter/pkg/controllers/provisioning"
	"sigs.k8s.io/karpenter/pkg/operator/options"
	"sigs.k8s.io/karpenter/pkg/state/virtualpods"

	"verif/harness/ev"
	"verif/harness/gen"
	"verif/harness/ref"
	"verif/harness/sim"
)

// builtWorld is a materialised gen.SchedWorld.
type builtWorld struct {
	W         *sim.World
	S         *gen.SchedWorld
	Pools     map[string]*v1.NodePool
	Unready   map[string]*v1.NodePool // pools that exist but are not Ready (gen.SchedWorld.PoolReady)
	Nodes     map[string]*sim.BuiltNode
	Originals map[types.UID]*corev1.Pod // every pod the harness created, as created
	// choiceOK, when set, restricts poolFeasible to launch choices it accepts (the daemon overhead is still taken over all)
	choiceOK    func(launchChoice) bool
	DaemonSets  []*appsv1.DaemonSet
	Provisioner *provisioning.Provisioner
}

func karpenterOptions(o gen.SchedOptions) *options.Options {
	k := sim.DefaultOptions()
	if o.IgnorePreferences {
		k.PreferencePolicy = options.PreferencePolicyIgnore
	}
	if o.MinValuesBestEffort {
		k.MinValuesPolicy = options.MinValuesPolicyBestEffort
	}
	if o.CPURequests > 0 {
		k.CPURequests = int64(o.CPURequests)
	}
	k.FeatureGates.ReservedCapacity = o.ReservedCapacity
	return k
}

// daemonTemplatePod is the pod a DaemonSet would run on a node (what Kubernetes evaluates against the node).
func daemonTemplatePod(ds *appsv1.DaemonSet) *corev1.Pod {
	return &corev1.Pod{ObjectMeta: metav1.ObjectMeta{Name: ds.Name, Namespace: ds.Namespace, Labels: ds.Spec.Template.Labels}, Spec: *ds.Spec.Template.Spec.DeepCopy()}
}

// daemonRunsOn: Kubernetes would run the DaemonSet's pod on this node (selector/affinity + NoSchedule/NoExecute taints).
func daemonRunsOn(ds *appsv1.DaemonSet, node *corev1.Node) bool {
	p := daemonTemplatePod(ds)
	if !ref.MatchesNodeAffinity(p, node) {
		return false
	}
	_, bad := ref.UntoleratedTaint(p, node.Spec.Taints)
	return !bad
}

// build materialises the scenario. Pools failing RuntimeValidate are dropped (counted), as the NodePool validation
// controller would keep them not Ready.
func build(s *gen.SchedWorld, c *ev.Ctx) *builtWorld {
	return buildWith(s, c, sim.Options{Karpenter: karpenterOptions(s.Options)})
}

func buildWith(s *gen.SchedWorld, c *ev.Ctx, so sim.Options) *builtWorld {
	w := sim.New(so)
	b := &builtWorld{W: w, S: s, Pools: map[string]*v1.NodePool{}, Unready: map[string]*v1.NodePool{}, Nodes: map[string]*sim.BuiltNode{}, Originals: map[types.UID]*corev1.Pod{}}
	w.ApplyNodeClass()
	w.Provider.Default = s.Catalog
	for _, np := range s.Pools {
		if err := np.DeepCopy().RuntimeValidate(w.Ctx); err != nil {
			c.Class("pool_rejected_by_validation")
			continue
		}
		if why := s.PoolReady[np.Name]; why != "" {
			// a pool that is not Ready (its NodeClass is not, or nothing has reconciled it yet) takes no part in provisioning
			applied := w.ApplyPool(np)
			switch why {
			case "unknown":
				applied.StatusConditions().SetUnknown(v1.ConditionTypeNodeClassReady)
			case "false":
				applied.StatusConditions().SetFalse(v1.ConditionTypeNodeClassReady, "NodeClassNotReady", "node class is not ready")
			case "none":
				applied.Status.Conditions = nil
			}
			w.Apply(applied)
			b.Unready[np.Name] = applied
			c.Class("pool_not_ready:" + why)
			continue
		}
		b.Pools[np.Name] = w.ApplyPool(np)
	}
	for _, n := range s.Nodes {
		var pool *v1.NodePool
		if n.Pool != "" {
			pool = b.Pools[n.Pool]
			if pool == nil {
				continue
			}
		}
		bn := w.ApplyNode(n, pool)
		b.Nodes[n.Name] = bn
	}
	used := map[string][]*corev1.Pod{}
	for _, p := range s.Bound {
		if _, ok := b.Nodes[p.Spec.NodeName]; !ok || b.Nodes[p.Spec.NodeName].Node == nil {
			continue
		}
		// world consistency: the pods bound to a node never exceed what the node offers (kubelet admission)
		bn := b.Nodes[p.Spec.NodeName]
		used[p.Spec.NodeName] = append(used[p.Spec.NodeName], p)
		if ok, _ := ref.Fits(ref.SumRequests(used[p.Spec.NodeName]...), bn.Node.Status.Allocatable); !ok {
			used[p.Spec.NodeName] = used[p.Spec.NodeName][:len(used[p.Spec.NodeName])-1]
			c.Count("bound_pod_dropped_overcommit")
			continue
		}
		p = p.DeepCopy()
		w.Apply(p)
		b.Originals[p.UID] = p.DeepCopy()
	}
	on := map[string]bool{}
	for _, k := range s.DaemonOn {
		on[k] = true
	}
	for _, ds := range s.DaemonSets {
		ds = ds.DeepCopy()
		w.Apply(ds)
		b.DaemonSets = append(b.DaemonSets, ds)
		names := make([]string, 0, len(b.Nodes))
		for n := range b.Nodes {
			names = append(names, n)
		}
		sort.Strings(names)
		for _, n := range names {
			bn := b.Nodes[n]
			// daemon pods only ever run on nodes their DaemonSet matches
			if bn.Node == nil || !on[ds.Name+"@"+n] || !daemonRunsOn(ds, bn.Node) {
				continue
			}
			dp := sim.DaemonPod(ds, n)
			// world consistency: the kubelet would not have admitted a daemon pod beyond the node's allocatable either
			used[n] = append(used[n], dp)
			if ok, _ := ref.Fits(ref.SumRequests(used[n]...), bn.Node.Status.Allocatable); !ok {
				used[n] = used[n][:len(used[n])-1]
				c.Count("daemon_pod_dropped_overcommit")
				continue
			}
			w.Apply(dp)
			b.Originals[dp.UID] = dp.DeepCopy()
		}
	}
	for _, p := range s.Pending {
		p = p.DeepCopy()
		w.Apply(p)
		b.Originals[p.UID] = p.DeepCopy()
	}
	w.Sync()
	for _, n := range s.Nodes {
		if bn := b.Nodes[n.Name]; bn != nil && n.Marked && bn.NodeClaim != nil && bn.NodeClaim.Status.ProviderID != "" {
			w.Cluster.MarkForDeletion(bn.NodeClaim.Status.ProviderID)
		}
	}
	b.Provisioner = provisioning.NewProvisioner(w.Client, w.Recorder, w.Provider, w.Cluster, w.Clock, deviceallocation.NewController(w.Client), virtualpods.NewVirtualPodCache(w.Client))
	return b
}

func podKey(p *corev1.Pod) string { return p.Namespace + "/" + p.Name }

func shortPods(ps []*corev1.Pod) string {
	names := make([]string, 0, len(ps))
	for _, p := range ps {
		names = append(names, p.Name)
	}
	return "[" + strings.Join(names, ",") + "]"
}

var _ = fmt.Sprint
