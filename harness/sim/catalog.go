package sim

import (
	"fmt"
	"sort"

	corev1 "k8s.io/api/core/v1"
	"k8s.io/apimachinery/pkg/api/resource"

	v1 "sigs.k8s.io/karpenter/pkg/apis/v1"
	"sigs.k8s.io/karpenter/pkg/cloudprovider"
	"sigs.k8s.io/karpenter/pkg/scheduling"
	testv1alpha1 "sigs.k8s.io/karpenter/pkg/test/v1alpha1"
)

// Provider-defined well-known labels of the emulated cloud.
const (
	LabelFamily = "sim.verif/family" // string valued, one value per instance type
	LabelGen    = "sim.verif/gen"    // integer valued
	LabelRack   = "ex.io/rack"       // custom topology key (user label, never defined by instance types)
)

func init() {
	v1.WellKnownLabels = v1.WellKnownLabels.Insert(LabelFamily, LabelGen, testv1alpha1.LabelReservationID)
	cloudprovider.ReservationIDLabel = testv1alpha1.LabelReservationID
	cloudprovider.ReservedCapacityLabels.Insert(testv1alpha1.LabelReservationID)
}

// OfferingSpec is a JSON-serialisable offering.
type OfferingSpec struct {
	Zone                string            `json:"zone"`
	CapacityType        string            `json:"ct"`
	Price               float64           `json:"price"`
	Available           bool              `json:"available"`
	ReservationID       string            `json:"rid,omitempty"`
	ReservationCapacity int               `json:"rcap,omitempty"`
	CapacityOverride    map[string]string `json:"capOverride,omitempty"`
	OverheadOverride    map[string]string `json:"ovhOverride,omitempty"`
}

// ITSpec is a JSON-serialisable instance type.
type ITSpec struct {
	Name         string            `json:"name"`
	Arch         string            `json:"arch"`
	OS           []string          `json:"os"`
	Family       string            `json:"family,omitempty"`
	Gen          string            `json:"gen,omitempty"`
	Capacity     map[string]string `json:"capacity"`
	KubeReserved map[string]string `json:"kubeReserved,omitempty"`
	Offerings    []OfferingSpec    `json:"offerings"`
	// ZonesFromAll: the zone / capacity-type requirement lists every offering, not only the available ones
	ZonesFromAll bool `json:"zonesFromAll,omitempty"`
}

func RL(m map[string]string) corev1.ResourceList {
	if len(m) == 0 {
		return nil
	}
	out := corev1.ResourceList{}
	for k, v := range m {
		out[corev1.ResourceName(k)] = resource.MustParse(v)
	}
	return out
}

func (o OfferingSpec) Requirements() scheduling.Requirements {
	labels := map[string]string{v1.CapacityTypeLabelKey: o.CapacityType, corev1.LabelTopologyZone: o.Zone}
	if o.CapacityType == v1.CapacityTypeReserved {
		labels[cloudprovider.ReservationIDLabel] = o.ReservationID
	}
	return scheduling.NewLabelRequirements(labels)
}

func (o OfferingSpec) Build() *cloudprovider.Offering {
	of := &cloudprovider.Offering{
		Requirements:        o.Requirements(),
		Price:               o.Price,
		Available:           o.Available,
		ReservationCapacity: o.ReservationCapacity,
		CapacityOverride:    RL(o.CapacityOverride),
	}
	if len(o.OverheadOverride) > 0 {
		of.OverheadOverride = &cloudprovider.InstanceTypeOverhead{KubeReserved: RL(o.OverheadOverride)}
	}
	return of
}

func uniqSorted(xs []string) []string {
	m := map[string]bool{}
	for _, x := range xs {
		m[x] = true
	}
	out := make([]string, 0, len(m))
	for x := range m {
		out = append(out, x)
	}
	sort.Strings(out)
	return out
}

// Build constructs the cloudprovider.InstanceType (a fresh object on every call).
func (s ITSpec) Build() *cloudprovider.InstanceType {
	var zones, cts []string
	ofs := cloudprovider.Offerings{}
	for _, o := range s.Offerings {
		ofs = append(ofs, o.Build())
		if o.Available || s.ZonesFromAll {
			zones = append(zones, o.Zone)
			cts = append(cts, o.CapacityType)
		}
	}
	reqs := scheduling.NewRequirements(
		scheduling.NewRequirement(corev1.LabelInstanceTypeStable, corev1.NodeSelectorOpIn, s.Name),
		scheduling.NewRequirement(corev1.LabelArchStable, corev1.NodeSelectorOpIn, s.Arch),
		scheduling.NewRequirement(corev1.LabelOSStable, corev1.NodeSelectorOpIn, s.OS...),
		scheduling.NewRequirement(corev1.LabelTopologyZone, corev1.NodeSelectorOpIn, uniqSorted(zones)...),
		scheduling.NewRequirement(v1.CapacityTypeLabelKey, corev1.NodeSelectorOpIn, uniqSorted(cts)...),
	)
	if s.Family != "" {
		reqs.Add(scheduling.NewRequirement(LabelFamily, corev1.NodeSelectorOpIn, s.Family))
	} else {
		reqs.Add(scheduling.NewRequirement(LabelFamily, corev1.NodeSelectorOpDoesNotExist))
	}
	if s.Gen != "" {
		reqs.Add(scheduling.NewRequirement(LabelGen, corev1.NodeSelectorOpIn, s.Gen))
	} else {
		reqs.Add(scheduling.NewRequirement(LabelGen, corev1.NodeSelectorOpDoesNotExist))
	}
	return &cloudprovider.InstanceType{
		Name:         s.Name,
		Requirements: reqs,
		Offerings:    ofs,
		Capacity:     RL(s.Capacity),
		Overhead:     &cloudprovider.InstanceTypeOverhead{KubeReserved: RL(s.KubeReserved)},
	}
}

// Allocatable computes what a node launched from (type, offering) reports, independently of Karpenter's code:
// capacity (with the offering's overrides) minus overhead (with the offering's overrides), floored at zero.
func (s ITSpec) Allocatable(o OfferingSpec) corev1.ResourceList {
	capacity := map[string]resource.Quantity{}
	for k, v := range s.Capacity {
		capacity[k] = resource.MustParse(v)
	}
	for k, v := range o.CapacityOverride {
		capacity[k] = resource.MustParse(v)
	}
	overhead := map[string]resource.Quantity{}
	for k, v := range s.KubeReserved {
		overhead[k] = resource.MustParse(v)
	}
	for k, v := range o.OverheadOverride {
		overhead[k] = resource.MustParse(v)
	}
	out := corev1.ResourceList{}
	for k, c := range capacity {
		q := c.DeepCopy()
		if ov, ok := overhead[k]; ok {
			q.Sub(ov)
		}
		out[corev1.ResourceName(k)] = q
	}
	return out
}

// CapacityOf is the capacity a node launched from (type, offering) reports.
func (s ITSpec) CapacityOf(o OfferingSpec) corev1.ResourceList {
	out := corev1.ResourceList{}
	for k, v := range s.Capacity {
		out[corev1.ResourceName(k)] = resource.MustParse(v)
	}
	for k, v := range o.CapacityOverride {
		out[corev1.ResourceName(k)] = resource.MustParse(v)
	}
	return out
}

func (s ITSpec) String() string {
	return fmt.Sprintf("%s(%s %v cap=%v ofs=%d)", s.Name, s.Arch, s.OS, s.Capacity, len(s.Offerings))
}
