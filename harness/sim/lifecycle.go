package sim

import (
	"context"
	"fmt"
	"time"

	corev1 "k8s.io/api/core/v1"
	metav1 "k8s.io/apimachinery/pkg/apis/meta/v1"
	"k8s.io/apimachinery/pkg/types"
	"sigs.k8s.io/controller-runtime/pkg/client"
	"sigs.k8s.io/controller-runtime/pkg/reconcile"

	v1 "sigs.k8s.io/karpenter/pkg/apis/v1"
	"sigs.k8s.io/karpenter/pkg/cloudprovider"
	"sigs.k8s.io/karpenter/pkg/controllers/nodeclaim/lifecycle"
	"sigs.k8s.io/karpenter/pkg/state/nodepoolhealth"
)

// NewLifecycle builds the real NodeClaim lifecycle controller on this world.
func (w *World) NewLifecycle(np *nodepoolhealth.State, hooks ...cloudprovider.NodeLifecycleHook) *lifecycle.Controller {
	if np == nil {
		np = nodepoolhealth.NewState()
	}
	return lifecycle.NewController(w.Clock, w.Client, w.Provider, w.Recorder, np, hooks)
}

// ReconcileNodeClaim fetches the NodeClaim through the (logged, faultable) client - as the controller framework's cache
// read would - and runs one lifecycle reconcile, stepping the fake clock while the controller sleeps on it.
func (w *World) ReconcileNodeClaim(lc *lifecycle.Controller, name string) (res reconcile.Result, err error, found bool) {
	nc := &v1.NodeClaim{}
	var gerr error
	w.Quiet(func() { gerr = w.Client.Get(w.Ctx, types.NamespacedName{Name: name}, nc) })
	if gerr != nil {
		return reconcile.Result{}, nil, false
	}
	return w.ReconcileNodeClaimObject(lc, nc)
}

// ReconcileNodeClaimObject reconciles a given (possibly stale) copy of the NodeClaim.
func (w *World) ReconcileNodeClaimObject(lc *lifecycle.Controller, nc *v1.NodeClaim) (res reconcile.Result, err error, found bool) {
	w.RunBlocking(func() { res, err = lc.Reconcile(w.Ctx, nc) }, time.Second, nil)
	return res, err, true
}

// JoinOpts describe how the kubelet registers the node of a launched NodeClaim.
type JoinOpts struct {
	Name string
	// WithoutUnregisteredTaint: the node registers without karpenter.sh/unregistered (misconfigured bootstrap)
	WithoutUnregisteredTaint bool
	Ready                    bool
	// ZeroResources: resources the kubelet has not reported yet (zero-valued in status)
	ZeroResources []string
	// AbsentResources: resources missing altogether from the node status (device plugin not registered yet, or - with
	// "*" - the kubelet has not posted any status)
	AbsentResources []string
	ExtraTaints     []corev1.Taint
	// StartupTaintStyle: "" (as in the template), "value", "timeAdded" (see StyledStartupTaints)
	StartupTaintStyle string
}

// JoinNode emulates the kubelet registering the Node of a launched NodeClaim: provider labels, the taints passed on
// the kubelet command line (template taints, startup taints, the unregistered taint) and the not-ready taint.
// StyledStartupTaints returns the startup taints as the node's agent / kubelet may have written them: a taint is
// identified by key and effect, so the value ("value") or the timeAdded stamp ("timeAdded") may differ from the template.
func StyledStartupTaints(in []corev1.Taint, style string, now time.Time) []corev1.Taint {
	out := make([]corev1.Taint, 0, len(in))
	for _, t := range in {
		switch style {
		case "value":
			if t.Value == "" {
				t.Value = "true"
			} else {
				t.Value = ""
			}
		case "timeAdded":
			ts := metav1.NewTime(now)
			t.TimeAdded = &ts
		}
		out = append(out, t)
	}
	return out
}

func (w *World) JoinNode(nc *v1.NodeClaim, o JoinOpts) *corev1.Node {
	inst := w.Provider.Instances[nc.Status.ProviderID]
	if inst == nil {
		panic("sim.JoinNode: NodeClaim " + nc.Name + " has no instance")
	}
	name := o.Name
	if name == "" {
		name = "node-" + nc.Name
	}
	labels := NodeLabels(inst.Option)
	labels[corev1.LabelHostname] = name
	labels[v1.NodePoolLabelKey] = nc.Labels[v1.NodePoolLabelKey]
	taints := append([]corev1.Taint{}, nc.Spec.Taints...)
	taints = append(taints, StyledStartupTaints(nc.Spec.StartupTaints, o.StartupTaintStyle, w.Clock.Now())...)
	if !o.WithoutUnregisteredTaint {
		taints = append(taints, v1.UnregisteredNoExecuteTaint)
	}
	taints = append(taints, o.ExtraTaints...)
	if !o.Ready {
		taints = append(taints, corev1.Taint{Key: corev1.TaintNodeNotReady, Effect: corev1.TaintEffectNoSchedule})
	}
	capacity, alloc := inst.Option.Type.CapacityOf(inst.Option.Offering), inst.Option.Type.Allocatable(inst.Option.Offering)
	for _, r := range o.ZeroResources {
		if q, ok := capacity[corev1.ResourceName(r)]; ok {
			q.Set(0)
			capacity[corev1.ResourceName(r)] = q
			a := alloc[corev1.ResourceName(r)]
			a.Set(0)
			alloc[corev1.ResourceName(r)] = a
		}
	}
	for _, r := range o.AbsentResources {
		if r == "*" {
			capacity, alloc = corev1.ResourceList{}, corev1.ResourceList{}
			break
		}
		delete(capacity, corev1.ResourceName(r))
		delete(alloc, corev1.ResourceName(r))
	}
	now := metav1.NewTime(w.Clock.Now())
	node := &corev1.Node{
		ObjectMeta: metav1.ObjectMeta{Name: name, Labels: labels},
		Spec:       corev1.NodeSpec{ProviderID: nc.Status.ProviderID, Taints: taints},
		Status:     corev1.NodeStatus{Capacity: capacity, Allocatable: alloc, Conditions: []corev1.NodeCondition{readyCondition(o.Ready, now)}},
	}
	w.Apply(node)
	return node
}

// UpdateNode applies a mutation to a node (kubelet / other controllers), bypassing logging.
func (w *World) UpdateNode(name string, mutate func(*corev1.Node)) *corev1.Node {
	node := &corev1.Node{}
	w.Quiet(func() {
		if err := w.Client.Get(w.Ctx, types.NamespacedName{Name: name}, node); err != nil {
			node = nil
			return
		}
	})
	if node == nil {
		return nil
	}
	mutate(node)
	w.Apply(node)
	return node
}

// MakeNodeReady flips Ready, drops the not-ready taint, startup taints and reports all resources (kubelet + daemons done).
func (w *World) MakeNodeReady(name string, nc *v1.NodeClaim) *corev1.Node {
	return w.UpdateNode(name, func(n *corev1.Node) {
		now := metav1.NewTime(w.Clock.Now())
		n.Status.Conditions = []corev1.NodeCondition{readyCondition(true, now)}
		var kept []corev1.Taint
		for _, t := range n.Spec.Taints {
			startup := false
			for _, st := range nc.Spec.StartupTaints {
				startup = startup || st.MatchTaint(&t)
			}
			if startup || t.Key == corev1.TaintNodeNotReady {
				continue
			}
			kept = append(kept, t)
		}
		n.Spec.Taints = kept
		if inst := w.Provider.Instances[nc.Status.ProviderID]; inst != nil {
			n.Status.Capacity = inst.Option.Type.CapacityOf(inst.Option.Offering)
			n.Status.Allocatable = inst.Option.Type.Allocatable(inst.Option.Offering)
		}
	})
}

// GetNodeClaim reads a NodeClaim bypassing logging.
func (w *World) GetNodeClaim(name string) *v1.NodeClaim {
	nc := &v1.NodeClaim{}
	var err error
	w.Quiet(func() { err = w.Client.Get(w.Ctx, types.NamespacedName{Name: name}, nc) })
	if err != nil {
		return nil
	}
	return nc
}

// ListNodeClaims lists NodeClaims bypassing logging.
func (w *World) ListNodeClaims() []v1.NodeClaim {
	var l v1.NodeClaimList
	w.Quiet(func() { _ = w.Client.List(w.Ctx, &l) })
	return l.Items
}

func (w *World) ListNodes() []corev1.Node {
	var l corev1.NodeList
	w.Quiet(func() { _ = w.Client.List(w.Ctx, &l) })
	return l.Items
}

func (w *World) ListPods() []corev1.Pod {
	var l corev1.PodList
	w.Quiet(func() { _ = w.Client.List(w.Ctx, &l) })
	return l.Items
}

// BindPod emulates kube-scheduler binding a pending pod.
func (w *World) BindPod(key client.ObjectKey, node string) {
	p := &corev1.Pod{}
	w.Quiet(func() {
		if err := w.Client.Get(w.Ctx, key, p); err != nil {
			p = nil
		}
	})
	if p == nil {
		return
	}
	Bound(p, node)
	w.Apply(p)
}

var _ = context.Background
var _ = fmt.Sprint
