package sim

import (
	"fmt"
	"time"

	appsv1 "k8s.io/api/apps/v1"
	corev1 "k8s.io/api/core/v1"
	"k8s.io/apimachinery/pkg/api/resource"
	metav1 "k8s.io/apimachinery/pkg/apis/meta/v1"
	"k8s.io/apimachinery/pkg/types"
	"sigs.k8s.io/controller-runtime/pkg/client"

	v1 "sigs.k8s.io/karpenter/pkg/apis/v1"
	testv1alpha1 "sigs.k8s.io/karpenter/pkg/test/v1alpha1"
)

const NodeClassName = "default"

func NodeClassRef() *v1.NodeClassReference {
	return &v1.NodeClassReference{Group: testv1alpha1.Group, Kind: "TestNodeClass", Name: NodeClassName}
}

// ApplyNodeClass creates the (ready) node class every pool refers to.
func (w *World) ApplyNodeClass() *testv1alpha1.TestNodeClass {
	nc := &testv1alpha1.TestNodeClass{ObjectMeta: metav1.ObjectMeta{Name: NodeClassName}}
	nc.StatusConditions().SetTrue("Ready")
	w.Apply(nc)
	return nc
}

// ApplyPool stores a NodePool and marks it Ready (validation succeeded, node class ready).
func (w *World) ApplyPool(np *v1.NodePool) *v1.NodePool {
	np = np.DeepCopy()
	if np.Spec.Template.Spec.NodeClassRef == nil {
		np.Spec.Template.Spec.NodeClassRef = NodeClassRef()
	}
	np.StatusConditions().SetTrue(v1.ConditionTypeValidationSucceeded)
	np.StatusConditions().SetTrue(v1.ConditionTypeNodeClassReady)
	w.Apply(np)
	return np
}

// NodeStage is how far a managed node got in its lifecycle.
const (
	StageUnlaunched   = "unlaunched"   // NodeClaim without provider id
	StageLaunched     = "launched"     // NodeClaim with provider id, no Node yet
	StageUnregistered = "unregistered" // Node present, unregistered taint, no registered label
	StageRegistered   = "registered"   // registered label, not initialized
	StageInitialized  = "initialized"
)

// NodeSpec describes an existing node (managed: NodeClaim + Node according to Stage; unmanaged: Node only).
type NodeSpec struct {
	Name     string `json:"name"`
	Pool     string `json:"pool,omitempty"` // "" = unmanaged
	TypeName string `json:"type,omitempty"`
	Zone     string `json:"zone,omitempty"`
	CT       string `json:"ct,omitempty"`
	OS       string `json:"os,omitempty"`
	Stage    string `json:"stage,omitempty"`

	ClaimDeleting bool `json:"claimDeleting,omitempty"`
	NodeDeleting  bool `json:"nodeDeleting,omitempty"`
	Marked        bool `json:"marked,omitempty"` // cluster.MarkForDeletion
	NotReady      bool `json:"notReady,omitempty"`
	Cordoned      bool `json:"cordoned,omitempty"`
	// StartupTaintsLeft: the pool's startup taints are still on the node (only meaningful before initialization)
	StartupTaintsLeft bool `json:"startupTaintsLeft,omitempty"`
	// StartupTaintStyle: how the startup taints were written on the node ("" = as in the template, value, timeAdded)
	StartupTaintStyle string `json:"startupTaintStyle,omitempty"`
	// ZeroStatus: the kubelet has not populated extended / some resources yet (reports zero)
	ZeroStatus  []string          `json:"zeroStatus,omitempty"`
	ExtraLabels map[string]string `json:"extraLabels,omitempty"`
	ExtraTaints []corev1.Taint    `json:"extraTaints,omitempty"`
	// Unmanaged nodes only
	Allocatable map[string]string `json:"allocatable,omitempty"`
	Labels      map[string]string `json:"labels,omitempty"`
	// AgeSeconds: how long ago the NodeClaim/Node were created
	AgeSeconds int `json:"ageSeconds,omitempty"`
}

// BuiltNode is what MakeNode produced.
type BuiltNode struct {
	Spec      NodeSpec
	Node      *corev1.Node
	NodeClaim *v1.NodeClaim
	Option    *LaunchOption
}

func (w *World) findOption(pool *v1.NodePool, s NodeSpec) (LaunchOption, bool) {
	for _, it := range w.Provider.catalog(pool.Name) {
		if it.Name != s.TypeName {
			continue
		}
		for _, of := range it.Offerings {
			if of.Zone == s.Zone && of.CapacityType == s.CT {
				os := s.OS
				if os == "" {
					os = it.OS[0]
				}
				return LaunchOption{Type: it, Offering: of, OS: os}, true
			}
		}
	}
	return LaunchOption{}, false
}

// ApplyNode materialises a NodeSpec. pool may be nil for unmanaged nodes.
func (w *World) ApplyNode(s NodeSpec, pool *v1.NodePool) *BuiltNode {
	created := metav1.NewTime(w.Clock.Now().Add(-time.Duration(s.AgeSeconds) * time.Second))
	out := &BuiltNode{Spec: s}
	if s.Pool == "" {
		// unmanaged node
		alloc := RL(s.Allocatable)
		labels := map[string]string{corev1.LabelHostname: s.Name}
		for k, v := range s.Labels {
			labels[k] = v
		}
		node := &corev1.Node{
			ObjectMeta: metav1.ObjectMeta{Name: s.Name, Labels: labels, CreationTimestamp: created},
			Spec:       corev1.NodeSpec{ProviderID: "unmanaged://" + s.Name, Taints: append([]corev1.Taint{}, s.ExtraTaints...), Unschedulable: s.Cordoned},
			Status:     corev1.NodeStatus{Capacity: alloc, Allocatable: alloc, Conditions: []corev1.NodeCondition{readyCondition(!s.NotReady, created)}},
		}
		w.decorateNode(node, s, created)
		w.Apply(node)
		out.Node = node
		return out
	}
	opt, ok := w.findOption(pool, s)
	if !ok {
		panic(fmt.Sprintf("sim.ApplyNode: no offering %s/%s/%s in pool %s", s.TypeName, s.Zone, s.CT, s.Pool))
	}
	out.Option = &opt
	tmpl := pool.Spec.Template
	nc := &v1.NodeClaim{
		ObjectMeta: metav1.ObjectMeta{
			Name:              s.Name + "-claim",
			CreationTimestamp: created,
			Labels:            map[string]string{},
			Annotations:       map[string]string{v1.NodePoolHashAnnotationKey: pool.Hash(), v1.NodePoolHashVersionAnnotationKey: v1.NodePoolHashVersion},
			Finalizers:        []string{v1.TerminationFinalizer},
			OwnerReferences:   []metav1.OwnerReference{{APIVersion: "karpenter.sh/v1", Kind: "NodePool", Name: pool.Name, UID: pool.UID, BlockOwnerDeletion: ptr(true)}},
		},
		Spec: v1.NodeClaimSpec{
			Taints:                 tmpl.Spec.Taints,
			StartupTaints:          tmpl.Spec.StartupTaints,
			NodeClassRef:           tmpl.Spec.NodeClassRef,
			TerminationGracePeriod: tmpl.Spec.TerminationGracePeriod,
			ExpireAfter:            tmpl.Spec.ExpireAfter,
			Requirements: append(append([]v1.NodeSelectorRequirementWithMinValues{}, tmpl.Spec.Requirements...),
				v1.NodeSelectorRequirementWithMinValues{Key: corev1.LabelInstanceTypeStable, Operator: corev1.NodeSelectorOpIn, Values: []string{opt.Type.Name}}),
		},
	}
	for k, v := range tmpl.Labels {
		nc.Labels[k] = v
	}
	for k, v := range s.ExtraLabels {
		nc.Labels[k] = v
	}
	nc.Labels[v1.NodePoolLabelKey] = pool.Name
	nc.Labels[v1.NodeClassLabelKey(tmpl.Spec.NodeClassRef.GroupKind())] = tmpl.Spec.NodeClassRef.Name
	providerID := "sim://" + opt.Offering.Zone + "/" + s.Name
	if s.Stage != StageUnlaunched {
		hydrated := w.Provider.Hydrate(nc, opt, providerID)
		nc.Labels = hydrated.Labels
		nc.Status = hydrated.Status
		nc.StatusConditions().SetTrue(v1.ConditionTypeLaunched)
	} else {
		nc.StatusConditions().SetUnknown(v1.ConditionTypeLaunched)
	}
	switch s.Stage {
	case StageRegistered:
		nc.StatusConditions().SetTrue(v1.ConditionTypeRegistered)
		nc.Status.NodeName = s.Name
	case StageInitialized:
		nc.StatusConditions().SetTrue(v1.ConditionTypeRegistered)
		nc.StatusConditions().SetTrue(v1.ConditionTypeInitialized)
		nc.Status.NodeName = s.Name
	}
	fixConditionTimes(nc, created)
	w.Apply(nc)
	if s.Stage != StageUnlaunched {
		w.Provider.Adopt(nc, opt)
	}
	out.NodeClaim = nc

	if s.Stage == StageUnregistered || s.Stage == StageRegistered || s.Stage == StageInitialized {
		labels := map[string]string{corev1.LabelHostname: s.Name}
		for k, v := range NodeLabels(opt) {
			labels[k] = v
		}
		taints := []corev1.Taint{}
		if s.Stage == StageUnregistered {
			// kubelet registered with the labels it knows itself and the unregistered taint
			taints = append(taints, v1.UnregisteredNoExecuteTaint)
			labels[v1.NodePoolLabelKey] = pool.Name
		} else {
			for k, v := range nc.Labels {
				labels[k] = v
			}
			labels[v1.NodeRegisteredLabelKey] = "true"
			taints = append(taints, nc.Spec.Taints...)
		}
		if s.Stage == StageInitialized {
			labels[v1.NodeInitializedLabelKey] = "true"
		} else if s.StartupTaintsLeft || s.Stage == StageUnregistered {
			taints = append(taints, StyledStartupTaints(nc.Spec.StartupTaints, s.StartupTaintStyle, w.Clock.Now())...)
		}
		taints = append(taints, s.ExtraTaints...)
		capacity, alloc := opt.Type.CapacityOf(opt.Offering), opt.Type.Allocatable(opt.Offering)
		if s.Stage != StageInitialized {
			for _, r := range s.ZeroStatus {
				if _, ok := capacity[corev1.ResourceName(r)]; ok {
					capacity[corev1.ResourceName(r)] = resource.MustParse("0")
					alloc[corev1.ResourceName(r)] = resource.MustParse("0")
				}
			}
		}
		node := &corev1.Node{
			ObjectMeta: metav1.ObjectMeta{Name: s.Name, Labels: labels, CreationTimestamp: created, Finalizers: []string{v1.TerminationFinalizer},
				OwnerReferences: []metav1.OwnerReference{{APIVersion: "karpenter.sh/v1", Kind: "NodeClaim", Name: nc.Name, UID: nc.UID, BlockOwnerDeletion: ptr(true)}}},
			Spec:   corev1.NodeSpec{ProviderID: providerID, Taints: taints, Unschedulable: s.Cordoned},
			Status: corev1.NodeStatus{Capacity: capacity, Allocatable: alloc, Conditions: []corev1.NodeCondition{readyCondition(!s.NotReady, created)}},
		}
		w.decorateNode(node, s, created)
		w.Apply(node)
		out.Node = node
	}
	if s.ClaimDeleting {
		w.Delete(nc)
		w.Quiet(func() { _ = w.Client.Get(w.Ctx, client.ObjectKeyFromObject(nc), nc) })
	}
	if s.NodeDeleting && out.Node != nil {
		w.Delete(out.Node)
		w.Quiet(func() { _ = w.Client.Get(w.Ctx, client.ObjectKeyFromObject(out.Node), out.Node) })
	}
	return out
}

// decorateNode keeps the world consistent with what a real control plane does: a cordoned node carries the
// unschedulable taint, a NotReady node the not-ready taints.
func (w *World) decorateNode(node *corev1.Node, s NodeSpec, since metav1.Time) {
	if s.Cordoned {
		node.Spec.Taints = append(node.Spec.Taints, corev1.Taint{Key: corev1.TaintNodeUnschedulable, Effect: corev1.TaintEffectNoSchedule})
	}
	if s.NotReady {
		node.Spec.Taints = append(node.Spec.Taints,
			corev1.Taint{Key: corev1.TaintNodeNotReady, Effect: corev1.TaintEffectNoSchedule},
			corev1.Taint{Key: corev1.TaintNodeNotReady, Effect: corev1.TaintEffectNoExecute})
	}
}

func readyCondition(ready bool, since metav1.Time) corev1.NodeCondition {
	st := corev1.ConditionTrue
	if !ready {
		st = corev1.ConditionFalse
	}
	return corev1.NodeCondition{Type: corev1.NodeReady, Status: st, LastTransitionTime: since, LastHeartbeatTime: since}
}

func fixConditionTimes(nc *v1.NodeClaim, t metav1.Time) {
	for i := range nc.Status.Conditions {
		nc.Status.Conditions[i].LastTransitionTime = t
	}
}

func ptr[T any](v T) *T { return &v }

// PodSpecLite is the generator-level description of a pod; Pod() expands it.
type PodOpts struct {
	Name      string
	Namespace string
	Labels    map[string]string
	UID       types.UID
}

// Unschedulable marks a pod as pending with the PodScheduled=False/Unschedulable condition kube-scheduler sets.
func Unschedulable(p *corev1.Pod) *corev1.Pod {
	p.Status.Phase = corev1.PodPending
	p.Status.Conditions = []corev1.PodCondition{{Type: corev1.PodScheduled, Status: corev1.ConditionFalse, Reason: corev1.PodReasonUnschedulable}}
	return p
}

// Bound marks a pod as running on a node.
func Bound(p *corev1.Pod, node string) *corev1.Pod {
	p.Spec.NodeName = node
	p.Status.Phase = corev1.PodRunning
	p.Status.Conditions = []corev1.PodCondition{{Type: corev1.PodScheduled, Status: corev1.ConditionTrue}, {Type: corev1.PodReady, Status: corev1.ConditionTrue}}
	return p
}

// DaemonSetFor wraps a pod template into a DaemonSet.
func DaemonSetFor(name, ns string, tmpl corev1.PodSpec, labels map[string]string) *appsv1.DaemonSet {
	return &appsv1.DaemonSet{
		ObjectMeta: metav1.ObjectMeta{Name: name, Namespace: ns},
		Spec: appsv1.DaemonSetSpec{
			Selector: &metav1.LabelSelector{MatchLabels: labels},
			Template: corev1.PodTemplateSpec{ObjectMeta: metav1.ObjectMeta{Labels: labels}, Spec: tmpl},
		},
	}
}

// DaemonPod is a pod of the DaemonSet running on node.
func DaemonPod(ds *appsv1.DaemonSet, node string) *corev1.Pod {
	p := &corev1.Pod{
		ObjectMeta: metav1.ObjectMeta{Name: ds.Name + "-" + node, Namespace: ds.Namespace, Labels: ds.Spec.Template.Labels,
			OwnerReferences: []metav1.OwnerReference{{APIVersion: "apps/v1", Kind: "DaemonSet", Name: ds.Name, UID: ds.UID, Controller: ptr(true), BlockOwnerDeletion: ptr(true)}}},
		Spec: *ds.Spec.Template.Spec.DeepCopy(),
	}
	// the daemonset controller pins the pod to its node with a required node-affinity term on metadata.name
	return Bound(p, node)
}
