package sim

import (
	"context"
	"fmt"
	"sort"
	"sync"
	"time"

	"github.com/awslabs/operatorpkg/status"
	corev1 "k8s.io/api/core/v1"
	metav1 "k8s.io/apimachinery/pkg/apis/meta/v1"
	"k8s.io/apimachinery/pkg/types"

	v1 "sigs.k8s.io/karpenter/pkg/apis/v1"
	"sigs.k8s.io/karpenter/pkg/cloudprovider"
	"sigs.k8s.io/karpenter/pkg/scheduling"
	testv1alpha1 "sigs.k8s.io/karpenter/pkg/test/v1alpha1"
	"sigs.k8s.io/karpenter/pkg/utils/resources"
)

// LaunchOption is one (instance type, offering) pair a conforming provider may launch for a NodeClaim.
type LaunchOption struct {
	Type     ITSpec
	Offering OfferingSpec
	OS       string
}

// Instance is the provider's ground truth about one launched instance.
type Instance struct {
	ProviderID   string
	NodeClaimUID types.UID
	NodeClaim    *v1.NodeClaim // as returned by Create
	Option       LaunchOption
	Exists       bool
	DeletesLeft  int // Delete calls still needed before the instance is gone
	CreatedAt    time.Time
}

// ProviderCall is one call made to the provider.
type ProviderCall struct {
	Verb string // create delete get list
	UID  types.UID
	Name string
	ID   string
	Err  string
	Time time.Time
}

// Provider is the emulated cloud.
type Provider struct {
	w  *World
	mu sync.Mutex

	Default  []ITSpec
	PerPool  map[string][]ITSpec
	built    map[string][]*cloudprovider.InstanceType
	PoolErrs map[string]error

	// Choose picks which of the permitted launch options is launched (index into the list sorted by price then name).
	// nil = cheapest.
	Choose func(nc *v1.NodeClaim, options []LaunchOption) int
	// CreateScript is consumed one entry per Create call: nil entry = succeed.
	CreateScript []error
	// DeleteCalls needed before an instance is gone (default 1)
	DeletesNeeded int
	NextGetErr    error
	NextListErr   error
	NextDeleteErr error
	// DriftedClaims: per-NodeClaim drift reported by IsDrifted (overrides Drifted)
	DriftedClaims map[string]cloudprovider.DriftReason
	Drifted       cloudprovider.DriftReason
	Repair        []cloudprovider.RepairPolicy
	// Fault hook: called before every provider call; a non-nil return fails the call
	Hook func(verb string, nc *v1.NodeClaim, id string) error
	// Decorate (optional) completes a freshly built instance type (e.g. with DRA device templates)
	Decorate func(it *cloudprovider.InstanceType)

	Instances map[string]*Instance
	Calls     []ProviderCall
	seq       int
}

func NewProvider(w *World) *Provider {
	return &Provider{w: w, PerPool: map[string][]ITSpec{}, built: map[string][]*cloudprovider.InstanceType{}, PoolErrs: map[string]error{}, Instances: map[string]*Instance{}, DeletesNeeded: 1}
}

func (p *Provider) catalog(pool string) []ITSpec {
	if c, ok := p.PerPool[pool]; ok {
		return c
	}
	return p.Default
}

// Invalidate drops the cached instance type objects (e.g. after the harness changed the catalog).
func (p *Provider) Invalidate() {
	p.mu.Lock()
	p.built = map[string][]*cloudprovider.InstanceType{}
	p.mu.Unlock()
}

func (p *Provider) GetInstanceTypes(_ context.Context, np *v1.NodePool) ([]*cloudprovider.InstanceType, error) {
	p.mu.Lock()
	defer p.mu.Unlock()
	name := ""
	if np != nil {
		name = np.Name
	}
	if err, ok := p.PoolErrs[name]; ok {
		return nil, err
	}
	key := name
	if _, ok := p.PerPool[name]; !ok {
		key = "\x00default"
	}
	if its, ok := p.built[key]; ok {
		return its, nil
	}
	var its []*cloudprovider.InstanceType
	for _, s := range p.catalog(name) {
		it := s.Build()
		if p.Decorate != nil {
			p.Decorate(it)
		}
		its = append(its, it)
	}
	p.built[key] = its
	return its, nil
}

// Permitted lists every (type, offering, os) a conforming provider may launch for the NodeClaim: the type is listed by the
// instance-type requirement and compatible with all requirements, the offering is available and compatible, the
// requested resources fit the allocatable of that offering.
func (p *Provider) Permitted(nc *v1.NodeClaim) []LaunchOption {
	reqs := scheduling.NewNodeSelectorRequirementsWithMinValues(nc.Spec.Requirements...)
	var out []LaunchOption
	for _, it := range p.catalog(nc.Labels[v1.NodePoolLabelKey]) {
		if !reqs.Get(corev1.LabelInstanceTypeStable).Has(it.Name) {
			continue
		}
		built := it.Build()
		if !reqs.IsCompatible(built.Requirements, scheduling.AllowUndefinedWellKnownLabels) {
			continue
		}
		for _, of := range it.Offerings {
			if !of.Available || !reqs.IsCompatible(of.Requirements(), scheduling.AllowUndefinedWellKnownLabels) {
				continue
			}
			if !resources.Fits(nc.Spec.Resources.Requests, it.Allocatable(of)) {
				continue
			}
			for _, os := range it.OS {
				if reqs.Get(corev1.LabelOSStable).Has(os) {
					out = append(out, LaunchOption{Type: it, Offering: of, OS: os})
				}
			}
		}
	}
	sort.SliceStable(out, func(i, j int) bool {
		if out[i].Offering.Price != out[j].Offering.Price {
			return out[i].Offering.Price < out[j].Offering.Price
		}
		if out[i].Type.Name != out[j].Type.Name {
			return out[i].Type.Name < out[j].Type.Name
		}
		if out[i].Offering.Zone != out[j].Offering.Zone {
			return out[i].Offering.Zone < out[j].Offering.Zone
		}
		if out[i].Offering.CapacityType != out[j].Offering.CapacityType {
			return out[i].Offering.CapacityType < out[j].Offering.CapacityType
		}
		return out[i].OS < out[j].OS
	})
	return out
}

func (p *Provider) log(c ProviderCall) {
	c.Time = p.w.Clock.Now()
	p.Calls = append(p.Calls, c)
}

func (p *Provider) Create(_ context.Context, nc *v1.NodeClaim) (*v1.NodeClaim, error) {
	p.mu.Lock()
	defer p.mu.Unlock()
	if p.Hook != nil {
		if err := p.Hook("create", nc, ""); err != nil {
			p.log(ProviderCall{Verb: "create", UID: nc.UID, Name: nc.Name, Err: err.Error()})
			return nil, err
		}
	}
	if len(p.CreateScript) > 0 {
		err := p.CreateScript[0]
		p.CreateScript = p.CreateScript[1:]
		if err != nil {
			p.log(ProviderCall{Verb: "create", UID: nc.UID, Name: nc.Name, Err: err.Error()})
			return nil, err
		}
	}
	opts := p.Permitted(nc)
	if len(opts) == 0 {
		err := cloudprovider.NewInsufficientCapacityError(fmt.Errorf("no permitted (instance type, offering) for nodeclaim %s", nc.Name))
		p.log(ProviderCall{Verb: "create", UID: nc.UID, Name: nc.Name, Err: err.Error()})
		return nil, err
	}
	idx := 0
	if p.Choose != nil {
		idx = p.Choose(nc, opts)
		if idx < 0 || idx >= len(opts) {
			idx = ((idx % len(opts)) + len(opts)) % len(opts)
		}
	}
	opt := opts[idx]
	p.seq++
	id := fmt.Sprintf("sim://%s/i-%05d", opt.Offering.Zone, p.seq)
	created := p.Hydrate(nc, opt, id)
	p.Instances[id] = &Instance{ProviderID: id, NodeClaimUID: nc.UID, NodeClaim: created.DeepCopy(), Option: opt, Exists: true, DeletesLeft: p.DeletesNeeded, CreatedAt: p.w.Clock.Now()}
	p.log(ProviderCall{Verb: "create", UID: nc.UID, Name: nc.Name, ID: id})
	return created, nil
}

// NodeLabels are the labels a node launched from the option carries (besides what the NodeClaim already has).
func NodeLabels(opt LaunchOption) map[string]string {
	labels := map[string]string{
		corev1.LabelInstanceTypeStable: opt.Type.Name,
		corev1.LabelArchStable:         opt.Type.Arch,
		corev1.LabelOSStable:           opt.OS,
		corev1.LabelTopologyZone:       opt.Offering.Zone,
		v1.CapacityTypeLabelKey:        opt.Offering.CapacityType,
	}
	if opt.Type.Family != "" {
		labels[LabelFamily] = opt.Type.Family
	}
	if opt.Type.Gen != "" {
		labels[LabelGen] = opt.Type.Gen
	}
	if opt.Offering.CapacityType == v1.CapacityTypeReserved {
		labels[cloudprovider.ReservationIDLabel] = opt.Offering.ReservationID
	}
	return labels
}

// Hydrate builds the NodeClaim a provider returns from Create for the chosen option.
func (p *Provider) Hydrate(nc *v1.NodeClaim, opt LaunchOption, id string) *v1.NodeClaim {
	labels := NodeLabels(opt)
	for k, v := range nc.Labels {
		labels[k] = v
	}
	nonZero := func(rl corev1.ResourceList) corev1.ResourceList {
		out := corev1.ResourceList{}
		for k, v := range rl {
			if !v.IsZero() {
				out[k] = v
			}
		}
		return out
	}
	return &v1.NodeClaim{
		ObjectMeta: metav1.ObjectMeta{Name: nc.Name, Labels: labels, Annotations: nc.Annotations},
		Spec:       *nc.Spec.DeepCopy(),
		Status: v1.NodeClaimStatus{
			ProviderID:  id,
			Capacity:    nonZero(opt.Type.CapacityOf(opt.Offering)),
			Allocatable: nonZero(opt.Type.Allocatable(opt.Offering)),
		},
	}
}

// Adopt registers an instance for a NodeClaim the harness placed in the world directly (already launched).
func (p *Provider) Adopt(nc *v1.NodeClaim, opt LaunchOption) {
	p.mu.Lock()
	defer p.mu.Unlock()
	p.Instances[nc.Status.ProviderID] = &Instance{ProviderID: nc.Status.ProviderID, NodeClaimUID: nc.UID, NodeClaim: nc.DeepCopy(), Option: opt, Exists: true, DeletesLeft: p.DeletesNeeded, CreatedAt: p.w.Clock.Now()}
}

func (p *Provider) Delete(_ context.Context, nc *v1.NodeClaim) error {
	p.mu.Lock()
	defer p.mu.Unlock()
	id := nc.Status.ProviderID
	if p.Hook != nil {
		if err := p.Hook("delete", nc, id); err != nil {
			p.log(ProviderCall{Verb: "delete", UID: nc.UID, Name: nc.Name, ID: id, Err: err.Error()})
			return err
		}
	}
	if err := p.NextDeleteErr; err != nil {
		p.NextDeleteErr = nil
		p.log(ProviderCall{Verb: "delete", UID: nc.UID, Name: nc.Name, ID: id, Err: err.Error()})
		return err
	}
	inst, ok := p.Instances[id]
	if !ok || !inst.Exists {
		err := cloudprovider.NewNodeClaimNotFoundError(fmt.Errorf("no instance with provider id %q", id))
		p.log(ProviderCall{Verb: "delete", UID: nc.UID, Name: nc.Name, ID: id, Err: "notfound"})
		return err
	}
	inst.DeletesLeft--
	if inst.DeletesLeft <= 0 {
		inst.Exists = false
	}
	p.log(ProviderCall{Verb: "delete", UID: nc.UID, Name: nc.Name, ID: id})
	return nil
}

func (p *Provider) Get(_ context.Context, id string) (*v1.NodeClaim, error) {
	p.mu.Lock()
	defer p.mu.Unlock()
	if p.Hook != nil {
		if err := p.Hook("get", nil, id); err != nil {
			p.log(ProviderCall{Verb: "get", ID: id, Err: err.Error()})
			return nil, err
		}
	}
	if err := p.NextGetErr; err != nil {
		p.NextGetErr = nil
		p.log(ProviderCall{Verb: "get", ID: id, Err: err.Error()})
		return nil, err
	}
	p.log(ProviderCall{Verb: "get", ID: id})
	if inst, ok := p.Instances[id]; ok && inst.Exists {
		return inst.NodeClaim.DeepCopy(), nil
	}
	return nil, cloudprovider.NewNodeClaimNotFoundError(fmt.Errorf("no instance with provider id %q", id))
}

func (p *Provider) List(_ context.Context) ([]*v1.NodeClaim, error) {
	p.mu.Lock()
	defer p.mu.Unlock()
	if p.Hook != nil {
		if err := p.Hook("list", nil, ""); err != nil {
			p.log(ProviderCall{Verb: "list", Err: err.Error()})
			return nil, err
		}
	}
	if err := p.NextListErr; err != nil {
		p.NextListErr = nil
		p.log(ProviderCall{Verb: "list", Err: err.Error()})
		return nil, err
	}
	p.log(ProviderCall{Verb: "list"})
	ids := make([]string, 0, len(p.Instances))
	for id := range p.Instances {
		ids = append(ids, id)
	}
	sort.Strings(ids)
	var out []*v1.NodeClaim
	for _, id := range ids {
		if p.Instances[id].Exists {
			out = append(out, p.Instances[id].NodeClaim.DeepCopy())
		}
	}
	return out, nil
}

// InstanceExists is ground truth for leak checks.
func (p *Provider) InstanceExists(id string) bool {
	p.mu.Lock()
	defer p.mu.Unlock()
	inst, ok := p.Instances[id]
	return ok && inst.Exists
}

// InstancesFor returns every instance ever created for a NodeClaim UID.
func (p *Provider) InstancesFor(uid types.UID) []*Instance {
	p.mu.Lock()
	defer p.mu.Unlock()
	var out []*Instance
	for _, i := range p.Instances {
		if i.NodeClaimUID == uid {
			out = append(out, i)
		}
	}
	sort.Slice(out, func(a, b int) bool { return out[a].ProviderID < out[b].ProviderID })
	return out
}

func (p *Provider) CallsSnapshot() []ProviderCall {
	p.mu.Lock()
	defer p.mu.Unlock()
	return append([]ProviderCall(nil), p.Calls...)
}

func (p *Provider) IsDrifted(_ context.Context, nc *v1.NodeClaim) (cloudprovider.DriftReason, error) {
	p.mu.Lock()
	defer p.mu.Unlock()
	if r, ok := p.DriftedClaims[nc.Name]; ok {
		return r, nil
	}
	return p.Drifted, nil
}

// SetDrifted makes the provider report drift for one NodeClaim ("" clears it).
func (p *Provider) SetDrifted(name string, reason cloudprovider.DriftReason) {
	p.mu.Lock()
	defer p.mu.Unlock()
	if p.DriftedClaims == nil {
		p.DriftedClaims = map[string]cloudprovider.DriftReason{}
	}
	if reason == "" {
		delete(p.DriftedClaims, name)
		return
	}
	p.DriftedClaims[name] = reason
}
func (p *Provider) RepairPolicies() []cloudprovider.RepairPolicy { return p.Repair }
func (p *Provider) Name() string                                 { return "sim" }
func (p *Provider) GetSupportedNodeClasses() []status.Object {
	return []status.Object{&testv1alpha1.TestNodeClass{}}
}

var _ cloudprovider.CloudProvider = (*Provider)(nil)
