// Package sim is the emulated world the real Karpenter controllers run in: an in-memory API server (controller-runtime's
// fake client behind a deterministic object tracker and an interceptor layer for call logging / fault injection /
// monitors), a fake clock, a scriptable cloud provider and helpers that step the real controllers.
package sim

import (
	"context"
	"fmt"
	"sort"
	"sync"
	"time"

	"github.com/awslabs/operatorpkg/object"
	appsv1 "k8s.io/api/apps/v1"
	corev1 "k8s.io/api/core/v1"
	policyv1 "k8s.io/api/policy/v1"
	storagev1 "k8s.io/api/storage/v1"
	apierrors "k8s.io/apimachinery/pkg/api/errors"
	"k8s.io/apimachinery/pkg/api/meta"
	metav1 "k8s.io/apimachinery/pkg/apis/meta/v1"
	"k8s.io/apimachinery/pkg/runtime"
	"k8s.io/apimachinery/pkg/runtime/schema"
	"k8s.io/apimachinery/pkg/types"
	"k8s.io/client-go/kubernetes/scheme"
	clienttesting "k8s.io/client-go/testing"
	clocktesting "k8s.io/utils/clock/testing"
	"sigs.k8s.io/controller-runtime/pkg/client"
	"sigs.k8s.io/controller-runtime/pkg/client/fake"
	"sigs.k8s.io/controller-runtime/pkg/client/interceptor"
	"sigs.k8s.io/controller-runtime/pkg/log"
	"sigs.k8s.io/controller-runtime/pkg/reconcile"

	v1 "sigs.k8s.io/karpenter/pkg/apis/v1"
	"sigs.k8s.io/karpenter/pkg/controllers/state"
	"sigs.k8s.io/karpenter/pkg/controllers/state/informer"
	"sigs.k8s.io/karpenter/pkg/events"
	"sigs.k8s.io/karpenter/pkg/operator/options"
	"sigs.k8s.io/karpenter/pkg/state/cost"
	testv1alpha1 "sigs.k8s.io/karpenter/pkg/test/v1alpha1"
)

var Epoch = time.Date(2030, 1, 7, 12, 0, 0, 0, time.UTC)

// Call is one API call seen by the interceptor layer.
type Call struct {
	Verb        string // get list create update patch delete deleteallof subcreate subupdate subpatch
	Kind        string
	Key         string // namespace/name
	Sub         string
	Time        time.Time
	Err         string
	Obj         client.Object // the object as passed in (deep copy), for writes
	PatchData   string
	GracePeriod *int64
	Index       int
}

func (c Call) IsWrite() bool { return c.Verb != "get" && c.Verb != "list" }

func (c Call) String() string {
	s := fmt.Sprintf("#%d %s %s %s", c.Index, c.Verb, c.Kind, c.Key)
	if c.Sub != "" {
		s += "/" + c.Sub
	}
	if c.Err != "" {
		s += " => " + c.Err
	}
	return s
}

// Fault fails the N-th (1-based, counted over calls matching Match) call with Err.
type Fault struct {
	Match func(*Call) bool
	N     int
	Err   error
	seen  int
	Fired bool
	// Always: fail every matching call (N is ignored, Fired stays false)
	Always bool
}

// Options configures a world.
type Options struct {
	Karpenter *options.Options
	Start     time.Time
}

type World struct {
	Ctx      context.Context
	Clock    *clocktesting.FakeClock
	Client   client.Client
	Provider *Provider
	Cluster  *state.Cluster
	Recorder *Recorder
	Cost     *cost.ClusterCost

	mu       sync.Mutex
	Calls    []Call
	Faults   []*Fault
	Monitors []func(w *World, c *Call) // evaluated before a write is applied
	After    []func(w *World, c *Call) // evaluated after a successful write
	// Evict decides the outcome of an eviction sub-resource create (nil error = evicted)
	Evict func(w *World, pod *corev1.Pod) error
	// PodDeleteHook lets the harness emulate graceful pod deletion
	uidSeq  int
	nameSeq int
	raw     client.WithWatch
	trk     *tracker
	// podGrace: grace period (seconds) of the pod Delete call in flight, consumed by the tracker when it stamps the
	// deletionTimestamp (= now + grace, as the API server does)
	podGrace map[string]int64

	nodeCtrl      *informer.NodeController
	nodeClaimCtrl *informer.NodeClaimController
	podCtrl       *informer.PodController
	dsCtrl        *informer.DaemonSetController
	nodePoolCtrl  *informer.NodePoolController
	// seen: keys delivered by the previous Sync, per kind (so that deletions are delivered too)
	seen map[string]map[types.NamespacedName]bool

	// quiet sections (see quiet)
	quietDepth     int
	parkedFaults   []*Fault
	parkedMonitors []func(w *World, c *Call)
	parkedAfter    []func(w *World, c *Call)
	parkedCalls    int
}

// tracker assigns deterministic UIDs / names and takes creation and deletion timestamps from the fake clock.
type tracker struct {
	clienttesting.ObjectTracker
	w *World
}

func (t *tracker) Create(gvr schema.GroupVersionResource, obj runtime.Object, ns string, opts ...metav1.CreateOptions) error {
	if acc, err := meta.Accessor(obj); err == nil {
		t.w.mu.Lock()
		if acc.GetUID() == "" {
			t.w.uidSeq++
			acc.SetUID(types.UID(fmt.Sprintf("uid-%06d", t.w.uidSeq)))
		}
		t.w.mu.Unlock()
		if ts := acc.GetCreationTimestamp(); ts.IsZero() {
			acc.SetCreationTimestamp(metav1.NewTime(t.w.Clock.Now()))
		}
	}
	return t.ObjectTracker.Create(gvr, obj, ns, opts...)
}

func (t *tracker) fixDeletion(gvr schema.GroupVersionResource, obj runtime.Object, ns string) {
	acc, err := meta.Accessor(obj)
	if err != nil || acc.GetDeletionTimestamp() == nil {
		return
	}
	old, err := t.ObjectTracker.Get(gvr, ns, acc.GetName())
	if err != nil {
		return
	}
	if oldAcc, err := meta.Accessor(old); err == nil {
		if oldAcc.GetDeletionTimestamp() == nil {
			at := t.w.Clock.Now()
			if gvr.Resource == "pods" {
				t.w.mu.Lock()
				if g, ok := t.w.podGrace[ns+"/"+acc.GetName()]; ok {
					at = at.Add(time.Duration(g) * time.Second)
					delete(t.w.podGrace, ns+"/"+acc.GetName())
				}
				t.w.mu.Unlock()
			}
			now := metav1.NewTime(at)
			acc.SetDeletionTimestamp(&now)
		} else {
			acc.SetDeletionTimestamp(oldAcc.GetDeletionTimestamp())
		}
	}
}

func (t *tracker) Update(gvr schema.GroupVersionResource, obj runtime.Object, ns string, opts ...metav1.UpdateOptions) error {
	t.fixDeletion(gvr, obj, ns)
	return t.ObjectTracker.Update(gvr, obj, ns, opts...)
}

func (t *tracker) Patch(gvr schema.GroupVersionResource, obj runtime.Object, ns string, opts ...metav1.PatchOptions) error {
	t.fixDeletion(gvr, obj, ns)
	return t.ObjectTracker.Patch(gvr, obj, ns, opts...)
}

func kindOf(obj runtime.Object) string {
	gvks, _, err := scheme.Scheme.ObjectKinds(obj)
	if err != nil || len(gvks) == 0 {
		return fmt.Sprintf("%T", obj)
	}
	return gvks[0].Kind
}

func keyOf(obj client.Object) string {
	if obj.GetNamespace() == "" {
		return obj.GetName()
	}
	return obj.GetNamespace() + "/" + obj.GetName()
}

// record logs the call, applies the fault plan and runs the monitors. A non-nil return aborts the call.
func (w *World) record(c Call) (*Call, error) {
	w.mu.Lock()
	c.Time = w.Clock.Now()
	c.Index = len(w.Calls)
	var ferr error
	for _, f := range w.Faults {
		if f.Fired || (f.Match != nil && !f.Match(&c)) {
			continue
		}
		f.seen++
		if f.Always {
			ferr = f.Err
			break
		}
		if f.seen == f.N {
			f.Fired = true
			ferr = f.Err
			break
		}
	}
	if ferr != nil {
		c.Err = ferr.Error()
	}
	w.Calls = append(w.Calls, c)
	idx := len(w.Calls) - 1
	monitors := w.Monitors
	w.mu.Unlock()
	if ferr != nil {
		return &c, ferr
	}
	if c.IsWrite() {
		for _, m := range monitors {
			m(w, &c)
		}
	}
	_ = idx
	return &c, nil
}

func (w *World) after(c *Call, err error) {
	if err != nil {
		w.mu.Lock()
		if c.Index < len(w.Calls) {
			w.Calls[c.Index].Err = err.Error()
		}
		w.mu.Unlock()
		return
	}
	if c.IsWrite() {
		w.mu.Lock()
		after := w.After
		w.mu.Unlock()
		for _, m := range after {
			m(w, c)
		}
	}
}

// New builds a world with no objects.
func New(opts Options) *World {
	w := &World{}
	start := opts.Start
	if start.IsZero() {
		start = Epoch
	}
	w.Clock = clocktesting.NewFakeClock(start)
	kopts := opts.Karpenter
	if kopts == nil {
		kopts = DefaultOptions()
	}
	ctx := options.ToContext(context.Background(), kopts)
	ctx = log.IntoContext(ctx, log.Log) // discards unless a logger is set
	w.Ctx = ctx
	w.Recorder = &Recorder{}

	base := clienttesting.NewObjectTracker(scheme.Scheme, scheme.Codecs.UniversalDecoder())
	tr := &tracker{ObjectTracker: base, w: w}
	w.trk = tr
	w.podGrace = map[string]int64{}
	b := fake.NewClientBuilder().WithScheme(scheme.Scheme).WithObjectTracker(tr).
		WithStatusSubresource(&v1.NodeClaim{}, &v1.NodePool{}, &corev1.Node{}, &corev1.Pod{}, &testv1alpha1.TestNodeClass{}, &policyv1.PodDisruptionBudget{}).
		WithIndex(&corev1.Pod{}, "spec.nodeName", func(o client.Object) []string { return []string{o.(*corev1.Pod).Spec.NodeName} }).
		WithIndex(&corev1.Node{}, "spec.providerID", func(o client.Object) []string { return []string{o.(*corev1.Node).Spec.ProviderID} }).
		WithIndex(&v1.NodeClaim{}, "status.providerID", func(o client.Object) []string { return []string{o.(*v1.NodeClaim).Status.ProviderID} }).
		WithIndex(&storagev1.VolumeAttachment{}, "spec.nodeName", func(o client.Object) []string {
			return []string{o.(*storagev1.VolumeAttachment).Spec.NodeName}
		}).
		WithIndex(&v1.NodeClaim{}, "spec.nodeClassRef.group", func(o client.Object) []string { return []string{o.(*v1.NodeClaim).Spec.NodeClassRef.Group} }).
		WithIndex(&v1.NodeClaim{}, "spec.nodeClassRef.kind", func(o client.Object) []string { return []string{o.(*v1.NodeClaim).Spec.NodeClassRef.Kind} }).
		WithIndex(&v1.NodeClaim{}, "spec.nodeClassRef.name", func(o client.Object) []string { return []string{o.(*v1.NodeClaim).Spec.NodeClassRef.Name} }).
		WithIndex(&v1.NodePool{}, "spec.template.spec.nodeClassRef.group", func(o client.Object) []string {
			return []string{o.(*v1.NodePool).Spec.Template.Spec.NodeClassRef.Group}
		}).
		WithIndex(&v1.NodePool{}, "spec.template.spec.nodeClassRef.kind", func(o client.Object) []string {
			return []string{o.(*v1.NodePool).Spec.Template.Spec.NodeClassRef.Kind}
		}).
		WithIndex(&v1.NodePool{}, "spec.template.spec.nodeClassRef.name", func(o client.Object) []string {
			return []string{o.(*v1.NodePool).Spec.Template.Spec.NodeClassRef.Name}
		}).
		WithInterceptorFuncs(w.interceptors())
	cl := b.Build()
	w.raw = cl
	w.Client = cl
	w.Provider = NewProvider(w)
	w.Cluster = state.NewCluster(w.Clock, w.Client, w.Provider)
	w.Cost = cost.NewClusterCost(ctx, w.Provider, w.Client)
	w.nodeCtrl = informer.NewNodeController(w.Client, w.Cluster)
	w.nodeClaimCtrl = informer.NewNodeClaimController(w.Client, w.Provider, w.Cluster, w.Cost)
	w.podCtrl = informer.NewPodController(w.Client, w.Cluster)
	w.dsCtrl = informer.NewDaemonSetController(w.Client, w.Cluster)
	w.nodePoolCtrl = informer.NewNodePoolController(w.Client, w.Provider, w.Cluster, w.Cost)
	return w
}

func (w *World) interceptors() interceptor.Funcs {
	return interceptor.Funcs{
		Get: func(ctx context.Context, c client.WithWatch, key client.ObjectKey, obj client.Object, opts ...client.GetOption) error {
			// the API server ignores a namespace given for a cluster-scoped resource (the real client drops it via
			// NamespaceIfScoped); the fake object tracker would answer NotFound
			switch obj.(type) {
			case *corev1.PersistentVolume, *corev1.Node, *storagev1.StorageClass, *storagev1.CSINode, *storagev1.VolumeAttachment, *v1.NodePool, *v1.NodeClaim:
				key.Namespace = ""
			}
			k := key.Name
			if key.Namespace != "" {
				k = key.Namespace + "/" + key.Name
			}
			call, err := w.record(Call{Verb: "get", Kind: kindOf(obj), Key: k})
			if err != nil {
				return err
			}
			err = c.Get(ctx, key, obj, opts...)
			w.after(call, err)
			return err
		},
		List: func(ctx context.Context, c client.WithWatch, list client.ObjectList, opts ...client.ListOption) error {
			call, err := w.record(Call{Verb: "list", Kind: kindOf(list)})
			if err != nil {
				return err
			}
			err = c.List(ctx, list, opts...)
			w.after(call, err)
			return err
		},
		Create: func(ctx context.Context, c client.WithWatch, obj client.Object, opts ...client.CreateOption) error {
			if obj.GetName() == "" && obj.GetGenerateName() != "" {
				w.mu.Lock()
				w.nameSeq++
				obj.SetName(fmt.Sprintf("%s%04d", obj.GetGenerateName(), w.nameSeq))
				w.mu.Unlock()
			}
			call, err := w.record(Call{Verb: "create", Kind: kindOf(obj), Key: keyOf(obj), Obj: obj.DeepCopyObject().(client.Object)})
			if err != nil {
				return err
			}
			err = c.Create(ctx, obj, opts...)
			w.after(call, err)
			return err
		},
		Update: func(ctx context.Context, c client.WithWatch, obj client.Object, opts ...client.UpdateOption) error {
			call, err := w.record(Call{Verb: "update", Kind: kindOf(obj), Key: keyOf(obj), Obj: obj.DeepCopyObject().(client.Object)})
			if err != nil {
				return err
			}
			err = c.Update(ctx, obj, opts...)
			w.after(call, err)
			return err
		},
		Patch: func(ctx context.Context, c client.WithWatch, obj client.Object, patch client.Patch, opts ...client.PatchOption) error {
			data, _ := patch.Data(obj)
			call, err := w.record(Call{Verb: "patch", Kind: kindOf(obj), Key: keyOf(obj), Obj: obj.DeepCopyObject().(client.Object), PatchData: string(data)})
			if err != nil {
				return err
			}
			err = c.Patch(ctx, obj, patch, opts...)
			w.after(call, err)
			return err
		},
		Delete: func(ctx context.Context, c client.WithWatch, obj client.Object, opts ...client.DeleteOption) error {
			do := &client.DeleteOptions{}
			do.ApplyOptions(opts)
			call, err := w.record(Call{Verb: "delete", Kind: kindOf(obj), Key: keyOf(obj), Obj: obj.DeepCopyObject().(client.Object), GracePeriod: do.GracePeriodSeconds})
			if err != nil {
				return err
			}
			if do.Preconditions != nil && do.Preconditions.UID != nil {
				cur := obj.DeepCopyObject().(client.Object)
				if gerr := c.Get(ctx, client.ObjectKeyFromObject(obj), cur); gerr == nil && cur.GetUID() != *do.Preconditions.UID {
					err = apierrors.NewConflict(schema.GroupResource{Resource: kindOf(obj)}, obj.GetName(), fmt.Errorf("uid precondition failed"))
					w.after(call, err)
					return err
				}
			}
			if pod, ok := obj.(*corev1.Pod); ok {
				cur := &corev1.Pod{}
				if gerr := c.Get(ctx, client.ObjectKeyFromObject(obj), cur); gerr == nil {
					grace := int64(30)
					if cur.Spec.TerminationGracePeriodSeconds != nil {
						grace = *cur.Spec.TerminationGracePeriodSeconds
					}
					if do.GracePeriodSeconds != nil {
						grace = *do.GracePeriodSeconds
					}
					if cur.DeletionTimestamp == nil {
						w.mu.Lock()
						w.podGrace[pod.Namespace+"/"+pod.Name] = grace
						w.mu.Unlock()
					} else if at := w.Clock.Now().Add(time.Duration(grace) * time.Second); at.Before(cur.DeletionTimestamp.Time) {
						// a second delete with a shorter grace period brings the deletion forward
						w.SetPodDeletionTime(cur, at)
					}
				}
			}
			err = c.Delete(ctx, obj, opts...)
			w.after(call, err)
			return err
		},
		DeleteAllOf: func(ctx context.Context, c client.WithWatch, obj client.Object, opts ...client.DeleteAllOfOption) error {
			call, err := w.record(Call{Verb: "deleteallof", Kind: kindOf(obj)})
			if err != nil {
				return err
			}
			err = c.DeleteAllOf(ctx, obj, opts...)
			w.after(call, err)
			return err
		},
		SubResourceCreate: func(ctx context.Context, c client.Client, sub string, obj client.Object, subObj client.Object, opts ...client.SubResourceCreateOption) error {
			call, err := w.record(Call{Verb: "subcreate", Kind: kindOf(obj), Key: keyOf(obj), Sub: sub, Obj: obj.DeepCopyObject().(client.Object)})
			if err != nil {
				return err
			}
			if sub == "eviction" && w.Evict != nil {
				if pod, ok := obj.(*corev1.Pod); ok {
					err = w.Evict(w, pod)
					w.after(call, err)
					return err
				}
			}
			err = c.SubResource(sub).Create(ctx, obj, subObj, opts...)
			w.after(call, err)
			return err
		},
		SubResourceUpdate: func(ctx context.Context, c client.Client, sub string, obj client.Object, opts ...client.SubResourceUpdateOption) error {
			call, err := w.record(Call{Verb: "subupdate", Kind: kindOf(obj), Key: keyOf(obj), Sub: sub, Obj: obj.DeepCopyObject().(client.Object)})
			if err != nil {
				return err
			}
			err = c.SubResource(sub).Update(ctx, obj, opts...)
			w.after(call, err)
			return err
		},
		SubResourcePatch: func(ctx context.Context, c client.Client, sub string, obj client.Object, patch client.Patch, opts ...client.SubResourcePatchOption) error {
			data, _ := patch.Data(obj)
			call, err := w.record(Call{Verb: "subpatch", Kind: kindOf(obj), Key: keyOf(obj), Sub: sub, Obj: obj.DeepCopyObject().(client.Object), PatchData: string(data)})
			if err != nil {
				return err
			}
			err = c.SubResource(sub).Patch(ctx, obj, patch, opts...)
			w.after(call, err)
			return err
		},
	}
}

// Apply creates the object (or updates it when it exists) together with its status, bypassing logging and faults.
func (w *World) Apply(objs ...client.Object) {
	for _, o := range objs {
		w.applyOne(o)
	}
}

// quiet runs harness-side API access without logging, faults or monitors. It is re-entrant and safe when several
// goroutines use it at once (Karpenter runs some steps in parallel, and monitors are invoked from those goroutines): the
// hooks are parked when the first section opens and restored when the last one closes. API calls that controller
// goroutines issue while a section is open are neither recorded nor faulted.
func (w *World) quiet(fn func()) {
	w.mu.Lock()
	if w.quietDepth == 0 {
		w.parkedFaults, w.parkedMonitors, w.parkedAfter = w.Faults, w.Monitors, w.After
		w.parkedCalls = len(w.Calls)
		w.Faults, w.Monitors, w.After = nil, nil, nil
	}
	w.quietDepth++
	w.mu.Unlock()
	defer func() {
		w.mu.Lock()
		w.quietDepth--
		if w.quietDepth == 0 {
			w.Faults, w.Monitors, w.After = w.parkedFaults, w.parkedMonitors, w.parkedAfter
			if w.parkedCalls <= len(w.Calls) {
				w.Calls = w.Calls[:w.parkedCalls]
			}
		}
		w.mu.Unlock()
	}()
	fn()
}

func (w *World) applyOne(o client.Object) {
	w.quiet(func() {
		want := o.DeepCopyObject().(client.Object)
		cur := o.DeepCopyObject().(client.Object)
		err := w.Client.Get(w.Ctx, client.ObjectKeyFromObject(o), cur)
		if apierrors.IsNotFound(err) {
			o.SetResourceVersion("")
			if err := w.Client.Create(w.Ctx, o); err != nil {
				panic(fmt.Sprintf("sim.Apply create %s %s: %v", kindOf(o), keyOf(o), err))
			}
		} else if err != nil {
			panic(err)
		} else {
			o.SetResourceVersion(cur.GetResourceVersion())
			o.SetUID(cur.GetUID())
			if ts := o.GetCreationTimestamp(); ts.IsZero() {
				o.SetCreationTimestamp(cur.GetCreationTimestamp())
			}
			if err := w.Client.Update(w.Ctx, o); err != nil {
				panic(fmt.Sprintf("sim.Apply update %s %s: %v", kindOf(o), keyOf(o), err))
			}
		}
		// status is dropped by Create/Update for types with a status sub-resource
		if hasStatusSubresource(o) {
			want.SetResourceVersion(o.GetResourceVersion())
			want.SetUID(o.GetUID())
			want.SetCreationTimestamp(o.GetCreationTimestamp())
			if err := w.Client.Status().Update(w.Ctx, want); err != nil {
				panic(fmt.Sprintf("sim.Apply status %s %s: %v", kindOf(o), keyOf(o), err))
			}
			// leave the caller's object as the API server now holds it (Update overwrote its status with the old one)
			if err := w.Client.Get(w.Ctx, client.ObjectKeyFromObject(want), o); err != nil {
				o.SetResourceVersion(want.GetResourceVersion())
			}
		}
	})
}

func hasStatusSubresource(o client.Object) bool {
	switch o.(type) {
	case *v1.NodeClaim, *v1.NodePool, *corev1.Node, *corev1.Pod, *testv1alpha1.TestNodeClass, *policyv1.PodDisruptionBudget:
		return true
	}
	return false
}

// Delete removes an object bypassing logging (harness-side deletion).
func (w *World) Delete(o client.Object) {
	w.quiet(func() {
		_ = w.Client.Delete(w.Ctx, o)
	})
}

// Quiet runs harness-side API access without logging, faults or monitors.
func (w *World) Quiet(fn func()) { w.quiet(fn) }

// ResetCalls forgets the call log.
func (w *World) ResetCalls() {
	w.mu.Lock()
	w.Calls = nil
	w.mu.Unlock()
}

func (w *World) CallsSnapshot() []Call {
	w.mu.Lock()
	defer w.mu.Unlock()
	return append([]Call(nil), w.Calls...)
}

// Writes returns the write calls in the log.
func (w *World) Writes() []Call {
	var out []Call
	for _, c := range w.CallsSnapshot() {
		if c.IsWrite() {
			out = append(out, c)
		}
	}
	return out
}

// Sync delivers the current state of every Node, NodeClaim, Pod, DaemonSet and NodePool to the cluster-state informer
// controllers (canonical order), repeating while a pod reconcile asks for a requeue.
func (w *World) Sync() {
	w.quiet(func() {
		ctx := w.Ctx
		if w.seen == nil {
			w.seen = map[string]map[types.NamespacedName]bool{}
		}
		// keys delivers every current key of the kind plus the keys seen by an earlier Sync that are gone now (the
		// informer's delete event), in a canonical order
		keys := func(kind string, cur []types.NamespacedName) []types.NamespacedName {
			now := map[types.NamespacedName]bool{}
			for _, k := range cur {
				now[k] = true
			}
			var gone []types.NamespacedName
			for k := range w.seen[kind] {
				if !now[k] {
					gone = append(gone, k)
				}
			}
			sort.Slice(gone, func(i, j int) bool { return gone[i].String() < gone[j].String() })
			w.seen[kind] = now
			return append(gone, cur...)
		}
		for round := 0; round < 3; round++ {
			requeue := false
			var ncs v1.NodeClaimList
			_ = w.Client.List(ctx, &ncs)
			var cur []types.NamespacedName
			for i := range ncs.Items {
				cur = append(cur, client.ObjectKeyFromObject(&ncs.Items[i]))
			}
			for _, k := range keys("NodeClaim", cur) {
				_, _ = w.nodeClaimCtrl.Reconcile(ctx, reconcile.Request{NamespacedName: k})
			}
			var nodes corev1.NodeList
			_ = w.Client.List(ctx, &nodes)
			cur = nil
			for i := range nodes.Items {
				cur = append(cur, client.ObjectKeyFromObject(&nodes.Items[i]))
			}
			for _, k := range keys("Node", cur) {
				_, _ = w.nodeCtrl.Reconcile(ctx, reconcile.Request{NamespacedName: k})
			}
			var pods corev1.PodList
			_ = w.Client.List(ctx, &pods)
			cur = nil
			for i := range pods.Items {
				cur = append(cur, client.ObjectKeyFromObject(&pods.Items[i]))
			}
			for _, k := range keys("Pod", cur) {
				res, _ := w.podCtrl.Reconcile(ctx, reconcile.Request{NamespacedName: k})
				//nolint:staticcheck
				requeue = requeue || res.Requeue
			}
			var dss appsv1.DaemonSetList
			_ = w.Client.List(ctx, &dss)
			cur = nil
			for i := range dss.Items {
				cur = append(cur, client.ObjectKeyFromObject(&dss.Items[i]))
			}
			for _, k := range keys("DaemonSet", cur) {
				_, _ = w.dsCtrl.Reconcile(ctx, reconcile.Request{NamespacedName: k})
			}
			var nps v1.NodePoolList
			_ = w.Client.List(ctx, &nps)
			cur = nil
			for i := range nps.Items {
				cur = append(cur, client.ObjectKeyFromObject(&nps.Items[i]))
			}
			for _, k := range keys("NodePool", cur) {
				_, _ = w.nodePoolCtrl.Reconcile(ctx, reconcile.Request{NamespacedName: k})
			}
			if !requeue {
				break
			}
		}
	})
}

// RestartState emulates a controller restart for everything that lives in memory: a fresh cluster state, cost cache and
// informer controllers, re-synced from the API.
func (w *World) RestartState() {
	w.Cluster = state.NewCluster(w.Clock, w.Client, w.Provider)
	w.Cost = cost.NewClusterCost(w.Ctx, w.Provider, w.Client)
	w.nodeCtrl = informer.NewNodeController(w.Client, w.Cluster)
	w.nodeClaimCtrl = informer.NewNodeClaimController(w.Client, w.Provider, w.Cluster, w.Cost)
	w.podCtrl = informer.NewPodController(w.Client, w.Cluster)
	w.dsCtrl = informer.NewDaemonSetController(w.Client, w.Cluster)
	w.nodePoolCtrl = informer.NewNodePoolController(w.Client, w.Provider, w.Cluster, w.Cost)
	w.seen = nil
	w.Sync()
}

// InformerDeliver reconciles one key on the informer controller of the given kind (Node, NodeClaim, Pod, DaemonSet, NodePool).
func (w *World) InformerDeliver(kind string, key types.NamespacedName) (reconcile.Result, error) {
	var res reconcile.Result
	var err error
	w.quiet(func() {
		req := reconcile.Request{NamespacedName: key}
		switch kind {
		case "Node":
			res, err = w.nodeCtrl.Reconcile(w.Ctx, req)
		case "NodeClaim":
			res, err = w.nodeClaimCtrl.Reconcile(w.Ctx, req)
		case "Pod":
			res, err = w.podCtrl.Reconcile(w.Ctx, req)
		case "DaemonSet":
			res, err = w.dsCtrl.Reconcile(w.Ctx, req)
		case "NodePool":
			res, err = w.nodePoolCtrl.Reconcile(w.Ctx, req)
		}
	})
	return res, err
}

// RunBlocking runs fn in a goroutine and steps the fake clock whenever something is waiting on it, until fn returns.
// onWait (optional) is called each time before the clock is stepped; it may mutate the world ("mid-wait mutation").
func (w *World) RunBlocking(fn func(), step time.Duration, onWait func(n int)) {
	done := make(chan struct{})
	go func() {
		defer close(done)
		fn()
	}()
	n := 0
	idle := 0
	for {
		select {
		case <-done:
			return
		default:
		}
		if w.Clock.HasWaiters() {
			idle = 0
			if onWait != nil {
				onWait(n)
			}
			n++
			w.Clock.Step(step)
		} else {
			idle++
		}
		select {
		case <-done:
			return
		case <-time.After(200 * time.Microsecond):
		}
		if idle > 500000 {
			panic("sim.RunBlocking: function neither returns nor waits on the clock")
		}
	}
}

// Recorder collects events.
type Recorder struct {
	mu     sync.Mutex
	Events []events.Event
}

func (r *Recorder) Publish(evts ...events.Event) {
	r.mu.Lock()
	r.Events = append(r.Events, evts...)
	r.mu.Unlock()
}

func (r *Recorder) Reset() {
	r.mu.Lock()
	r.Events = nil
	r.mu.Unlock()
}

// DefaultOptions mirrors the operator defaults relevant to the controllers under test.
func DefaultOptions() *options.Options {
	return &options.Options{
		BatchMaxDuration:  10 * time.Second,
		BatchIdleDuration: time.Second,
		CPURequests:       1000,
		MemoryLimit:       -1,
		PreferencePolicy:  options.PreferencePolicyRespect,
		MinValuesPolicy:   options.MinValuesPolicyStrict,
		IgnoreDRARequests: true,
		FeatureGates: options.FeatureGates{
			ReservedCapacity: true,
			StaticCapacity:   true,
			NodeRepair:       true,
		},
	}
}

var _ = object.GVK

// SetPodDeletionTime rewrites the deletionTimestamp of a terminating pod directly in the store.
func (w *World) SetPodDeletionTime(pod *corev1.Pod, at time.Time) {
	cp := pod.DeepCopy()
	ts := metav1.NewTime(at)
	cp.DeletionTimestamp = &ts
	_ = w.trk.ObjectTracker.Update(schema.GroupVersionResource{Version: "v1", Resource: "pods"}, cp, cp.Namespace)
}

// GracefulEvict is the default behaviour of a permitted eviction: a graceful delete of the pod.
func (w *World) GracefulEvict(pod *corev1.Pod) error {
	var err error
	w.Quiet(func() { err = w.Client.Delete(w.Ctx, pod) })
	return err
}

// FinishPod removes a terminating pod (the kubelet reports its containers gone).
func (w *World) FinishPod(key client.ObjectKey) {
	w.Quiet(func() {
		p := &corev1.Pod{}
		if err := w.Client.Get(w.Ctx, key, p); err != nil {
			return
		}
		p.Finalizers = nil
		if p.DeletionTimestamp == nil {
			_ = w.Client.Update(w.Ctx, p)
			_ = w.Client.Delete(w.Ctx, p)
			return
		}
		_ = w.Client.Update(w.Ctx, p)
	})
}

// Remove deletes an object for good (finalizers stripped), bypassing logging.
func (w *World) Remove(o client.Object) {
	w.quiet(func() {
		cur := o.DeepCopyObject().(client.Object)
		if err := w.Client.Get(w.Ctx, client.ObjectKeyFromObject(o), cur); err != nil {
			return
		}
		if len(cur.GetFinalizers()) > 0 {
			cur.SetFinalizers(nil)
			if err := w.Client.Update(w.Ctx, cur); err != nil {
				return
			}
		}
		_ = w.Client.Delete(w.Ctx, cur)
	})
}
