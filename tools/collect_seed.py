#!/usr/bin/env python3
"""collect_seed.py <worktree> <seed-id> <property[,property]> <one-line what>: stores a sub-agent's seeded change under /verif/seeded/<seed-id>/."""
import json, os, subprocess, sys, glob, shutil
wt, sid, props, what = sys.argv[1], sys.argv[2], sys.argv[3].split(","), sys.argv[4]
out = os.path.join(os.path.dirname(os.path.dirname(os.path.abspath(__file__))), "seeded", sid)
os.makedirs(out, exist_ok=True)
diff = subprocess.run(["git", "-C", wt, "diff", "--", "pkg", "cmd", "kwok"], stdout=subprocess.PIPE, text=True).stdout
if not diff.strip():
    sys.exit("no tracked source change in " + wt)
open(os.path.join(out, "patch.diff"), "w").write(diff)
files = [l[6:] for l in diff.splitlines() if l.startswith("+++ b/")]
if os.path.exists(os.path.join(wt, "SEED.md")):
    shutil.copy(os.path.join(wt, "SEED.md"), os.path.join(out, "demonstration.md"))
for f in glob.glob(os.path.join(wt, "pkg", "**", "seed_demo_test.go"), recursive=True):
    rel = os.path.relpath(f, wt)
    dst = os.path.join(out, "seed_demo_test.go.txt")
    open(dst, "w").write("// original location: %s\n" % rel + open(f).read())
json.dump({"id": sid, "properties": props, "what": what, "files": files, "source": "fresh sub-agent given only the property text and a scratch worktree"}, open(os.path.join(out, "meta.json"), "w"), indent=1)
print(sid, files, len(diff.splitlines()), "diff lines")
