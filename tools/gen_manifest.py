#!/usr/bin/env python3
"""Regenerates /verif/MANIFEST.json from checks.json (+ the per-property texts in tools/manifest_texts.json)."""
import json
import os

VERIF = os.path.dirname(os.path.dirname(os.path.abspath(__file__)))
checks = json.load(open(os.path.join(VERIF, "checks.json")))
texts = json.load(open(os.path.join(VERIF, "tools", "manifest_texts.json")))
props = [json.loads(l) for l in open(os.path.join(VERIF, "properties.jsonl"))]

man = {
    "version": 1,
    "setup_cmd": "cd /verif/harness && env -u GOSUMDB GOFLAGS=-mod=mod GOPROXY=off go test -c -vet=off -tags verif -o /dev/null .",
    "hooks": {
        "guard": "verif",
        "enable": "go test -tags verif (the harness module /verif/harness replaces sigs.k8s.io/karpenter => /repo and is always built with -tags verif)",
        "baseline_off_cmd": "cd /repo && env -u GOSUMDB GOFLAGS=-mod=mod GOPROXY=off go test -vet=off -count=1 -timeout 25m ./...",
        "source_commits": texts.get("_hook_commits", []),
        "add_only": True,
    },
    "engines": texts.get("_engines", []),
    "checks": [],
    "notes": texts.get("_notes", ""),
    "not_applicable": [],
}
for p in props:
    pid = p["id"]
    if pid in checks and pid in texts:
        t = texts[pid]
        man["checks"].append({
            "property_id": pid,
            "quick_cmd": "./check %s --tier quick" % pid,
            "thorough_cmd": "./check %s --tier thorough" % pid,
            "evidence_file": "/verif/evidence/%s.json" % pid,
            "replay_cmd_template": "./check %s --replay {path}" % pid,
            "engine": t.get("engine", "rapid"),
            "level_claimed": {"category": checks[pid].get("level", "exploration"), "text": t["level_text"], "design_ref": t.get("design_ref", "DESIGN.md §4 " + pid)},
            "level_note": t["level_note"],
            "technique": t["technique"],
        })
    else:
        man["not_applicable"].append({"property_id": pid, "reason": texts.get("_na", {}).get(pid, "no check is registered for this property in this build of /verif (not claimed)")})
json.dump(man, open(os.path.join(VERIF, "MANIFEST.json"), "w"), indent=1)
print("checks:", [c["property_id"] for c in man["checks"]])
print("not_applicable:", [c["property_id"] for c in man["not_applicable"]])
