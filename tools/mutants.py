#!/usr/bin/env python3
"""Sensitivity runs: apply one hand-written mutant (tools/mutants.json) to a scratch copy of /repo and run the quick
(or thorough) check of the properties it should break.  Never touches /repo.  Results -> tools/mutant_results.json.

  tools/mutants.py [--tier quick] [--only NAME[,NAME]] [--prop Cxx] [--baseline]
"""
import argparse
import json
import os
import shutil
import subprocess
import sys
import tempfile
import time

VERIF = os.path.dirname(os.path.dirname(os.path.abspath(__file__)))


def main():
    ap = argparse.ArgumentParser()
    ap.add_argument("--tier", default="quick")
    ap.add_argument("--only")
    ap.add_argument("--prop")
    ap.add_argument("--baseline", action="store_true", help="also run the mutated package's own unit tests")
    ap.add_argument("--scale", default="1.0")
    args = ap.parse_args()
    muts = json.load(open(os.path.join(VERIF, "tools", "mutants.json")))
    only = set(args.only.split(",")) if args.only else None
    res_path = os.path.join(VERIF, "tools", "mutant_results.json")
    results = json.load(open(res_path)) if os.path.exists(res_path) else {}
    for m in muts:
        if only and m["name"] not in only:
            continue
        if args.prop and args.prop not in m["props"]:
            continue
        if shutil.disk_usage("/tmp").free < 30 << 30:
            # every mutant leaves a full set of build-cache entries behind
            subprocess.run(["go", "clean", "-cache"], check=False)
        tmp = tempfile.mkdtemp(prefix="mut-")
        try:
            repo = os.path.join(tmp, "repo")
            subprocess.run(["rsync", "-a", "--exclude", ".git", "/repo/", repo + "/"], check=True)
            ok = True
            for e in m["edits"]:
                path = os.path.join(repo, e["file"])
                s = open(path).read()
                if s.count(e["old"]) < 1:
                    print("MUTANT %s: pattern not found in %s" % (m["name"], e["file"]))
                    ok = False
                    break
                s = s.replace(e["old"], e["new"], 1 if not e.get("all") else -1)
                open(path, "w").write(s)
            if not ok:
                results[m["name"]] = {"error": "pattern not found"}
                continue
            entry = {"props": {}, "tier": args.tier, "desc": m.get("desc", "")}
            if args.baseline and m.get("pkg"):
                env = dict(os.environ, GOFLAGS="-mod=mod", GOPROXY="off")
                p = subprocess.run(["go", "test", "-vet=off", "-count=1", m["pkg"]], cwd=repo, env=env, stdout=subprocess.PIPE, stderr=subprocess.STDOUT, text=True)
                entry["baseline_pkg_tests"] = "pass" if p.returncode == 0 else "FAIL"
            for prop in m["props"]:
                if args.prop and prop != args.prop:
                    continue
                t0 = time.time()
                env = dict(os.environ, VERIF_REPO=repo, VERIF_NO_EVIDENCE="1")
                p = subprocess.run([os.path.join(VERIF, "check"), prop, "--tier", args.tier, "--scale", args.scale, "--no-evidence", "--no-save"], env=env, stdout=subprocess.PIPE, stderr=subprocess.STDOUT, text=True)
                sigs = sorted(set(l.split("[")[-1].rstrip("]") for l in p.stdout.splitlines() if l.startswith("--- violation")))
                entry["props"][prop] = {"rc": p.returncode, "killed": p.returncode == 1, "wall_s": round(time.time() - t0, 1), "signatures": sigs[:6]}
                print("MUTANT %-40s %s rc=%d %s %.0fs %s" % (m["name"], prop, p.returncode, "KILLED" if p.returncode == 1 else "survived" if p.returncode == 0 else "INCONCLUSIVE", time.time() - t0, sigs[:3]))
                if p.returncode == 2:
                    print(p.stdout[-1500:])
            results[m["name"]] = entry
        finally:
            shutil.rmtree(tmp, ignore_errors=True)
        json.dump(results, open(res_path, "w"), indent=1, sort_keys=True)


if __name__ == "__main__":
    sys.exit(main())
