#!/bin/bash
# Runs one tier of every claimed check sequentially; prints one line per property. Usage: tools/runall.sh [quick|thorough] [extra check args]
tier=${1:-quick}; shift
cd "$(dirname "$0")/.."
rc_all=0
for id in $(python3 -c "import json;print(' '.join(c['property_id'] for c in json.load(open('MANIFEST.json'))['checks']))"); do
  out=$(./check $id --tier $tier "$@" 2>&1); rc=$?
  echo "$id rc=$rc $(echo "$out" | grep -E '^C[0-9]+ (quick|thorough):' | tail -1)"
  echo "$out" | grep -E 'VIOLATION|KNOWN-FINDING|INCONCLUSIVE' | head -5
  [ $rc -ne 0 ] && rc_all=1
done
exit $rc_all
