#!/usr/bin/env python3
"""Regenerates the seeded-change table of DESIGN.md §10.6 from seeded/first_contact.json (first contact and what had to be
added, maintained by hand) and seeded/results.json (the latest tools/seeded.py run)."""
import json
import os
import re

VERIF = os.path.dirname(os.path.dirname(os.path.abspath(__file__)))


def main():
    first = json.load(open(os.path.join(VERIF, "seeded", "first_contact.json")))
    results = json.load(open(os.path.join(VERIF, "seeded", "results.json")))
    lines = ["| seeded change | property | first run | now (quick tier) | what had to be added |", "|---|---|---|---|---|"]
    caught = 0
    for sid in sorted(first):
        f = first[sid]
        r = results.get(sid, {}).get("props", {}).get(f["prop"], {})
        verdict = {"CAUGHT": "caught", "MISSED": "MISSED"}.get(r.get("verdict", ""), "not run")
        sig = (r.get("sigs") or [""])[0]
        caught += verdict == "caught"
        desc = f["desc"]
        if len(desc) > 150:
            desc = desc[:150].rstrip()
        lines.append("| `%s` — %s | %s | %s | %s `%s` | %s |" % (sid, desc, f["prop"], f["first"], verdict, sig, f["added"]))
    path = os.path.join(VERIF, "DESIGN.md")
    s = open(path).read()
    m = re.search(r"\| seeded change \| property \| first run \|.*?\n\n", s, re.S)
    s = s[:m.start()] + "\n".join(lines) + "\n\n" + s[m.end():]
    open(path, "w").write(s)
    print("%d seeds, %d caught by their primary property, first contact %d" % (len(first), caught, sum(1 for f in first.values() if f["first"] == "caught")))


if __name__ == "__main__":
    main()
