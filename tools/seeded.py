#!/usr/bin/env python3
"""Runs the checks against the seeded changes kept under /verif/seeded/<id>/ (patch.diff + meta.json).

Each patch is applied to a scratch copy of /repo (never to /repo itself), the quick (or thorough) check of every property
listed in meta.json is run with VERIF_REPO pointing at the copy, and the copy is removed.  Results go to
seeded/results.json.   tools/seeded.py [--tier quick] [--only ID[,ID]] [--scale X] [--all-props]
"""
import argparse
import glob
import json
import os
import shutil
import subprocess
import tempfile
import time

VERIF = os.path.dirname(os.path.dirname(os.path.abspath(__file__)))


def main():
    ap = argparse.ArgumentParser()
    ap.add_argument("--tier", default="quick")
    ap.add_argument("--only")
    ap.add_argument("--scale", default="1.0")
    ap.add_argument("--all-props", action="store_true", help="run every claimed check, not only the ones in meta.json")
    args = ap.parse_args()
    only = set(args.only.split(",")) if args.only else None
    res_path = os.path.join(VERIF, "seeded", "results.json")
    results = json.load(open(res_path)) if os.path.exists(res_path) else {}
    claimed = [c["property_id"] for c in json.load(open(os.path.join(VERIF, "MANIFEST.json")))["checks"]]
    for d in sorted(glob.glob(os.path.join(VERIF, "seeded", "*", ""))):
        sid = os.path.basename(os.path.dirname(d))
        if only and sid not in only:
            continue
        meta = json.load(open(os.path.join(d, "meta.json")))
        if shutil.disk_usage("/tmp").free < 30 << 30:
            subprocess.run(["go", "clean", "-cache"], check=False)
        tmp = tempfile.mkdtemp(prefix="seeded-")
        try:
            repo = os.path.join(tmp, "repo")
            subprocess.run(["rsync", "-a", "--exclude", ".git", "/repo/", repo + "/"], check=True)
            p = subprocess.run(["patch", "-p1", "--no-backup-if-mismatch", "-i", os.path.join(d, "patch.diff")], cwd=repo, stdout=subprocess.PIPE, stderr=subprocess.STDOUT, text=True)
            if p.returncode != 0:
                print("SEEDED %s: patch does not apply\n%s" % (sid, p.stdout[-600:]))
                results[sid] = {"error": "patch does not apply"}
                continue
            entry = {"tier": args.tier, "props": {}, "what": meta.get("what", "")}
            props = claimed if args.all_props else meta["properties"]
            for prop in props:
                t0 = time.time()
                env = dict(os.environ, VERIF_REPO=repo)
                q = subprocess.run([os.path.join(VERIF, "check"), prop, "--tier", args.tier, "--no-evidence", "--no-save", "--scale", args.scale], env=env, stdout=subprocess.PIPE, stderr=subprocess.STDOUT, text=True)
                sigs = sorted(set(l.split("[")[-1].rstrip("]") for l in q.stdout.splitlines() if l.startswith("--- violation")))
                verdict = {0: "MISSED", 1: "CAUGHT"}.get(q.returncode, "INCONCLUSIVE")
                entry["props"][prop] = {"rc": q.returncode, "verdict": verdict, "sigs": sigs[:6], "wall_s": round(time.time() - t0, 1)}
                print("SEEDED %-28s %s rc=%d %s %.0fs %s" % (sid, prop, q.returncode, verdict, time.time() - t0, sigs[:3]))
                if q.returncode == 2:
                    print(q.stdout[-800:])
            results[sid] = entry
        finally:
            shutil.rmtree(tmp, ignore_errors=True)
            json.dump(results, open(res_path, "w"), indent=1, sort_keys=True)


if __name__ == "__main__":
    main()
