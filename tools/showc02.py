#!/usr/bin/env python3
import json,sys
d=json.load(open(sys.argv[1]))
for v in d['explanation'][:4]: print('VIOL',v['sig'],'\n    ',v['what'][:900])
s=d['scenario']; w=s['world']
for p in w['pools']:
    sp=p['spec']; print('pool',p['metadata']['name'],'reqs',json.dumps(sp['template']['spec'].get('requirements')),'labels',sp['template'].get('metadata',{}).get('labels'),'taints',sp['template']['spec'].get('taints'),'weight',sp.get('weight'))
for n in w['nodes']: print('node',json.dumps(n))
def cons(p):
    sp=p['spec']; out={}
    if sp.get('affinity'): out['affinity']=sp['affinity']
    if sp.get('topologySpreadConstraints'): out['tsc']=sp['topologySpreadConstraints']
    if sp.get('nodeSelector'): out['nodeSelector']=sp['nodeSelector']
    return json.dumps(out)
for p in w.get('bound') or []: print('bound',p['metadata']['name'],'on',p['spec']['nodeName'],p['metadata'].get('labels'),cons(p))
for p in w.get('pending') or []: print('pending',p['metadata']['name'],p['metadata'].get('labels'),p['spec']['containers'][0]['resources'].get('requests'),cons(p),'tol',p['spec'].get('tolerations'))
print('catalog',[(t['name'],t['capacity'],[(o['zone'],o['ct'],o['price'],o['available']) for o in t['offerings']]) for t in w['catalog']])
print('options',w.get('options'))
