#!/usr/bin/env python3
"""Pretty-print a disruption-world replay."""
import json,sys
d=json.load(open(sys.argv[1]))
for v in d.get('violations',[])[:4]: print('VIOL',v['sig'],'\n    ',v['what'][:900])
s=d['scenario']
print('start',s.get('startUnix'),'spotToSpot',s.get('spotToSpot'))
print('steps',json.dumps(s['steps']))
print('nodeX',json.dumps(s.get('nodeX')))
print('podX',json.dumps(s.get('podX')), 'pdbs',json.dumps(s.get('pdbs')))
for p in s['world']['pools']:
    sp=p['spec']; print('pool',p['metadata']['name'],json.dumps(sp['disruption']),'replicas',sp.get('replicas'),'tgp',sp['template']['spec'].get('terminationGracePeriod'),'reqs',json.dumps(sp['template']['spec'].get('requirements')),'taints',sp['template']['spec'].get('taints'))
for n in s['world']['nodes']: print('node',json.dumps(n))
for p in s['world'].get('bound') or []:
    print('pod',p['metadata']['name'],'on',p['spec']['nodeName'],'owner',[o['kind'] for o in p['metadata'].get('ownerReferences',[])],'ann',p['metadata'].get('annotations'),'phase',p['status'].get('phase'),'start',p['status'].get('startTime'),'req',p['spec']['containers'][0]['resources'].get('requests'),'labels',p['metadata'].get('labels'),'prio',p['spec'].get('priority'))
for p in s['world'].get('pending') or []: print('pending',p['metadata']['name'])
print('catalog',[(t['name'],t['capacity'],[(o['zone'],o['ct'],o['price'],o['available']) for o in t['offerings']]) for t in s['world']['catalog']])
print('daemonsets',[d['metadata']['name'] for d in s['world'].get('daemonsets') or []], s['world'].get('daemonOn'))
