#!/usr/bin/env python3
"""Pretty-print a replay file of a scheduler-world property (development aid)."""
import json,sys,re
r=json.load(open(sys.argv[1])); print('=====',r['signature']); 
for e in r['explanation'][:3]: print(e['what'][:1500])
s=r['scenario']
if 'world' in s: s=s['world']
print('options',s.get('options'))
for it in s.get('catalog',[]): print('  type',json.dumps(it))
for p in s.get('pools') or []: print('  pool',p['metadata']['name'],'weight',p['spec'].get('weight'),'limits',p['spec'].get('limits'),json.dumps(p['spec']['template']))
for n in s.get('nodes') or []: print('  node',json.dumps(n))
for d in s.get('daemonsets') or []: print('  ds',d['metadata']['name'],json.dumps(d['spec']['template']['spec']))
print('  daemonOn',s.get('daemonOn'))
for p in (s.get('bound') or []): print('  bound',p['metadata']['name'],p['metadata'].get('labels'),json.dumps(p['spec']))
for p in (s.get('pending') or []): print('  pending',p['metadata']['name'],p['metadata'].get('labels'),json.dumps(p['spec']))
